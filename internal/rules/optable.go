package rules

import (
	"fmt"
	"go/ast"
	"go/token"
	"strconv"
	"strings"

	"golang.org/x/tools/go/packages"

	"verif/internal/core"
)

// R-OPTABLE: the two operator tables of execution/binary (operations, vectorBinaryOperations) against
// the reference engine's scalarBinop / vectorElemBinop, read from the pinned module on every run.

func init() {
	register(&Rule{ID: "R-OPTABLE", Min: 15, Run: ruleOpTable,
		Doc: "every entry of the binary operator tables applies the operation the reference engine applies for the token with that spelling (scalarBinop for `operations`, vectorElemBinop for `vectorBinaryOperations`, spelling from parser.ItemTypeStr), to the left operand first and the right operand second"})

	mutant(Mutant{Rule: "R-OPTABLE", Name: "gte-filters-like-gt", File: "execution/binary/table.go",
		Old: "\t\treturn operands[valueIdx], operands[0] >= operands[1]", New: "\t\treturn operands[valueIdx], operands[0] > operands[1]", Expect: "vectorBinaryOperations[\">=\"]"})
	mutant(Mutant{Rule: "R-OPTABLE", Name: "mod-operands-swapped", File: "execution/binary/table.go",
		Old: "\t\treturn math.Mod(operands[0], operands[1]), true", New: "\t\treturn math.Mod(operands[1], operands[0]), true", Expect: "operations[\"%\"]"})
	mutant(Mutant{Rule: "R-OPTABLE", Name: "bool-lte-is-lt", File: "execution/binary/table.go",
		Old: "return btof(operands[0] <= operands[1]), true", New: "return btof(operands[0] < operands[1]), true", Expect: "operations[\"<=\"]"})
}

// opShape describes "left OP right" / "pkg.F(left, right)": the operation and whether the operands
// appear in the order (first, second).
type opShape struct {
	op      string
	inOrder bool
}

// binShape finds, among exprs, the application of a binary operation to the two named operands.
func binShape(exprs []ast.Expr, isFirst, isSecond func(ast.Expr) bool) (opShape, bool) {
	var found []opShape
	var visit func(e ast.Expr)
	visit = func(e ast.Expr) {
		switch x := e.(type) {
		case *ast.ParenExpr:
			visit(x.X)
		case *ast.BinaryExpr:
			switch {
			case isFirst(x.X) && isSecond(x.Y):
				found = append(found, opShape{x.Op.String(), true})
			case isSecond(x.X) && isFirst(x.Y):
				found = append(found, opShape{x.Op.String(), false})
			default:
				visit(x.X)
				visit(x.Y)
			}
		case *ast.CallExpr:
			if len(x.Args) == 2 {
				name := ""
				if se, ok := x.Fun.(*ast.SelectorExpr); ok {
					if id, ok := se.X.(*ast.Ident); ok {
						name = id.Name + "." + se.Sel.Name
					}
				}
				switch {
				case name != "" && isFirst(x.Args[0]) && isSecond(x.Args[1]):
					found = append(found, opShape{name, true})
					return
				case name != "" && isSecond(x.Args[0]) && isFirst(x.Args[1]):
					found = append(found, opShape{name, false})
					return
				}
			}
			for _, a := range x.Args {
				visit(a)
			}
		}
	}
	for _, e := range exprs {
		visit(e)
	}
	if len(found) != 1 {
		return opShape{}, false
	}
	return found[0], true
}

func lastReturn(stmts []ast.Stmt) *ast.ReturnStmt {
	for i := len(stmts) - 1; i >= 0; i-- {
		if r, ok := stmts[i].(*ast.ReturnStmt); ok {
			return r
		}
	}
	return nil
}

// referenceOps reads "case parser.TOKEN: ... return <op applied to lhs, rhs>" from a reference function.
func referenceOps(ref *packages.Package, fn string) map[string]opShape {
	out := map[string]opShape{}
	fd, _ := findRefBody(ref, fn).(*ast.FuncDecl)
	if fd == nil {
		return nil
	}
	isNamed := func(n string) func(ast.Expr) bool {
		return func(e ast.Expr) bool { id, ok := e.(*ast.Ident); return ok && id.Name == n }
	}
	ast.Inspect(fd.Body, func(n ast.Node) bool {
		cc, ok := n.(*ast.CaseClause)
		if !ok {
			return true
		}
		ret := lastReturn(cc.Body)
		if ret == nil {
			return true
		}
		sh, ok := binShape(ret.Results, isNamed("lhs"), isNamed("rhs"))
		if !ok {
			return true
		}
		for _, e := range cc.List {
			if se, ok := e.(*ast.SelectorExpr); ok {
				out[se.Sel.Name] = sh
			}
		}
		return true
	})
	return out
}

func ruleOpTable(p *core.Program) []core.Obligation {
	const rule = "R-OPTABLE"
	var obs []core.Obligation
	lost := func(what string) []core.Obligation {
		return []core.Obligation{core.Ob(rule, "operator tables", "-", "", core.Lost, what)}
	}
	ref := p.Deps[pkgPromqlRef]
	if ref == nil || len(ref.Syntax) == 0 {
		return lost("the pinned reference package was not loaded with syntax")
	}
	vocab, err := readParserVocab(p)
	if err != nil {
		return lost(err.Error())
	}
	// spelling -> token name, for the operator tokens
	bySpelling := map[string]string{}
	for _, tok := range vocab.operators {
		if s, ok := vocab.tokenString[tok]; ok {
			bySpelling[s] = tok
		}
	}
	refTables := map[string]map[string]opShape{
		"operations":             referenceOps(ref, "scalarBinop"),
		"vectorBinaryOperations": referenceOps(ref, "vectorElemBinop"),
	}
	for name, t := range refTables {
		if len(t) < 6 {
			return lost(fmt.Sprintf("could not read the reference counterpart of %s (%d arms)", name, len(t)))
		}
	}
	rp := p.ByPath[core.Module+"/execution/binary"]
	if rp == nil {
		return lost("execution/binary not found")
	}
	isOperand := func(i string) func(ast.Expr) bool {
		return func(e ast.Expr) bool {
			ix, ok := e.(*ast.IndexExpr)
			if !ok {
				return false
			}
			bl, ok := ix.Index.(*ast.BasicLit)
			return ok && bl.Kind == token.INT && bl.Value == i
		}
	}
	seenTables := map[string]bool{}
	for _, f := range rp.Syntax {
		for _, d := range f.Decls {
			gd, ok := d.(*ast.GenDecl)
			if !ok || gd.Tok != token.VAR {
				continue
			}
			for _, sp := range gd.Specs {
				vs := sp.(*ast.ValueSpec)
				for i, nm := range vs.Names {
					refT, ok := refTables[nm.Name]
					if !ok || i >= len(vs.Values) {
						continue
					}
					cl, ok := vs.Values[i].(*ast.CompositeLit)
					if !ok {
						continue
					}
					seenTables[nm.Name] = true
					for _, el := range cl.Elts {
						kv, ok := el.(*ast.KeyValueExpr)
						if !ok {
							continue
						}
						ks, ok := kv.Key.(*ast.BasicLit)
						if !ok {
							continue
						}
						spelling, _ := strconv.Unquote(ks.Value)
						key := fmt.Sprintf("execution/binary.%s[%q] applies the reference operation", nm.Name, spelling)
						site := p.Pos(kv.Pos())
						tok, ok := bySpelling[spelling]
						if !ok {
							obs = append(obs, core.Ob(rule, key, site, nm.Name, core.Violated, "no operator token of the pinned parser is spelled "+strconv.Quote(spelling)))
							continue
						}
						want, ok := refT[tok]
						if !ok {
							obs = append(obs, core.Ob(rule, key, site, nm.Name, core.Violated, "the reference function has no arm for parser."+tok))
							continue
						}
						var body ast.Node
						switch v := kv.Value.(type) {
						case *ast.FuncLit:
							body = v.Body
						case *ast.Ident: // a named function of the package
							if fd, ok := findRefBody(rp, v.Name).(*ast.FuncDecl); ok {
								body = fd.Body
							}
						}
						// an entry produced by a factory from a named comparator: boolComparison(greater). The factory's
						// closure must apply its parameter to (operands[0], operands[1]); the comparator then is the operation
						if ce, ok := kv.Value.(*ast.CallExpr); ok && body == nil && len(ce.Args) == 1 {
							if sh, ok := factoryShape(rp, ce, isOperand("0"), isOperand("1")); ok {
								switch {
								case sh != want:
									obs = append(obs, core.Ob(rule, key, site, nm.Name, core.Violated, fmt.Sprintf("the entry computes %s, the reference computes %s for parser.%s", sh.describe(), want.describe(), tok)))
								default:
									obs = append(obs, core.Ob(rule, key, site, nm.Name, core.Held, "computes "+sh.describe()+" (comparator handed to a factory) like the reference arm parser."+tok))
								}
								continue
							}
						}
						if body == nil {
							obs = append(obs, core.Ob(rule, key, site, nm.Name, core.Undecided, "entry is neither a function literal nor a function of the package"))
							continue
						}
						var results []ast.Expr
						ast.Inspect(body, func(n ast.Node) bool {
							if r, ok := n.(*ast.ReturnStmt); ok {
								results = append(results, r.Results...)
							}
							return true
						})
						got, ok := binShape(results, isOperand("0"), isOperand("1"))
						switch {
						case !ok:
							obs = append(obs, core.Ob(rule, key, site, nm.Name, core.Undecided, "cannot find a single application of an operation to operands[0] and operands[1]"))
						case got != want:
							obs = append(obs, core.Ob(rule, key, site, nm.Name, core.Violated, fmt.Sprintf("the entry computes %s, the reference computes %s for parser.%s", got.describe(), want.describe(), tok)))
						default:
							obs = append(obs, core.Ob(rule, key, site, nm.Name, core.Held, "computes "+got.describe()+" like the reference arm parser."+tok))
						}
					}
				}
			}
		}
	}
	for name := range refTables {
		if !seenTables[name] {
			obs = append(obs, core.Ob(rule, "execution/binary."+name, "-", "", core.Lost, "table not found"))
		}
	}
	return obs
}

// factoryShape resolves `factory(comparator)`: the factory returns a function literal that calls its parameter
// with the two operands; the comparator is a package function returning one operation on its two parameters.
func factoryShape(pk *packages.Package, ce *ast.CallExpr, isFirst, isSecond func(ast.Expr) bool) (opShape, bool) {
	fid, ok1 := ce.Fun.(*ast.Ident)
	cid, ok2 := ce.Args[0].(*ast.Ident)
	if !ok1 || !ok2 {
		return opShape{}, false
	}
	fd, _ := findRefBody(pk, fid.Name).(*ast.FuncDecl)
	cd, _ := findRefBody(pk, cid.Name).(*ast.FuncDecl)
	if fd == nil || cd == nil || fd.Type.Params == nil || len(fd.Type.Params.List) != 1 || len(fd.Type.Params.List[0].Names) != 1 {
		return opShape{}, false
	}
	prm := fd.Type.Params.List[0].Names[0].Name
	// how the factory's closure applies its parameter
	applied, inOrder := 0, true
	ast.Inspect(fd.Body, func(n ast.Node) bool {
		c, ok := n.(*ast.CallExpr)
		if !ok || len(c.Args) != 2 {
			return true
		}
		if id, ok := c.Fun.(*ast.Ident); !ok || id.Name != prm {
			return true
		}
		switch {
		case isFirst(c.Args[0]) && isSecond(c.Args[1]):
			applied++
		case isSecond(c.Args[0]) && isFirst(c.Args[1]):
			applied++
			inOrder = false
		default:
			applied += 2 // something other than the two operands: not recognised
		}
		return true
	})
	if applied != 1 {
		return opShape{}, false
	}
	// the comparator's operation on its two parameters
	var names []string
	for _, f := range cd.Type.Params.List {
		for _, n := range f.Names {
			names = append(names, n.Name)
		}
	}
	if len(names) != 2 {
		return opShape{}, false
	}
	isNamed := func(n string) func(ast.Expr) bool {
		return func(e ast.Expr) bool { id, ok := e.(*ast.Ident); return ok && id.Name == n }
	}
	var results []ast.Expr
	ast.Inspect(cd.Body, func(n ast.Node) bool {
		if r, ok := n.(*ast.ReturnStmt); ok {
			results = append(results, r.Results...)
		}
		return true
	})
	sh, ok := binShape(results, isNamed(names[0]), isNamed(names[1]))
	if !ok {
		return opShape{}, false
	}
	if !inOrder {
		sh.inOrder = !sh.inOrder
	}
	return sh, true
}

func (s opShape) describe() string {
	l, r := "left", "right"
	if !s.inOrder {
		l, r = r, l
	}
	if strings.Contains(s.op, ".") {
		return fmt.Sprintf("%s(%s, %s)", s.op, l, r)
	}
	return fmt.Sprintf("%s %s %s", l, s.op, r)
}

// ---------------------------------------------------------------------------------------------
// R-DROPNAMESET: for which operators the metric name is dropped, against the reference's list.

func init() {
	mutant(Mutant{Rule: "R-DROPNAMESET", Name: "set-operator-added-to-the-table", File: "execution/binary/table.go",
		Old: "\t\"atan2\": func(operands [2]float64, valueIdx int) (float64, bool) {", New: "\t\"unless\": func(operands [2]float64, valueIdx int) (float64, bool) { return operands[0], true },\n\t\"atan2\": func(operands [2]float64, valueIdx int) (float64, bool) {", Expect: "unless"})
	register(&Rule{ID: "R-DROPNAMESET", Min: 10, Run: ruleDropNameSet,
		Doc: "for every operator of the binary operator table, the decision to drop the metric name from the result agrees with the reference: the repository keeps the name exactly for comparison operators without bool (parser.ItemType.IsComparisonOperator, rule R-BOOLNAME), the reference drops it exactly for the tokens listed in shouldDropMetricName (and for bool comparisons); both lists are read from the pinned module"})
}

// returnTrueCases returns the identifiers listed in the case clauses of fn that return true.
func returnTrueCases(fn ast.Node) map[string]bool {
	out := map[string]bool{}
	ast.Inspect(fn, func(n ast.Node) bool {
		cc, ok := n.(*ast.CaseClause)
		if !ok {
			return true
		}
		ret := lastReturn(cc.Body)
		if ret == nil || len(ret.Results) != 1 {
			return true
		}
		if id, ok := ret.Results[0].(*ast.Ident); !ok || id.Name != "true" {
			return true
		}
		for _, e := range cc.List {
			switch x := e.(type) {
			case *ast.Ident:
				out[x.Name] = true
			case *ast.SelectorExpr:
				out[x.Sel.Name] = true
			}
		}
		return true
	})
	return out
}

func ruleDropNameSet(p *core.Program) []core.Obligation {
	const rule = "R-DROPNAMESET"
	lost := func(what string) []core.Obligation {
		return []core.Obligation{core.Ob(rule, "metric name decision per operator", "-", "", core.Lost, what)}
	}
	ref, prs := p.Deps[pkgPromqlRef], p.Deps[pkgParser]
	rp := p.ByPath[core.Module+"/execution/binary"]
	if ref == nil || prs == nil || rp == nil {
		return lost("packages not loaded")
	}
	vocab, err := readParserVocab(p)
	if err != nil {
		return lost(err.Error())
	}
	dropFn, cmpFn := findRefBody(ref, "shouldDropMetricName"), findRefBody(prs, "ItemType.IsComparisonOperator")
	if dropFn == nil || cmpFn == nil {
		return lost("shouldDropMetricName / ItemType.IsComparisonOperator not found in the pinned module")
	}
	refDrops, isCmp := returnTrueCases(dropFn), returnTrueCases(cmpFn)
	if len(refDrops) < 4 || len(isCmp) < 4 {
		return lost("implausibly short case lists read from the pinned module")
	}
	// the repository's decision is the one R-BOOLNAME establishes: the name is kept iff IsComparisonOperator && !bool
	usesCmp := false
	for _, f := range rp.Syntax {
		ast.Inspect(f, func(n ast.Node) bool {
			if se, ok := n.(*ast.SelectorExpr); ok && se.Sel.Name == "IsComparisonOperator" {
				usesCmp = true
			}
			return true
		})
	}
	if !usesCmp {
		return []core.Obligation{core.Ob(rule, "metric name decision per operator", "-", "", core.Undecided, "execution/binary no longer decides with ItemType.IsComparisonOperator: the rule must be re-validated against the new predicate")}
	}
	bySpelling := map[string]string{}
	for _, tok := range vocab.operators {
		if s, ok := vocab.tokenString[tok]; ok {
			bySpelling[s] = tok
		}
	}
	var obs []core.Obligation
	for _, spelling := range mapLiteralStringKeys(rp, "operations") {
		tok, ok := bySpelling[spelling]
		if !ok {
			continue
		}
		key := fmt.Sprintf("operator %q: the metric name is dropped exactly when the reference drops it", spelling)
		repoDrops := !isCmp[tok] // without bool
		refDrop := refDrops[tok]
		switch {
		case repoDrops == refDrop:
			obs = append(obs, core.Ob(rule, key, "execution/binary/table.go", "operations", core.Held, fmt.Sprintf("both %s the name (parser.%s)", map[bool]string{true: "drop", false: "keep"}[refDrop], tok)))
		default:
			obs = append(obs, core.Ob(rule, key, "execution/binary/table.go", "operations", core.Violated, fmt.Sprintf("parser.%s: the reference's shouldDropMetricName %s the metric name, the repository %s it (it is not a comparison operator)", tok, map[bool]string{true: "drops", false: "keeps"}[refDrop], map[bool]string{true: "drops", false: "keeps"}[repoDrops])))
		}
	}
	return obs
}

// ---------------------------------------------------------------------------------------------
// R-REFERRORS: the failure conditions of the reference's VectorBinop / aggregation have a counterpart.

func init() {
	register(&Rule{ID: "R-REFERRORS", Min: 3, Run: ruleRefErrors,
		Doc: "every failure the reference engine can raise while matching a vector-to-vector binary operation (VectorBinop) or while validating an aggregation parameter (aggregation) has a counterpart in the operator that evaluates the same construct: the distinctive text of each reference error message (read from the pinned module) occurs in an error message of execution/binary resp. execution/aggregate. Siblings must agree on when they fail"})

	mutant(Mutant{Rule: "R-REFERRORS", Name: "overflow-error-reworded-away", File: "execution/aggregate/khashaggregate.go",
		Old: "errors.Newf(\"Scalar value %v overflows int64\", a.params[i])", New: "errors.Newf(\"invalid parameter %v\", a.params[i])", Expect: "overflows int64"})
}

// errorfMessages returns the constant format strings passed to <recv>.errorf / error-constructing calls in fn.
func errorfMessages(pk *packages.Package, fn ast.Node, callee func(name string) bool, skipToken func(name string) bool) []string {
	var out []string
	mentionsSkipped := func(e ast.Node) bool {
		hit := false
		ast.Inspect(e, func(n ast.Node) bool {
			if se, ok := n.(*ast.SelectorExpr); ok && skipToken != nil && skipToken(se.Sel.Name) {
				hit = true
			}
			return !hit
		})
		return hit
	}
	ast.Inspect(fn, func(n ast.Node) bool {
		// code that only runs for a construct the repository does not evaluate natively
		switch x := n.(type) {
		case *ast.IfStmt:
			if mentionsSkipped(x.Cond) {
				return false
			}
		case *ast.CaseClause:
			for _, e := range x.List {
				if mentionsSkipped(e) {
					return false
				}
			}
		}
		call, ok := n.(*ast.CallExpr)
		if !ok || len(call.Args) == 0 {
			return true
		}
		name := ""
		switch f := call.Fun.(type) {
		case *ast.SelectorExpr:
			name = f.Sel.Name
		case *ast.Ident:
			name = f.Name
		}
		if !callee(name) {
			return true
		}
		for _, a := range call.Args {
			if tv, ok := pk.TypesInfo.Types[a]; ok && tv.Value != nil && tv.Value.Kind().String() == "String" {
				if s, err := strconv.Unquote(tv.Value.ExactString()); err == nil {
					out = append(out, s)
				}
				break
			}
		}
		return true
	})
	return out
}

// distinctive returns the longest literal piece of a format string.
func distinctive(format string) string {
	best := ""
	cur := strings.Builder{}
	flush := func() {
		if s := strings.TrimSpace(cur.String()); len(s) > len(best) {
			best = s
		}
		cur.Reset()
	}
	for i := 0; i < len(format); i++ {
		if format[i] == '%' && i+1 < len(format) {
			flush()
			i++
			continue
		}
		cur.WriteByte(format[i])
	}
	flush()
	return best
}

func ruleRefErrors(p *core.Program) []core.Obligation {
	const rule = "R-REFERRORS"
	var obs []core.Obligation
	ref := p.Deps[pkgPromqlRef]
	if ref == nil {
		return []core.Obligation{core.Ob(rule, "reference error messages", "-", "", core.Lost, "reference package not loaded")}
	}
	for _, pr := range []struct{ refFn, repoPkg string }{
		{"evaluator.VectorBinop", "execution/binary"},
		{"evaluator.aggregation", "execution/aggregate"},
	} {
		fn := findRefBody(ref, pr.refFn)
		rp := p.ByPath[core.Module+"/"+pr.repoPkg]
		if fn == nil || rp == nil {
			obs = append(obs, core.Ob(rule, "failures of promql."+pr.refFn, "-", "", core.Lost, "function or package not found"))
			continue
		}
		// aggregations the repository evaluates natively: the string case labels of execution/aggregate
		native := map[string]bool{"topk": true, "bottomk": true}
		if ap := p.ByPath[core.Module+"/execution/aggregate"]; ap != nil {
			for _, f := range ap.Syntax {
				ast.Inspect(f, func(n ast.Node) bool {
					if cc, ok := n.(*ast.CaseClause); ok {
						for _, e := range cc.List {
							if bl, ok := e.(*ast.BasicLit); ok && bl.Kind == token.STRING {
								native[strings.Trim(bl.Value, "\"")] = true
							}
						}
					}
					return true
				})
			}
		}
		vocab, verr := readParserVocab(p)
		if verr != nil {
			obs = append(obs, core.Ob(rule, "failures of promql."+pr.refFn, "-", "", core.Lost, verr.Error()))
			continue
		}
		notNative := func(tok string) bool {
			for _, a := range vocab.aggregators {
				if a == tok {
					return !native[vocab.tokenString[tok]]
				}
			}
			return false
		}
		msgs := errorfMessages(ref, fn, func(n string) bool { return n == "errorf" }, notNative)
		// every string constant of the repo package
		var repoStrings []string
		for _, f := range rp.Syntax {
			ast.Inspect(f, func(n ast.Node) bool {
				e, ok := n.(ast.Expr)
				if !ok {
					return true
				}
				if tv, ok := rp.TypesInfo.Types[e]; ok && tv.Value != nil && tv.Value.Kind().String() == "String" {
					if s, err := strconv.Unquote(tv.Value.ExactString()); err == nil {
						repoStrings = append(repoStrings, s)
					}
				}
				return true
			})
		}
		seen := map[string]bool{}
		for _, m := range msgs {
			d := distinctive(m)
			if len(d) < 12 || seen[d] {
				continue
			}
			seen[d] = true
			key := fmt.Sprintf("%s can fail like promql.%s: %q", pr.repoPkg, pr.refFn, d)
			found := false
			for _, s := range repoStrings {
				if strings.Contains(s, d) {
					found = true
				}
			}
			if found {
				obs = append(obs, core.Ob(rule, key, pr.repoPkg, pr.refFn, core.Held, "an error message of the package carries the reference's text"))
			} else {
				obs = append(obs, core.Ob(rule, key, pr.repoPkg, pr.refFn, core.Violated, "no error of "+pr.repoPkg+" corresponds to this failure of the reference: a query the reference rejects here is answered (with duplicate or arbitrary series)"))
			}
		}
	}
	return obs
}

package rules

import (
	"fmt"
	"go/ast"
	"go/token"
	"go/types"
	"sort"
	"strings"

	"golang.org/x/tools/go/ast/astutil"
	"golang.org/x/tools/go/ssa"

	"verif/internal/core"
)

func init() {
	register(&Rule{ID: "R-PAIRING", Min: 12, Run: rulePairing,
		Doc: "in every basic block the writes to X.Samples and X.SampleIDs of one step vector X come in pairs of the same shape (append one / append all / reslice / literal of equal length / element store): IDs and values keep equal length"})
	register(&Rule{ID: "R-ONEPERSTEP", Min: 9, Run: ruleOnePerStep,
		Doc: "every append of a step vector to a batch is nested in exactly one loop (counted through the helpers that receive the batch), or is the `if len(batch) <= step` idiom of the selectors (also inside a helper that tests its own parameters, when every caller hands over the counter of a loop around the call and assigns the result back): one step vector per evaluation step"})
	register(&Rule{ID: "R-SENTINEL", Min: 2, Run: ruleSentinel,
		Doc: "every call of a FunctionCall value whose reachable kernels can return InvalidSample compares the result with the sentinel and uses its value only on the valid branch"})
	register(&Rule{ID: "R-POINTFIELDS", Min: 20, Run: rulePointFields,
		Doc: "for every kernel reachable at the instant-function call site and every field of promql.Point it reads, the call site stores that field into the point buffer it passes"})
	register(&Rule{ID: "R-KERNELBOUNDS", Min: 12, Run: ruleKernelBounds,
		Doc: "every kernel that receives a window (matrix argument per the pinned parser.Functions) guards its indexing of Points: the number of points its body and helpers need is established by a dominating early-return length test"})
	register(&Rule{ID: "R-ACCRESET", Min: 6, Run: ruleAccReset,
		Doc: "for every accumulator literal, every piece of state written by AddFunc (a captured variable, or a field of a captured or bound state object, compared by type and field name) is written by Reset: tables are reused for every batch, so nothing of an earlier step survives. AddFunc/Reset may be function literals, method values, or parameters of a constructor helper (then each call site of the helper is an instance)"})
	register(&Rule{ID: "R-USEAFTERPUT", Min: 10, Run: ruleUseAfterPut,
		Doc: "after PutStepVector(v) the Samples/SampleIDs of v are not read again in the same iteration (same block or blocks it dominates before the loop back edge)"})
	register(&Rule{ID: "R-RESULTSHAPE", Min: 3, Run: ruleResultShape,
		Doc: "in Exec the range-query result is sorted and only non-empty series are kept, and instant samples/scalars are stamped with the query's evaluation time"})

	mutant(Mutant{Rule: "R-PAIRING", Name: "noarg-no-id", File: "execution/function/operator.go",
		Old: "\t\tsv.SampleIDs = append(sv.SampleIDs, 0)\n", New: "", Expect: "noArgFunctionOperator"})
	mutant(Mutant{Rule: "R-PAIRING", Name: "scalar-branch-ids-not-cut", File: "execution/function/operator.go",
		Old: "\t\t\tvectors[batchIndex].SampleIDs = append(vector.SampleIDs[:0], 0)\n", New: "", Expect: "functionOperator"})
	mutant(Mutant{Rule: "R-ONEPERSTEP", Name: "vector-per-group", File: "execution/aggregate/khashaggregate.go",
		Old: "\t\th.entries = h.entries[:0]\n\t}\n\t*result = append(*result, s)\n", New: "\t\th.entries = h.entries[:0]\n\t\t*result = append(*result, s)\n\t}\n", Expect: "kAggregate"})
	mutant(Mutant{Rule: "R-ONEPERSTEP", Name: "no-vector-for-k-below-one", File: "execution/aggregate/khashaggregate.go",
		Old: "\tif k < 1 {\n\t\t*result = append(*result, a.vectorPool.GetStepVector(t))\n\t\treturn\n\t}", New: "\tif k < 1 {\n\t\treturn\n\t}", Expect: "kAggregate"})
	mutant(Mutant{Rule: "R-SENTINEL", Name: "instant-function-ignores-sentinel", File: "execution/function/operator.go",
		Old: "\t\t\tif result.Point == InvalidSample.Point {\n\t\t\t\tcontinue\n\t\t\t}\n", New: "", Expect: "functionOperator"})
	mutant(Mutant{Rule: "R-KERNELBOUNDS", Name: "irate-single-point", File: "execution/function/functions.go",
		Old: "\t\"irate\": func(f FunctionArgs) promql.Sample {\n\t\tif len(f.Points) < 2 {", New: "\t\"irate\": func(f FunctionArgs) promql.Sample {\n\t\tif len(f.Points) < 1 {", Expect: "irate"})
	mutant(Mutant{Rule: "R-ACCRESET", Name: "stdvar-hasvalue-not-reset", File: "execution/aggregate/scalar_table.go",
		Old: "\t\t\t\tValueFunc: func() float64 { return (aux + cAux) / count },\n\t\t\t\tHasValue:  func() bool { return hasValue },\n\t\t\t\tReset: func(_ float64) {\n\t\t\t\t\thasValue = false\n", New: "\t\t\t\tValueFunc: func() float64 { return (aux + cAux) / count },\n\t\t\t\tHasValue:  func() bool { return hasValue },\n\t\t\t\tReset: func(_ float64) {\n", Expect: "stdvar"})
	mutant(Mutant{Rule: "R-USEAFTERPUT", Name: "read-after-recycle", File: "execution/function/operator.go",
		Old: "\t\t\t\tval = scalarVectors[batchIndex].Samples[0]\n\t\t\t\to.nextOps[i].GetPool().PutStepVector(scalarVectors[batchIndex])\n", New: "\t\t\t\to.nextOps[i].GetPool().PutStepVector(scalarVectors[batchIndex])\n\t\t\t\tval = scalarVectors[batchIndex].Samples[0]\n", Expect: "functionOperator"})
	mutant(Mutant{Rule: "R-RESULTSHAPE", Name: "matrix-not-sorted", File: "engine/engine.go",
		Old: "\t\tsort.Sort(resultMatrix)\n", New: "\t\tif len(resultMatrix) > 1000 {\n\t\t\tsort.Sort(resultMatrix)\n\t\t}\n", Expect: "sorted"})
	mutant(Mutant{Rule: "R-RESULTSHAPE", Name: "matrix-sorted-by-another-order", File: "engine/engine.go",
		Old: "\t\tsort.Sort(resultMatrix)\n", New: "\t\tsort.Slice(resultMatrix, func(i, j int) bool { return resultMatrix[i].Metric.String() < resultMatrix[j].Metric.String() })\n", Expect: "sorted"})
	mutant(Mutant{Rule: "R-RESULTSHAPE", Name: "empty-series-kept", File: "engine/engine.go",
		Old: "\t\t\tif len(s.Points) == 0 {\n\t\t\t\tcontinue\n\t\t\t}\n\t\t\tresultMatrix = append(resultMatrix, s)", New: "\t\t\tresultMatrix = append(resultMatrix, s)", Expect: "non-empty"})
}

// ---------------------------------------------------------------------------------------------
// R-PAIRING

func stepVectorField(addr ssa.Value) (field string, base ssa.Value, ok bool) {
	n, f, b, ok := core.FieldRef(addr)
	if !ok || n == nil || n.Obj().Pkg() == nil || n.Obj().Pkg().Path() != modModel || n.Obj().Name() != "StepVector" {
		return "", nil, false
	}
	if f != "Samples" && f != "SampleIDs" {
		return "", nil, false
	}
	return f, b, true
}

// shapeOf classifies the value written into Samples/SampleIDs.
func shapeOf(v ssa.Value) string {
	switch x := v.(type) {
	case *ssa.Call:
		if bi, ok := x.Call.Value.(*ssa.Builtin); ok && bi.Name() == "append" {
			// append(s, one) builds a 1-element varargs array; append(s, t...) passes a slice through
			if sl, ok := x.Call.Args[1].(*ssa.Slice); ok {
				if al, ok := sl.X.(*ssa.Alloc); ok {
					if arr, ok := al.Type().Underlying().(*types.Pointer).Elem().Underlying().(*types.Array); ok {
						base := "append"
						if bs, ok := x.Call.Args[0].(*ssa.Slice); ok {
							if h, ok := core.ConstInt(bs.High); ok {
								base = fmt.Sprintf("append(base[:%d])", h)
							}
						}
						return fmt.Sprintf("%s+%d", base, arr.Len())
					}
				}
			}
			return "append-all"
		}
		return "call"
	case *ssa.Slice:
		if al, ok := x.X.(*ssa.Alloc); ok {
			if arr, ok := al.Type().Underlying().(*types.Pointer).Elem().Underlying().(*types.Array); ok {
				return fmt.Sprintf("literal[%d]", arr.Len())
			}
		}
		h := "?"
		if x.High == nil {
			h = "len"
		} else if c, ok := core.ConstInt(x.High); ok {
			h = fmt.Sprint(c)
		} else {
			h = "n"
		}
		return "reslice[:" + h + "]"
	case *ssa.MakeSlice:
		if c, ok := core.ConstInt(x.Len); ok {
			return fmt.Sprintf("literal[%d]", c)
		}
		return "make"
	case *ssa.UnOp:
		return "load"
	case *ssa.Const:
		return "nil"
	}
	return fmt.Sprintf("%T", v)
}

func rulePairing(p *core.Program) []core.Obligation {
	const rule = "R-PAIRING"
	var obs []core.Obligation
	for _, fn := range p.Funcs {
		for _, b := range fn.Blocks {
			type group struct {
				base   ssa.Value
				shapes map[string][]string
				pos    token.Pos
			}
			var groups []*group
			find := func(base ssa.Value) *group {
				for _, g := range groups {
					if core.SameExpr(g.base, base) {
						return g
					}
				}
				g := &group{base: base, shapes: map[string][]string{}}
				groups = append(groups, g)
				return g
			}
			for _, ins := range b.Instrs {
				st, ok := ins.(*ssa.Store)
				if !ok {
					continue
				}
				if f, base, ok := stepVectorField(st.Addr); ok {
					g := find(base)
					g.shapes[f] = append(g.shapes[f], shapeOf(st.Val))
					if !g.pos.IsValid() {
						g.pos = st.Pos()
					}
					continue
				}
				// element stores X.Samples[i] = v / X.SampleIDs[i] = v
				if ia, ok := st.Addr.(*ssa.IndexAddr); ok {
					var fld string
					var base ssa.Value
					if f, ok := ia.X.(*ssa.Field); ok {
						if n, fn2, b2, ok := core.FieldRef(f); ok && n != nil && n.Obj().Name() == "StepVector" && (fn2 == "Samples" || fn2 == "SampleIDs") {
							fld, base = fn2, b2
						}
					} else if a := core.Deref(ia.X); a != nil {
						if f2, b2, ok := stepVectorField(a); ok {
							fld, base = f2, b2
						}
					}
					if fld != "" {
						// in-place transformation of values (vector.Samples[i] = f(vector.Samples[i])) keeps the length
						if l := core.Deref(st.Val); l != nil && core.SameExpr(l, st.Addr) {
							continue
						}
						g := find(base)
						g.shapes[fld] = append(g.shapes[fld], "elem")
						if !g.pos.IsValid() {
							g.pos = st.Pos()
						}
					}
				}
			}
			for gi, g := range groups {
				a, c := append([]string{}, g.shapes["Samples"]...), append([]string{}, g.shapes["SampleIDs"]...)
				// element stores of values only (no ID store) are value updates in place: allowed when no length-changing write is present
				if len(c) == 0 && allEq(a, "elem") {
					continue
				}
				if len(a) == 0 && allEq(c, "elem") {
					continue // re-basing of IDs in place
				}
				sort.Strings(a)
				sort.Strings(c)
				key := fmt.Sprintf("%s block %s vector #%d", core.FuncName(fn), b.Comment, gi)
				if strings.Join(a, ",") == strings.Join(c, ",") {
					obs = append(obs, core.Ob(rule, key, p.Pos(g.pos), core.FuncName(fn), core.Held, "Samples and SampleIDs: "+strings.Join(a, ",")))
				} else {
					obs = append(obs, core.Ob(rule, key, p.Pos(g.pos), core.FuncName(fn), core.Violated, fmt.Sprintf("Samples is written as [%s] but SampleIDs as [%s]: the two slices of the step vector get different lengths", strings.Join(a, ","), strings.Join(c, ","))))
				}
			}
		}
	}
	return obs
}

func allEq(xs []string, v string) bool {
	if len(xs) == 0 {
		return false
	}
	for _, x := range xs {
		if x != v {
			return false
		}
	}
	return true
}

// ---------------------------------------------------------------------------------------------
// R-ONEPERSTEP

func isBatchType(t types.Type) bool {
	s, ok := t.Underlying().(*types.Slice)
	return ok && core.TypeIs(s.Elem(), modModel, "StepVector") && !isPointer(s.Elem())
}

func ruleOnePerStep(p *core.Program) []core.Obligation {
	const rule = "R-ONEPERSTEP"
	var obs []core.Obligation
	depthCache := map[*ssa.Function]map[*ssa.BasicBlock]int{}
	depthOf := func(fn *ssa.Function, b *ssa.BasicBlock) int {
		d, ok := depthCache[fn]
		if !ok {
			d = core.LoopDepth(fn)
			depthCache[fn] = d
		}
		return d[b]
	}
	// extra depth contributed by callers for helpers that are not operator entry points
	var callerDepth func(fn *ssa.Function, seen map[*ssa.Function]bool) (int, bool)
	callerDepth = func(fn *ssa.Function, seen map[*ssa.Function]bool) (int, bool) {
		if fn.Parent() != nil || fn.Name() == "Next" || seen[fn] {
			return 0, true
		}
		seen[fn] = true
		sites := p.CallSitesOf(fn)
		if len(sites) == 0 {
			return 0, true
		}
		res, first := 0, true
		for _, cs := range sites {
			if cs == nil {
				return 0, false
			}
			// find the instruction of this call site
			var at ssa.Instruction
			for _, f2 := range p.Funcs {
				core.EachInstr(f2, func(b *ssa.BasicBlock, i int, ins ssa.Instruction) {
					if core.CallCommon(ins) == cs {
						at = ins
					}
				})
			}
			if at == nil {
				return 0, false
			}
			up, ok := callerDepth(at.Parent(), seen)
			if !ok {
				return 0, false
			}
			d := depthOf(at.Parent(), at.Block()) + up
			if _, isGo := at.(*ssa.Go); isGo {
				// a goroutine started per operand (go c.mergeNext(...) in a loop over the operands) is its own
				// activation, like the closure it may have been before: the spawning loop is not a loop over steps
				d = 0
			}
			if first {
				res, first = d, false
			} else if d != res {
				return 0, false
			}
		}
		return res, true
	}
	for _, fn := range p.Funcs {
		k := 0
		core.EachInstr(fn, func(b *ssa.BasicBlock, i int, ins ssa.Instruction) {
			call, ok := ins.(*ssa.Call)
			if !ok {
				return
			}
			if bi, ok := call.Call.Value.(*ssa.Builtin); !ok || bi.Name() != "append" || !isBatchType(call.Type()) {
				return
			}
			k++
			key := fmt.Sprintf("%s appends a step vector to a batch #%d", core.FuncName(fn), k)
			own := depthOf(fn, b)
			up, ok := callerDepth(fn, map[*ssa.Function]bool{})
			if !ok {
				if paramLenGuard(p, call) {
					obs = append(obs, core.Ob(rule, key, p.Pos(ins.Pos()), core.FuncName(fn), core.Held, "helper guarded by `len(batch) <= step index`; every caller hands over the step index of a loop around the call"))
					return
				}
				obs = append(obs, core.Ob(rule, key, p.Pos(ins.Pos()), core.FuncName(fn), core.Undecided, "helper is called from different loop depths or used as a value"))
				return
			}
			total := own + up
			switch {
			case total == 1:
				obs = append(obs, core.Ob(rule, key, p.Pos(ins.Pos()), core.FuncName(fn), core.Held, "inside exactly one loop"))
			case lenGuardIdiom(call):
				obs = append(obs, core.Ob(rule, key, p.Pos(ins.Pos()), core.FuncName(fn), core.Held, fmt.Sprintf("loop depth %d, guarded by `len(batch) <= step index`", total)))
			default:
				obs = append(obs, core.Ob(rule, key, p.Pos(ins.Pos()), core.FuncName(fn), core.Violated, fmt.Sprintf("the append sits in %d nested loops: the batch gets several step vectors per step (or none when the inner loop is empty) and consumers that pair batches by position are misaligned", total)))
			}
		})
	}
	// helpers that are called once per step (depth 0 here, depth 1 at the caller) must append on every path
	for _, fn := range p.Funcs {
		if fn.Parent() != nil || fn.Name() == "Next" {
			continue
		}
		var appends []*ssa.Call
		core.EachInstr(fn, func(b *ssa.BasicBlock, i int, ins ssa.Instruction) {
			if call, ok := ins.(*ssa.Call); ok {
				if bi, ok := call.Call.Value.(*ssa.Builtin); ok && bi.Name() == "append" && isBatchType(call.Type()) && depthOf(fn, b) == 0 {
					appends = append(appends, call)
				}
			}
		})
		if len(appends) == 0 {
			continue
		}
		up, ok := callerDepth(fn, map[*ssa.Function]bool{})
		if !ok || up != 1 {
			continue
		}
		// every normal return must be dominated by exactly one of the appends
		k := 0
		core.EachInstr(fn, func(b *ssa.BasicBlock, i int, ins ssa.Instruction) {
			ret, ok := ins.(*ssa.Return)
			if !ok || b == fn.Recover {
				return
			}
			k++
			n := 0
			for _, a := range appends {
				if core.InstrDominates(a, ret) {
					n++
				}
			}
			key := fmt.Sprintf("%s (called once per step) return #%d appends one step vector", core.FuncName(fn), k)
			if n == 1 {
				obs = append(obs, core.Ob(rule, key, p.Pos(ret.Pos()), core.FuncName(fn), core.Held, "exactly one append dominates the return"))
			} else {
				obs = append(obs, core.Ob(rule, key, p.Pos(ret.Pos()), core.FuncName(fn), core.Violated, fmt.Sprintf("%d appends dominate this return: the step gets no (or more than one) step vector and the batch shifts relative to the sibling operators", n)))
			}
		})
	}
	return obs
}

// paramLenGuard: the append of a helper is control-dependent on `len(batch) <= idx` where batch and idx are
// parameters of the helper, and at every call site idx is the counter of a loop around the call and batch is
// the loop-carried batch the result is assigned back to.
func paramLenGuard(p *core.Program, call *ssa.Call) bool {
	b := call.Block()
	fn := b.Parent()
	if fn.Parent() != nil || len(b.Preds) != 1 {
		return false
	}
	iff := core.IfOf(b.Preds[0])
	if iff == nil || b.Preds[0].Succs[0] != b {
		return false
	}
	bo, ok := iff.Cond.(*ssa.BinOp)
	if !ok || (bo.Op != token.LEQ && bo.Op != token.EQL) {
		return false
	}
	idx, ok := bo.Y.(*ssa.Parameter)
	if !ok {
		return false
	}
	lc, ok := bo.X.(*ssa.Call)
	if !ok {
		return false
	}
	if bi, ok := lc.Call.Value.(*ssa.Builtin); !ok || bi.Name() != "len" {
		return false
	}
	batch, ok := lc.Call.Args[0].(*ssa.Parameter)
	if !ok || call.Call.Args[0] != batch {
		return false
	}
	pos := func(q *ssa.Parameter) int {
		for i, x := range fn.Params {
			if x == q {
				return i
			}
		}
		return -1
	}
	ib, ii := pos(batch), pos(idx)
	sites := p.CallSitesOf(fn)
	if len(sites) == 0 {
		return false
	}
	for _, cs := range sites {
		if cs == nil || cs.IsInvoke() || len(cs.Args) != len(fn.Params) {
			return false
		}
		var at *ssa.Call
		for _, f2 := range p.Funcs {
			core.EachInstr(f2, func(_ *ssa.BasicBlock, _ int, ins ssa.Instruction) {
				if c, ok := ins.(*ssa.Call); ok && &c.Call == cs {
					at = c
				}
			})
		}
		if at == nil {
			return false
		}
		ph, ok := cs.Args[ii].(*ssa.Phi)
		if !ok {
			return false
		}
		if body := core.LoopBodies(at.Parent())[ph.Block()]; body == nil || !body[at.Block()] {
			return false
		}
		// the result goes back into the batch that was handed over
		if !core.PhiClosure(cs.Args[ib])[at] {
			return false
		}
	}
	return true
}

// lenGuardIdiom: the append is control-dependent on `len(batch) <= idx` (batch being the appended slice).
func lenGuardIdiom(call *ssa.Call) bool {
	b := call.Block()
	if len(b.Preds) != 1 {
		return false
	}
	iff := core.IfOf(b.Preds[0])
	if iff == nil || b.Preds[0].Succs[0] != b {
		return false
	}
	bo, ok := iff.Cond.(*ssa.BinOp)
	if !ok || (bo.Op != token.LEQ && bo.Op != token.EQL) {
		return false
	}
	// the length is compared with the step index of an enclosing loop (a loop-carried phi), not with a
	// loop-invariant bound such as the batch size: `len(batch) < numSteps` stays true for every series
	// of a shard and appends a vector per series
	ph, isPhi := bo.Y.(*ssa.Phi)
	if !isPhi {
		return false
	}
	if body := core.LoopBodies(b.Parent())[ph.Block()]; body == nil || !body[b] {
		return false
	}
	lc, ok := bo.X.(*ssa.Call)
	if !ok {
		return false
	}
	bi, ok := lc.Call.Value.(*ssa.Builtin)
	if !ok || bi.Name() != "len" {
		return false
	}
	// the measured slice is (a phi of) the slice being appended to
	measured, base := core.PhiClosure(lc.Call.Args[0]), core.PhiClosure(call.Call.Args[0])
	for v := range base {
		if measured[v] {
			return true
		}
	}
	return lc.Call.Args[0] == call.Call.Args[0]
}

// ---------------------------------------------------------------------------------------------
// Reference function table (from the pinned parser's source)

type refFunc struct {
	argTypes []string // "ValueTypeVector", ...
	variadic int
}

func referenceFunctions(p *core.Program) (map[string]refFunc, error) {
	pk := p.Deps[pkgParser]
	if pk == nil {
		return nil, fmt.Errorf("parser package not loaded")
	}
	var file string
	for _, f := range pk.GoFiles {
		if strings.HasSuffix(f, "/functions.go") {
			file = f
		}
	}
	if file == "" {
		return nil, fmt.Errorf("functions.go of the pinned parser not found")
	}
	af, err := parseFile(file)
	if err != nil {
		return nil, err
	}
	out := map[string]refFunc{}
	ast.Inspect(af, func(n ast.Node) bool {
		vs, ok := n.(*ast.ValueSpec)
		if !ok || len(vs.Names) != 1 || vs.Names[0].Name != "Functions" || len(vs.Values) != 1 {
			return true
		}
		cl, ok := vs.Values[0].(*ast.CompositeLit)
		if !ok {
			return true
		}
		for _, e := range cl.Elts {
			kv, ok := e.(*ast.KeyValueExpr)
			if !ok {
				continue
			}
			name := strings.Trim(kv.Key.(*ast.BasicLit).Value, `"`)
			rf := refFunc{}
			if body, ok := kv.Value.(*ast.CompositeLit); ok {
				for _, fe := range body.Elts {
					fkv, ok := fe.(*ast.KeyValueExpr)
					if !ok {
						continue
					}
					switch fkv.Key.(*ast.Ident).Name {
					case "ArgTypes":
						if al, ok := fkv.Value.(*ast.CompositeLit); ok {
							for _, a := range al.Elts {
								rf.argTypes = append(rf.argTypes, types.ExprString(a))
							}
						}
					case "Variadic":
						s := types.ExprString(fkv.Value)
						fmt.Sscanf(s, "%d", &rf.variadic)
						if s == "-1" {
							rf.variadic = -1
						}
					}
				}
			}
			out[name] = rf
		}
		return false
	})
	if len(out) < 50 {
		return nil, fmt.Errorf("only %d entries read from parser.Functions", len(out))
	}
	return out, nil
}

// kernels returns the closures stored in function.Funcs by key.
func kernels(p *core.Program) map[string]*ssa.Function {
	out := map[string]*ssa.Function{}
	init := p.SSAPkg("execution/function")
	if init == nil {
		return out
	}
	fn := init.Func("init")
	if fn == nil {
		return out
	}
	core.EachInstr(fn, func(b *ssa.BasicBlock, i int, ins ssa.Instruction) {
		mu, ok := ins.(*ssa.MapUpdate)
		if !ok {
			return
		}
		// the map being built is the one stored into Funcs
		isFuncs := false
		for _, r := range core.Referrers(mu.Map) {
			if st, ok := r.(*ssa.Store); ok && core.IsGlobal(core.GlobalOf(st.Addr), "execution/function", "Funcs") {
				isFuncs = true
			}
		}
		if !isFuncs {
			return
		}
		c, ok := mu.Key.(*ssa.Const)
		if !ok {
			return
		}
		name := strings.Trim(c.Value.ExactString(), `"`)
		tr := &fnTracer{p: p, seen: map[ssa.Value]bool{}, out: map[*ssa.Function]bool{}}
		tr.trace(mu.Value, 0)
		for f := range tr.out {
			out[name] = f
		}
	})
	return out
}

// ---------------------------------------------------------------------------------------------
// R-SENTINEL

func returnsSentinel(p *core.Program, fn *ssa.Function, depth int) bool {
	hit := false
	core.EachInstr(fn, func(b *ssa.BasicBlock, i int, ins ssa.Instruction) {
		if v, ok := ins.(ssa.Value); ok {
			if core.IsGlobal(core.GlobalOf(v), "execution/function", "InvalidSample") {
				hit = true
			}
		}
	})
	return hit
}

func ruleSentinel(p *core.Program) []core.Obligation {
	const rule = "R-SENTINEL"
	var obs []core.Obligation
	ks := kernels(p)
	ref, err := referenceFunctions(p)
	if err != nil {
		return []core.Obligation{core.Ob(rule, "parser.Functions", "-", "", core.Lost, err.Error())}
	}
	canInvalid := map[string]bool{} // arg class -> some kernel of that class may return the sentinel
	for name, k := range ks {
		cls := argClass(ref[name])
		if returnsSentinel(p, k, 0) {
			canInvalid[cls] = true
		}
	}
	for _, fn := range p.Funcs {
		core.EachInstr(fn, func(b *ssa.BasicBlock, i int, ins ssa.Instruction) {
			call, ok := ins.(*ssa.Call)
			if !ok || call.Call.IsInvoke() || call.Call.StaticCallee() != nil {
				return
			}
			if !core.TypeIs(call.Call.Value.Type(), modFunction, "FunctionCall") {
				return
			}
			// which class of kernels reaches this site: decided by the FunctionArgs built at the site
			cls := "none"
			if storesField(call.Call.Args[0], "Points") {
				cls = "vector"
				if storesField(call.Call.Args[0], "SelectRange") {
					cls = "matrix"
				}
			}
			key := fmt.Sprintf("%s calls a %s-argument kernel", core.FuncName(fn), cls)
			if !canInvalid[cls] {
				obs = append(obs, core.Ob(rule, key, p.Pos(ins.Pos()), core.FuncName(fn), core.Held, "no kernel of this class returns InvalidSample"))
				return
			}
			// result.Point compared with InvalidSample.Point, and result.V used only on the valid branch
			var cmp *ssa.BinOp
			var valueUses []ssa.Instruction
			seenScan := map[ssa.Value]bool{}
			var scan func(v ssa.Value)
			scan = func(v ssa.Value) {
				if seenScan[v] {
					return
				}
				seenScan[v] = true
				for _, r := range core.Referrers(v) {
					switch x := r.(type) {
					case *ssa.Store:
						// the result is spilled into a local: follow the local
						if a, ok := x.Addr.(*ssa.Alloc); ok && x.Val == v {
							scan(a)
						}
					case *ssa.UnOp:
						if x.Op == token.MUL {
							if _, f, _, ok := core.FieldRef(x.X); ok && f == "V" {
								for _, u := range core.Referrers(x) {
									valueUses = append(valueUses, u)
								}
							}
							scan(x)
						}
					case *ssa.FieldAddr:
						scan(x)
					case *ssa.Field:
						scan(x)
						if _, f, _, _ := core.FieldRef(x); f == "V" {
							for _, u := range core.Referrers(x) {
								valueUses = append(valueUses, u)
							}
						}
					case *ssa.BinOp:
						if x.Op == token.EQL || x.Op == token.NEQ {
							other := x.Y
							if other == v {
								other = x.X
							}
							isSent := false
							core.BackSlice(other, func(y ssa.Value) bool {
								if core.IsGlobal(core.GlobalOf(y), "execution/function", "InvalidSample") {
									isSent = true
								}
								if fa, ok := y.(*ssa.FieldAddr); ok {
									if g, ok := fa.X.(*ssa.Global); ok && core.IsGlobal(g, "execution/function", "InvalidSample") {
										isSent = true
									}
								}
								return true
							})
							if isSent {
								cmp = x
							}
						}
					}
				}
			}
			scan(call)
			if cmp == nil {
				obs = append(obs, core.Ob(rule, key, p.Pos(ins.Pos()), core.FuncName(fn), core.Violated, "the result is never compared with InvalidSample: a sample the kernel declares absent is emitted with value 0"))
				return
			}
			validSucc := 1
			if cmp.Op == token.NEQ {
				validSucc = 0
			}
			okAll := true
			for _, r := range core.Referrers(cmp) {
				iff, ok := r.(*ssa.If)
				if !ok {
					continue
				}
				for _, u := range valueUses {
					if !core.BranchDominates(iff.Block(), validSucc, u.Block()) {
						okAll = false
					}
				}
			}
			if okAll && len(valueUses) > 0 {
				obs = append(obs, core.Ob(rule, key, p.Pos(ins.Pos()), core.FuncName(fn), core.Held, "value used only on the branch where the result is not the sentinel"))
			} else {
				obs = append(obs, core.Ob(rule, key, p.Pos(ins.Pos()), core.FuncName(fn), core.Violated, "the result's value is used on a path that has not excluded the sentinel"))
			}
		})
	}
	return obs
}

func argClass(rf refFunc) string {
	if len(rf.argTypes) == 0 {
		return "none"
	}
	for _, a := range rf.argTypes {
		if strings.Contains(a, "Matrix") {
			return "matrix"
		}
	}
	return "vector"
}

// storesField reports whether the struct value v (a load of a local FunctionArgs literal) had field f stored.
func storesField(v ssa.Value, f string) bool {
	a := core.Deref(v)
	if a == nil {
		return false
	}
	for _, r := range core.Referrers(a) {
		if fa, ok := r.(*ssa.FieldAddr); ok {
			if _, name, _, _ := core.FieldRef(fa); name == f {
				for _, rr := range core.Referrers(fa) {
					if st, ok := rr.(*ssa.Store); ok && st.Addr == ssa.Value(fa) {
						return true
					}
				}
			}
		}
	}
	return false
}

// ---------------------------------------------------------------------------------------------
// R-POINTFIELDS

// pointFieldsRead returns the promql.Point fields read from elements of the Points of the kernel's argument.
func pointFieldsRead(p *core.Program, fn *ssa.Function, depth int, seen map[*ssa.Function]bool) map[string]bool {
	out := map[string]bool{}
	if seen[fn] || depth > 3 {
		return out
	}
	seen[fn] = true
	core.EachInstr(fn, func(b *ssa.BasicBlock, i int, ins ssa.Instruction) {
		if v, ok := ins.(ssa.Value); ok {
			if n, f, _, ok := core.FieldRef(v); ok && n != nil && n.Obj().Pkg() != nil && n.Obj().Pkg().Path() == pkgPromql && n.Obj().Name() == "Point" {
				// reads only
				if fa, isAddr := v.(*ssa.FieldAddr); isAddr {
					for _, r := range core.Referrers(fa) {
						if u, ok := r.(*ssa.UnOp); ok && u.Op == token.MUL {
							out[f] = true
						}
					}
				} else {
					out[f] = true
				}
			}
		}
		if call, ok := ins.(*ssa.Call); ok {
			if callee := call.Call.StaticCallee(); callee != nil && p.InRepo(callee) {
				for f := range pointFieldsRead(p, callee, depth+1, seen) {
					out[f] = true
				}
			}
		}
	})
	for _, a := range fn.AnonFuncs {
		for f := range pointFieldsRead(p, a, depth+1, seen) {
			out[f] = true
		}
	}
	return out
}

func rulePointFields(p *core.Program) []core.Obligation {
	const rule = "R-POINTFIELDS"
	var obs []core.Obligation
	ref, err := referenceFunctions(p)
	if err != nil {
		return []core.Obligation{core.Ob(rule, "parser.Functions", "-", "", core.Lost, err.Error())}
	}
	// fields the instant-function call site stores into its point buffer
	site := p.Func("execution/function", "functionOperator.Next")
	if site == nil {
		return []core.Obligation{core.Ob(rule, "functionOperator.Next", "-", "", core.Lost, "not found")}
	}
	stored := map[string]bool{}
	// Next and the methods of the operator it delegates to (the loop body may live in a helper)
	for sf := range syncReach(p, site, func(_ *ssa.Function, _ ssa.Instruction, callee *ssa.Function) bool {
		return recvNamed(callee) == recvNamed(site)
	}) {
		core.EachInstr(sf, func(b *ssa.BasicBlock, i int, ins ssa.Instruction) {
			st, ok := ins.(*ssa.Store)
			if !ok {
				return
			}
			n, f, base, ok := core.FieldRef(st.Addr)
			if !ok || n == nil || n.Obj().Name() != "Point" {
				return
			}
			// base is an element of o.pointBuf
			if ia, ok := base.(*ssa.IndexAddr); ok {
				if l := core.Deref(ia.X); l != nil && core.IsFieldOf(l, modFunction, "functionOperator", "pointBuf") {
					stored[f] = true
				}
			}
		})
	}
	ks := kernels(p)
	var names []string
	for n := range ks {
		names = append(names, n)
	}
	sort.Strings(names)
	for _, name := range names {
		if argClass(ref[name]) != "vector" {
			continue
		}
		reads := pointFieldsRead(p, ks[name], 0, map[*ssa.Function]bool{})
		if len(reads) == 0 {
			obs = append(obs, core.Ob(rule, "kernel "+name+" reads no point field", p.Pos(ks[name].Pos()), core.FuncName(ks[name]), core.Held, ""))
			continue
		}
		for _, f := range sortedKeys(reads) {
			key := fmt.Sprintf("kernel %s reads Point.%s", name, f)
			if stored[f] {
				obs = append(obs, core.Ob(rule, key, p.Pos(ks[name].Pos()), core.FuncName(ks[name]), core.Held, "functionOperator.Next stores Point."+f+" before the call"))
			} else {
				obs = append(obs, core.Ob(rule, key, p.Pos(ks[name].Pos()), core.FuncName(ks[name]), core.Violated, "functionOperator.Next never stores Point."+f+" into the buffer it passes: the kernel reads the zero value"))
			}
		}
	}
	return obs
}

// ---------------------------------------------------------------------------------------------
// R-KERNELBOUNDS

// pointsNeed returns the minimum len of the slice value s (a []promql.Point) that the uses of s in fn require.
func pointsNeed(p *core.Program, fn *ssa.Function, s ssa.Value, depth int, guardOK func(need int, at ssa.Instruction) bool, report func(need int, at ssa.Instruction)) {
	if depth > 3 {
		return
	}
	lenOf := func(v ssa.Value) bool {
		c, ok := v.(*ssa.Call)
		if !ok {
			return false
		}
		bi, ok := c.Call.Value.(*ssa.Builtin)
		return ok && bi.Name() == "len" && core.SameExpr(c.Call.Args[0], s)
	}
	needOfIndex := func(idx ssa.Value) int {
		if c, ok := core.ConstInt(idx); ok {
			return int(c) + 1
		}
		if bo, ok := idx.(*ssa.BinOp); ok && bo.Op == token.SUB && lenOf(bo.X) {
			if c, ok := core.ConstInt(bo.Y); ok {
				return int(c)
			}
		}
		return 0 // loop indices etc.: bounded by the loop condition
	}
	for _, b := range fn.Blocks {
		for _, ins := range b.Instrs {
			switch x := ins.(type) {
			case *ssa.IndexAddr:
				if core.SameExpr(x.X, s) {
					if n := needOfIndex(x.Index); n > 0 && !guardOK(n, x) {
						report(n, x)
					}
				}
			case *ssa.Slice:
				if core.SameExpr(x.X, s) && x.Low != nil {
					if c, ok := core.ConstInt(x.Low); ok && c > 0 && !guardOK(int(c), x) {
						report(int(c), x)
					}
				}
			case *ssa.Call:
				callee := x.Call.StaticCallee()
				if callee == nil || !p.InRepo(callee) || callee.Blocks == nil {
					continue
				}
				for ai, a := range x.Call.Args {
					if !core.SameExpr(a, s) || ai >= len(callee.Params) {
						continue
					}
					param := callee.Params[ai]
					// the callee's own needs count against the caller's guard
					pointsNeed(p, callee, param, depth+1,
						func(need int, at ssa.Instruction) bool {
							// guarded inside the callee, or by the caller
							return dominatedByLenGuard(callee, param, need, at) || guardOK(need, x)
						},
						func(need int, at ssa.Instruction) { report(need, x) })
				}
			}
		}
	}
}

// dominatedByLenGuard: at is dominated by the "long enough" branch of a test len(s) cmp c implying len(s) >= need.
func dominatedByLenGuard(fn *ssa.Function, s ssa.Value, need int, at ssa.Instruction) bool {
	for _, b := range fn.Blocks {
		iff := core.IfOf(b)
		if iff == nil {
			continue
		}
		bo, ok := iff.Cond.(*ssa.BinOp)
		if !ok {
			continue
		}
		lc, ok := bo.X.(*ssa.Call)
		if !ok {
			continue
		}
		bi, ok := lc.Call.Value.(*ssa.Builtin)
		if !ok || bi.Name() != "len" || !core.SameExpr(lc.Call.Args[0], s) {
			continue
		}
		c, ok := core.ConstInt(bo.Y)
		if !ok {
			continue
		}
		// which successor implies len >= need
		succ := -1
		switch bo.Op {
		case token.LSS: // len < c false => len >= c
			if int(c) >= need {
				succ = 1
			}
		case token.LEQ: // len <= c false => len >= c+1
			if int(c)+1 >= need {
				succ = 1
			}
		case token.EQL: // len == 0 false => len >= 1
			if c == 0 && need <= 1 {
				succ = 1
			}
			if int(c) >= need {
				if succ == -1 {
					succ = 0
				}
			}
		case token.GEQ:
			if int(c) >= need {
				succ = 0
			}
		case token.GTR:
			if int(c)+1 >= need {
				succ = 0
			}
		case token.NEQ:
			if c == 0 && need <= 1 {
				succ = 0
			}
		}
		if succ >= 0 && core.BranchDominates(b, succ, at.Block()) {
			return true
		}
	}
	return false
}

func ruleKernelBounds(p *core.Program) []core.Obligation {
	const rule = "R-KERNELBOUNDS"
	var obs []core.Obligation
	ref, err := referenceFunctions(p)
	if err != nil {
		return []core.Obligation{core.Ob(rule, "parser.Functions", "-", "", core.Lost, err.Error())}
	}
	ks := kernels(p)
	var names []string
	for n := range ks {
		names = append(names, n)
	}
	sort.Strings(names)
	for _, name := range names {
		if argClass(ref[name]) != "matrix" {
			continue
		}
		k := ks[name]
		key := "kernel " + name + " guards its window indexing"
		// the Points of the FunctionArgs parameter
		var pts ssa.Value
		core.EachInstr(k, func(b *ssa.BasicBlock, i int, ins ssa.Instruction) {
			if v, ok := ins.(ssa.Value); ok && pts == nil {
				if n, f, _, ok := core.FieldRef(v); ok && n != nil && n.Obj().Name() == "FunctionArgs" && f == "Points" {
					pts = v
				}
			}
		})
		if pts == nil {
			obs = append(obs, core.Ob(rule, key, p.Pos(k.Pos()), core.FuncName(k), core.Held, "does not touch Points"))
			continue
		}
		// Field/FieldAddr values are created per use; treat all structurally equal ones as the same slice
		sample := pts
		if fa, ok := pts.(*ssa.FieldAddr); ok {
			// use a load of it for SameExpr comparisons
			for _, r := range core.Referrers(fa) {
				if u, ok := r.(*ssa.UnOp); ok {
					sample = u
					break
				}
			}
		}
		var bad string
		pointsNeed(p, k, sample, 0,
			func(need int, at ssa.Instruction) bool { return dominatedByLenGuard(k, sample, need, at) },
			func(need int, at ssa.Instruction) {
				if bad == "" {
					bad = fmt.Sprintf("needs at least %d point(s) at %s but no dominating length test establishes that", need, p.Pos(at.Pos()))
				}
			})
		if bad == "" {
			obs = append(obs, core.Ob(rule, key, p.Pos(k.Pos()), core.FuncName(k), core.Held, "every constant-offset access is behind a sufficient length test"))
		} else {
			obs = append(obs, core.Ob(rule, key, p.Pos(k.Pos()), core.FuncName(k), core.Violated, bad+": a window with fewer samples indexes out of range on a goroutine that serves the query"))
		}
	}
	return obs
}

// ---------------------------------------------------------------------------------------------
// R-ACCRESET (SSA; the case label is read from the syntax)

func ruleAccReset(p *core.Program) []core.Obligation {
	const rule = "R-ACCRESET"
	var obs []core.Obligation
	sp := p.SSAPkg("execution/aggregate")
	if sp == nil {
		return []core.Obligation{core.Ob(rule, "package aggregate", "-", "", core.Lost, "not found")}
	}
	// the aggregation name: the single string label of the enclosing case clause
	labelAt := func(pos token.Pos) string {
		_, file := p.FileOf(pos)
		if file == nil {
			return ""
		}
		path, _ := astutil.PathEnclosingInterval(file, pos, pos)
		for _, n := range path {
			if cc, ok := n.(*ast.CaseClause); ok && len(cc.List) == 1 {
				if bl, ok := cc.List[0].(*ast.BasicLit); ok {
					return strings.Trim(bl.Value, `"`)
				}
			}
		}
		return ""
	}
	// stateWritten: the pieces of state a function value writes: captured variables ("var x") and fields
	// reached through a captured pointer or a bound receiver ("T.f"). ok=false: unrecognised construction.
	var methodWrites func(m *ssa.Function, out map[string]bool, depth int)
	methodWrites = func(m *ssa.Function, out map[string]bool, depth int) {
		if m == nil || m.Blocks == nil || depth > 2 || len(m.Params) == 0 {
			return
		}
		recv := m.Params[0]
		core.EachInstr(m, func(_ *ssa.BasicBlock, _ int, ins ssa.Instruction) {
			switch x := ins.(type) {
			case *ssa.Store:
				if fa, ok := x.Addr.(*ssa.FieldAddr); ok && fa.X == recv {
					if n, f, _, ok := core.FieldRef(fa); ok && n != nil {
						out[n.Obj().Name()+"."+f] = true
					}
				}
			case *ssa.Call:
				if c := x.Call.StaticCallee(); c != nil && len(x.Call.Args) > 0 && x.Call.Args[0] == recv && p.InRepo(c) {
					methodWrites(c, out, depth+1)
				}
			}
		})
	}
	closureWrites := func(mc *ssa.MakeClosure, out map[string]bool) bool {
		fn, ok := mc.Fn.(*ssa.Function)
		if !ok {
			return false
		}
		if strings.HasSuffix(fn.Name(), "$bound") {
			// s.reset: the method applied to the bound receiver
			core.EachInstr(fn, func(_ *ssa.BasicBlock, _ int, ins ssa.Instruction) {
				if c, ok := ins.(*ssa.Call); ok {
					methodWrites(c.Call.StaticCallee(), out, 0)
				}
			})
			return true
		}
		unknown := false
		isFree := func(v ssa.Value) *ssa.FreeVar {
			for d := 0; d < 4; d++ {
				switch x := v.(type) {
				case *ssa.FreeVar:
					return x
				case *ssa.UnOp:
					if x.Op != token.MUL {
						return nil
					}
					v = x.X
				default:
					return nil
				}
			}
			return nil
		}
		core.EachInstr(fn, func(_ *ssa.BasicBlock, _ int, ins ssa.Instruction) {
			switch x := ins.(type) {
			case *ssa.Store:
				if fv, ok := x.Addr.(*ssa.FreeVar); ok {
					out["var "+fv.Name()] = true
					return
				}
				if fa, ok := x.Addr.(*ssa.FieldAddr); ok && isFree(fa.X) != nil {
					if n, f, _, ok := core.FieldRef(fa); ok && n != nil {
						out[n.Obj().Name()+"."+f] = true
					}
				}
			case *ssa.Call:
				// a method of the captured state object, called directly or through a captured function value
				if len(x.Call.Args) == 0 || isFree(x.Call.Args[0]) == nil || x.Call.IsInvoke() {
					return
				}
				if _, isBuiltin := x.Call.Value.(*ssa.Builtin); isBuiltin {
					return // append(points, v): the assignment of the result is the write
				}
				if c := x.Call.StaticCallee(); c != nil {
					if p.InRepo(c) && c.Signature.Recv() != nil {
						methodWrites(c, out, 0)
					}
					return
				}
				cands := resolveDynamic(p, &x.Call)
				if len(cands) == 0 {
					unknown = true
				}
				for _, c := range cands {
					methodWrites(c, out, 0)
				}
			}
		})
		return !unknown
	}
	type fnVal struct {
		v    ssa.Value
		site *ssa.Call // the call of the helper through whose parameter the value arrived (nil: none)
	}
	// resolve a stored function value to closures, following a parameter of a helper to its call sites
	resolveFn := func(fn *ssa.Function, v ssa.Value) ([]fnVal, bool) {
		if ct, ok := v.(*ssa.ChangeType); ok {
			v = ct.X
		}
		switch x := v.(type) {
		case *ssa.MakeClosure, *ssa.Function:
			return []fnVal{{x, nil}}, true
		case *ssa.Parameter:
			var out []fnVal
			idx := -1
			for i, prm := range fn.Params {
				if prm == x {
					idx = i
				}
			}
			for _, other := range p.Funcs {
				core.EachInstr(other, func(_ *ssa.BasicBlock, _ int, ins ssa.Instruction) {
					c, ok := ins.(*ssa.Call)
					if !ok || c.Call.StaticCallee() != fn || idx < 0 || idx >= len(c.Call.Args) {
						return
					}
					a := c.Call.Args[idx]
					if ct, ok := a.(*ssa.ChangeType); ok {
						a = ct.X
					}
					out = append(out, fnVal{a, c})
				})
			}
			return out, len(out) > 0
		}
		return nil, false
	}
	writesOf := func(v ssa.Value) (map[string]bool, bool) {
		out := map[string]bool{}
		switch x := v.(type) {
		case *ssa.MakeClosure:
			return out, closureWrites(x, out)
		case *ssa.Function:
			return out, true // a plain function has no state of its own
		}
		return nil, false
	}
	for _, fn := range p.Funcs {
		if fn.Pkg != sp {
			continue
		}
		f := fn
		core.EachInstr(fn, func(_ *ssa.BasicBlock, _ int, ins ssa.Instruction) {
			al, ok := ins.(*ssa.Alloc)
			if !ok || !core.TypeIs(al.Type().Underlying().(*types.Pointer).Elem(), core.Module+"/execution/aggregate", "accumulator") {
				return
			}
			var addV, resetV ssa.Value
			for _, r := range core.Referrers(al) {
				fa, ok := r.(*ssa.FieldAddr)
				if !ok {
					continue
				}
				_, name, _, _ := core.FieldRef(fa)
				for _, rr := range core.Referrers(fa) {
					if st, ok := rr.(*ssa.Store); ok && st.Addr == fa {
						switch name {
						case "AddFunc":
							addV = st.Val
						case "Reset":
							resetV = st.Val
						}
					}
				}
			}
			if addV == nil && resetV == nil {
				return // not a literal (a copy, a zero value)
			}
			undecided := func(label, why string) {
				obs = append(obs, core.Ob(rule, "accumulator "+label, p.Pos(al.Pos()), core.FuncName(f), core.Undecided, why))
			}
			if addV == nil || resetV == nil {
				undecided(labelAt(al.Pos()), "AddFunc or Reset is not set in the literal")
				return
			}
			adds, ok1 := resolveFn(f, addV)
			resets, ok2 := resolveFn(f, resetV)
			if !ok1 || !ok2 {
				undecided(labelAt(al.Pos()), "AddFunc or Reset is neither a function literal, a method value nor a parameter of a helper whose call sites pass one")
				return
			}
			// pair the values that arrived through the same call site (or all, when only one side is a parameter)
			for _, a := range adds {
				for _, r := range resets {
					if a.site != nil && r.site != nil && a.site != r.site {
						continue
					}
					pos := al.Pos()
					if a.site != nil {
						pos = a.site.Pos()
					} else if r.site != nil {
						pos = r.site.Pos()
					}
					label := labelAt(pos)
					written, okA := writesOf(a.v)
					resetVars, okR := writesOf(r.v)
					if !okA || !okR {
						undecided(label, "AddFunc or Reset is a function value of unrecognised construction")
						continue
					}
					var missing, names []string
					for v := range written {
						names = append(names, v)
						if !resetVars[v] {
							missing = append(missing, v)
						}
					}
					sort.Strings(missing)
					sort.Strings(names)
					key := "accumulator " + label
					if len(missing) > 0 {
						obs = append(obs, core.Ob(rule, key, p.Pos(pos), core.FuncName(f), core.Violated, fmt.Sprintf("AddFunc writes %v but Reset does not reset it: the table is reused for the same slot of every batch, so state of an earlier step leaks into later ones", missing)))
					} else {
						obs = append(obs, core.Ob(rule, key, p.Pos(pos), core.FuncName(f), core.Held, fmt.Sprintf("Reset resets %v", names)))
					}
				}
			}
		})
	}
	return obs
}

func assignedOuterVars(info *types.Info, fl *ast.FuncLit) map[*types.Var]bool {
	out := map[*types.Var]bool{}
	note := func(e ast.Expr) {
		id, ok := e.(*ast.Ident)
		if !ok {
			return
		}
		v, ok := info.Uses[id].(*types.Var)
		if !ok {
			return
		}
		if v.Pos() >= fl.Pos() && v.Pos() <= fl.End() {
			return // declared inside
		}
		out[v] = true
	}
	ast.Inspect(fl.Body, func(n ast.Node) bool {
		switch x := n.(type) {
		case *ast.AssignStmt:
			for _, l := range x.Lhs {
				note(l)
			}
		case *ast.IncDecStmt:
			note(x.X)
		}
		return true
	})
	return out
}

// ---------------------------------------------------------------------------------------------
// R-USEAFTERPUT

func ruleUseAfterPut(p *core.Program) []core.Obligation {
	const rule = "R-USEAFTERPUT"
	var obs []core.Obligation
	for _, fn := range p.Funcs {
		k := 0
		core.EachInstr(fn, func(b *ssa.BasicBlock, i int, ins ssa.Instruction) {
			call, ok := ins.(*ssa.Call)
			if !ok || !core.IsStatic(&call.Call, "(*"+modModel+".VectorPool).PutStepVector") {
				return
			}
			k++
			arg := call.Call.Args[1]
			key := fmt.Sprintf("%s recycles a step vector #%d", core.FuncName(fn), k)
			// reads of Samples/SampleIDs of the same vector later in this block or in blocks this block dominates (same iteration)
			bad := ""
			isSame := func(base ssa.Value) bool {
				if base == arg || core.SameExpr(base, arg) {
					return true
				}
				// arg is a load of an address; base may be that address
				if a := core.Deref(arg); a != nil && (a == base || core.SameExpr(a, base)) {
					return true
				}
				return false
			}
			check := func(x ssa.Instruction) {
				v, ok := x.(ssa.Value)
				if !ok || bad != "" {
					return
				}
				n, f, base, ok := core.FieldRef(v)
				if !ok || n == nil || n.Obj().Name() != "StepVector" || (f != "Samples" && f != "SampleIDs") {
					return
				}
				if !isSame(base) {
					return
				}
				// a read: the field value is loaded or indexed
				for _, r := range core.Referrers(v) {
					switch r.(type) {
					case *ssa.UnOp, *ssa.IndexAddr, *ssa.Index, *ssa.Slice, *ssa.Call, *ssa.Range:
						bad = p.Pos(x.Pos())
					}
				}
			}
			for _, x := range b.Instrs[i+1:] {
				check(x)
			}
			for _, ob := range fn.Blocks {
				if ob != b && b.Dominates(ob) && !core.Reaches(ob, b) {
					for _, x := range ob.Instrs {
						check(x)
					}
				}
			}
			if bad != "" {
				obs = append(obs, core.Ob(rule, key, p.Pos(ins.Pos()), core.FuncName(fn), core.Violated, "the vector's samples are read at "+bad+" after it was handed back to the pool: the pool may already have given the slices to another operator"))
			} else {
				obs = append(obs, core.Ob(rule, key, p.Pos(ins.Pos()), core.FuncName(fn), core.Held, "no read of its Samples/SampleIDs follows in the same iteration"))
			}
		})
	}
	return obs
}

func init() {
	register(&Rule{ID: "R-PUTORDER", Min: 8, Run: rulePutOrder,
		Doc: "a batch handed back with PutVectors is not iterated afterwards (a deferred PutVectors runs at exit), and a step vector that was sent to a worker is recycled only after that worker's GetOutput: in functions that use the worker API every PutStepVector is dominated by a GetOutput call"})
	mutant(Mutant{Rule: "R-PUTORDER", Name: "batch-recycled-before-loop", File: "execution/aggregate/khashaggregate.go",
		Old: "\tdefer a.next.GetPool().PutVectors(in)\n\n\targs, err := a.paramOp.Next(ctx)", New: "\ta.next.GetPool().PutVectors(in)\n\n\targs, err := a.paramOp.Next(ctx)", Expect: "kAggregate"})
	mutant(Mutant{Rule: "R-PUTORDER", Name: "vector-recycled-while-worker-reads", File: "execution/aggregate/hashaggregate.go",
		Old: "\t\tif err = a.workers[i].Send(a.params[i], vector); err != nil {\n\t\t\treturn nil, err\n\t\t}\n", New: "\t\tif err = a.workers[i].Send(a.params[i], vector); err != nil {\n\t\t\treturn nil, err\n\t\t}\n\t\ta.next.GetPool().PutStepVector(vector)\n", Expect: "aggregate).Next"})
}

func rulePutOrder(p *core.Program) []core.Obligation {
	const rule = "R-PUTORDER"
	var obs []core.Obligation
	for _, fn := range p.Funcs {
		usesWorkers := false
		sentSlices := map[ssa.Value]bool{}
		var getOutputs []ssa.Instruction
		core.EachInstr(fn, func(b *ssa.BasicBlock, i int, ins ssa.Instruction) {
			if cc := core.CallCommon(ins); cc != nil {
				switch core.CalleeName(cc) {
				case "(*" + modWorker + ".Worker).Send":
					usesWorkers = true
					if sl := elemSliceOf(cc.Args[len(cc.Args)-1]); sl != nil {
						sentSlices[sl] = true
					}
				case "(*" + modWorker + ".Worker).GetOutput":
					getOutputs = append(getOutputs, ins)
				}
			}
		})
		k := 0
		core.EachInstr(fn, func(b *ssa.BasicBlock, i int, ins ssa.Instruction) {
			call, ok := ins.(*ssa.Call)
			if !ok {
				return
			}
			switch core.CalleeName(&call.Call) {
			case "(*" + modModel + ".VectorPool).PutVectors":
				k++
				key := fmt.Sprintf("%s hands a batch back #%d", core.FuncName(fn), k)
				batch := call.Call.Args[1]
				bad := ""
				check := func(x ssa.Instruction) {
					if bad != "" {
						return
					}
					switch y := x.(type) {
					case *ssa.IndexAddr:
						if y.X == batch {
							bad = p.Pos(y.Pos())
						}
					case *ssa.Range:
						if y.X == batch {
							bad = p.Pos(y.Pos())
						}
					case *ssa.Call:
						if bi, ok := y.Call.Value.(*ssa.Builtin); ok && bi.Name() == "len" && y.Call.Args[0] == batch {
							// the length of a recycled batch is still its old length: harmless, but loops bounded by it index it
						}
					}
				}
				for _, x := range b.Instrs[i+1:] {
					check(x)
				}
				// blocks reachable afterwards without passing through the block that (re)defines the batch:
				// in a loop the next iteration's batch is a new value
				var defBlock *ssa.BasicBlock
				if di, ok := batch.(ssa.Instruction); ok {
					defBlock = di.Block()
					if ex, ok := batch.(*ssa.Extract); ok {
						if ti, ok := ex.Tuple.(ssa.Instruction); ok {
							defBlock = ti.Block()
						}
					}
				}
				seenB := map[*ssa.BasicBlock]bool{}
				stack := append([]*ssa.BasicBlock{}, b.Succs...)
				for len(stack) > 0 {
					ob := stack[len(stack)-1]
					stack = stack[:len(stack)-1]
					if seenB[ob] || ob == defBlock {
						continue
					}
					seenB[ob] = true
					if ob != b {
						for _, x := range ob.Instrs {
							check(x)
						}
					}
					stack = append(stack, ob.Succs...)
				}
				if bad != "" {
					obs = append(obs, core.Ob(rule, key, p.Pos(call.Pos()), core.FuncName(fn), core.Violated, "the batch is indexed at "+bad+" after it was handed back to the pool: the producing operator, running ahead on its own goroutine, reuses the same backing array for its next batch"))
				} else {
					obs = append(obs, core.Ob(rule, key, p.Pos(call.Pos()), core.FuncName(fn), core.Held, "not indexed afterwards"))
				}
			case "(*" + modModel + ".VectorPool).PutStepVector":
				if !usesWorkers {
					return
				}
				// only vectors that come from the slice whose elements were sent to the workers
				if sl := elemSliceOf(call.Call.Args[1]); sl == nil || !sentSlices[sl] {
					return
				}
				k++
				key := fmt.Sprintf("%s recycles a vector its workers used #%d", core.FuncName(fn), k)
				okAfter := false
				for _, g := range getOutputs {
					if core.InstrDominates(g, call) {
						okAfter = true
					}
				}
				if okAfter {
					obs = append(obs, core.Ob(rule, key, p.Pos(call.Pos()), core.FuncName(fn), core.Held, "after the worker's GetOutput"))
				} else {
					obs = append(obs, core.Ob(rule, key, p.Pos(call.Pos()), core.FuncName(fn), core.Violated, "a step vector is handed back to the pool before the worker that was sent it has delivered its output: the worker still reads it while the upstream operator refills it"))
				}
			}
		})
	}
	return obs
}

// ---------------------------------------------------------------------------------------------
// R-RESULTSHAPE

func ruleResultShape(p *core.Program) []core.Obligation {
	const rule = "R-RESULTSHAPE"
	var obs []core.Obligation
	exec := p.Func("engine", "compatibilityQuery.Exec")
	if exec == nil {
		return []core.Obligation{core.Ob(rule, "Exec", "-", "", core.Lost, "not found")}
	}
	// Exec and the functions of package engine it calls (the result may be assembled in helpers)
	var fns []*ssa.Function
	for f := range syncReach(p, exec, func(_ *ssa.Function, _ ssa.Instruction, callee *ssa.Function) bool {
		return callee.Pkg == exec.Pkg
	}) {
		fns = append(fns, f)
	}
	sort.Slice(fns, func(a, b int) bool { return fns[a].String() < fns[b].String() })
	isMatrixT := func(t types.Type) bool { return core.TypeIs(t, pkgPromql, "Matrix") }
	// 1. wherever a freshly built promql.Matrix leaves the function that builds it (stored into Result.Value, or
	//    returned by a helper), sort.Sort on it dominates that exit
	nExits := 0
	for _, fn := range fns {
		var sorts []ssa.Instruction
		var appends []*ssa.Call
		core.EachInstr(fn, func(b *ssa.BasicBlock, i int, ins ssa.Instruction) {
			if c, ok := ins.(*ssa.Call); ok {
				// sorted in the reference's order: sort.Sort on the promql.Matrix itself (its Less is
				// labels.Compare), or a slice sort of the matrix whose comparison calls labels.Compare
				name := core.CalleeName(&c.Call)
				if (name == "sort.Sort" || name == "sort.Stable") && len(c.Call.Args) == 1 {
					if mi, ok := c.Call.Args[0].(*ssa.MakeInterface); ok && isMatrixT(mi.X.Type()) {
						sorts = append(sorts, c)
					}
				}
				if (name == "sort.Slice" || name == "sort.SliceStable" || strings.Contains(name, "slices.SortFunc") || strings.Contains(name, "slices.SortStableFunc")) && len(c.Call.Args) == 2 {
					arg := c.Call.Args[0]
					if mi, ok := arg.(*ssa.MakeInterface); ok {
						arg = mi.X
					}
					if isMatrixT(arg.Type()) {
						if mc, ok := c.Call.Args[1].(*ssa.MakeClosure); ok {
							if cf, ok := mc.Fn.(*ssa.Function); ok {
								core.EachInstr(cf, func(_ *ssa.BasicBlock, _ int, x ssa.Instruction) {
									if cc := core.CallCommon(x); cc != nil && core.CalleeName(cc) == pkgLabels+".Compare" {
										sorts = append(sorts, c)
									}
								})
							}
						}
					}
				}
				if bi, ok := c.Call.Value.(*ssa.Builtin); ok && bi.Name() == "append" && isMatrixT(c.Type()) {
					appends = append(appends, c)
				}
			}
		})
		builtHere := len(appends) > 0
		core.EachInstr(fn, func(b *ssa.BasicBlock, i int, ins ssa.Instruction) {
			var exit ssa.Instruction
			switch x := ins.(type) {
			case *ssa.Store:
				if core.IsFieldOf(x.Addr, pkgPromql, "Result", "Value") {
					core.BackSlice(x.Val, func(v ssa.Value) bool {
						if mi, ok := v.(*ssa.MakeInterface); ok && isMatrixT(mi.X.Type()) {
							if _, conv := mi.X.(*ssa.ChangeType); !conv {
								if _, isCall := mi.X.(*ssa.Call); !isCall || builtHere {
									exit = x
								}
							}
						}
						return true
					})
				}
			case *ssa.Return:
				if fn != exec && builtHere {
					for _, r := range core.RetResults(x) {
						if isMatrixT(r.Type()) {
							exit = x
						}
						if mi, ok := r.(*ssa.MakeInterface); ok && isMatrixT(mi.X.Type()) {
							exit = x
						}
					}
				}
			}
			if exit == nil || !builtHere {
				return
			}
			nExits++
			dom := false
			for _, sc := range sorts {
				if core.InstrDominates(sc, exit) {
					dom = true
				}
			}
			if dom {
				obs = append(obs, core.Ob(rule, "range result is sorted", p.Pos(exit.Pos()), core.FuncName(fn), core.Held, "a sort of the matrix in label order (sort.Sort on promql.Matrix, or a slice sort comparing with labels.Compare) dominates the point where the matrix leaves "+core.FuncName(fn)))
			} else {
				obs = append(obs, core.Ob(rule, "range result is sorted", p.Pos(exit.Pos()), core.FuncName(fn), core.Violated, "the matrix leaves without having been sorted in label order (sort.Sort on the promql.Matrix, or a slice sort that compares with labels.Compare): series order depends on shard scheduling, or is an order other than the reference's"))
			}
		})
		// 2. series appended to the result matrix are non-empty: dominated by the non-empty branch of len(s.Points)
		for _, ap := range appends {
			guard := false
			for _, b := range fn.Blocks {
				iff := core.IfOf(b)
				if iff == nil {
					continue
				}
				bo, ok := iff.Cond.(*ssa.BinOp)
				if !ok {
					continue
				}
				lc, ok := bo.X.(*ssa.Call)
				if !ok {
					continue
				}
				bi, ok := lc.Call.Value.(*ssa.Builtin)
				if !ok || bi.Name() != "len" {
					continue
				}
				isPoints := false
				core.BackSlice(lc.Call.Args[0], func(v ssa.Value) bool {
					if _, f, _, ok := core.FieldRef(v); ok && f == "Points" {
						isPoints = true
					}
					return true
				})
				c, okc := core.ConstInt(bo.Y)
				if !isPoints || !okc || c != 0 {
					continue
				}
				succ := -1
				switch bo.Op {
				case token.EQL:
					succ = 1
				case token.NEQ, token.GTR:
					succ = 0
				}
				if succ >= 0 && core.BranchDominates(b, succ, ap.Block()) {
					guard = true
				}
			}
			if guard {
				obs = append(obs, core.Ob(rule, "range result keeps non-empty series only", p.Pos(ap.Pos()), core.FuncName(fn), core.Held, "append is behind len(Points) != 0"))
			} else {
				obs = append(obs, core.Ob(rule, "range result keeps non-empty series only", p.Pos(ap.Pos()), core.FuncName(fn), core.Violated, "series without points can be appended to the result matrix"))
			}
		}
		// 3. instant samples and scalars are stamped with q.ts
		core.EachInstr(fn, func(b *ssa.BasicBlock, i int, ins ssa.Instruction) {
			st, ok := ins.(*ssa.Store)
			if !ok {
				return
			}
			n, f, base, ok := core.FieldRef(st.Addr)
			if !ok || n == nil || f != "T" {
				return
			}
			var what string
			switch {
			case n.Obj().Name() == "Scalar" && n.Obj().Pkg().Path() == pkgPromql:
				what = "promql.Scalar"
			case n.Obj().Name() == "Point" && n.Obj().Pkg().Path() == pkgPromql:
				// only points embedded in a promql.Sample
				if _, pf, _, ok := core.FieldRef(base); ok && pf == "Point" {
					what = "promql.Sample"
				}
			}
			if what == "" {
				return
			}
			fromTs := false
			core.BackSlice(st.Val, func(v ssa.Value) bool {
				if core.IsFieldOf(v, modEngine, "compatibilityQuery", "ts") {
					fromTs = true
				}
				return true
			})
			key := "instant " + what + " stamped with the evaluation time"
			if fromTs {
				obs = append(obs, core.Ob(rule, key, p.Pos(st.Pos()), core.FuncName(fn), core.Held, "T is computed from q.ts"))
			} else {
				obs = append(obs, core.Ob(rule, key, p.Pos(st.Pos()), core.FuncName(fn), core.Violated, "T does not come from the query's evaluation time"))
			}
		})
	}
	if nExits == 0 {
		obs = append(obs, core.Ob(rule, "range result is sorted", "-", core.FuncName(exec), core.Lost, "no place found where a freshly built promql.Matrix becomes the result"))
	}
	return obs
}

// elemSliceOf returns the slice s if v is a load of s[i].
func elemSliceOf(v ssa.Value) ssa.Value {
	a := core.Deref(v)
	if a == nil {
		return nil
	}
	if ia, ok := a.(*ssa.IndexAddr); ok {
		return ia.X
	}
	return nil
}

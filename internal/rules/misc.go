package rules

import (
	"fmt"
	"go/token"
	"go/types"
	"sort"
	"strings"

	"golang.org/x/tools/go/ssa"

	"verif/internal/core"
)

func init() {
	register(&Rule{ID: "R-DUPBOOK", Min: 2, Run: ruleDupBook,
		Doc: "in the binary operation table the per-step tags that the duplicate-match test reads (lhT/rhT, lhSampleID/rhSampleID) are recorded for every matched sample: their stores are not control dependent on the result of the comparison operation (filtering happens after matching)"})
	register(&Rule{ID: "R-STEPBOUND", Min: 3, Run: ruleStepBound,
		Doc: "in every operator that owns a window end (field maxt), each loop that appends step vectors to a batch has an exit condition that compares the step cursor with maxt: no step vector is produced past the end of the window, whatever the batch size"})
	register(&Rule{ID: "R-MATCHEQ", Min: 2, Run: ruleMatchEq,
		Doc: "every function of the logical plan that decides equality of two label matchers by comparing their Value fields also compares their Type (and Name): a matcher is identified by (type, name, value)"})
	register(&Rule{ID: "R-PUSHDOWN", Min: 8, Run: rulePushdown,
		Doc: "traverseBottomUp continues (returns something other than the constant true) only with the verdict of the transform callback or of a recursive traversal: node kinds it does not know (literals, subqueries, ...) stop the push-down, so a parent is never distributed on the strength of an unexamined child"})
	register(&Rule{ID: "R-SHARDCOPY", Min: 4, Run: ruleShardCopy,
		Doc: "elements of a []SignedSeries are written - by an element store or by an append into spare capacity - only through a slice allocated in the same function (make/append onto nil or a fresh value) or the receiver's own list while it is being built, and a function that is given a series list hands out a copy, never the list itself: the series list cached in a selector is shared by all shards and by filtered selectors and is never renumbered in place"})
	register(&Rule{ID: "R-DEFERORDER", Min: 2, Run: ruleDeferOrder,
		Doc: "where a goroutine both closes a channel by defer and reports a recovered panic by sending on that channel, the close is registered first (it runs last): the report is never sent on a closed channel"})
	register(&Rule{ID: "R-CANCELEARLY", Min: 1, Run: ruleCancelEarly,
		Doc: "in Exec the per-execution cancel function is stored into the query before the first call into the physical plan (Series/Next): Cancel/Close from another goroutine take effect however early they arrive"})
	register(&Rule{ID: "R-CHANCAP", Min: 3, Run: ruleChanCap,
		Doc: "every error channel of the repo is created with a capacity (never unbuffered): its goroutines send without select and their receiver may return early, so an unbuffered send would park the goroutine forever"})
	register(&Rule{ID: "R-ERRPROP", Min: 40, Run: ruleErrProp,
		Doc: "every error returned by a call in engine, execution/... and logicalplan is consumed: returned, stored, sent or passed on. An error that is only compared with nil, or never looked at, is dropped (the allow-list is exactly: Log, deferred Close, hash Write/WriteString)"})
	register(&Rule{ID: "R-SELKEY", Min: 1, Run: ruleSelKey,
		Doc: "the key under which a storage select is cached covers every select parameter that can differ between two selects with equal matchers: range start, range end, step, function, grouping and by"})
	register(&Rule{ID: "R-TSTAMP", Min: 30, Run: ruleTStamp,
		Doc: "every kernel of function.Funcs stamps its result with the step time of its arguments (or returns the InvalidSample sentinel): result timestamps lie on the step grid, never on sample timestamps"})
	register(&Rule{ID: "R-RESULTCOPY", Min: 2, Run: ruleResultCopy,
		Doc: "Exec copies float values out of the pooled step vectors: no value of a pooled slice type ([]float64, []uint64, []StepVector) is stored into the promql result it builds"})

	mutant(Mutant{Rule: "R-DUPBOOK", Name: "tags-recorded-after-filter", File: "execution/binary/table.go",
		Old: "\t\t\tt.outputValues[outputSampleID].rhSampleID = sampleID\n\t\t\tt.outputValues[outputSampleID].rhT = rhs.T\n\n\t\t\toutputVal, keep := t.operation([2]float64{outputSample.v, rhVal}, 0)\n\t\t\tif returnBool {\n\t\t\t\toutputVal = 0\n\t\t\t\tif keep {\n\t\t\t\t\toutputVal = 1\n\t\t\t\t}\n\t\t\t} else if !keep {\n\t\t\t\tcontinue\n\t\t\t}\n",
		New: "\t\t\toutputVal, keep := t.operation([2]float64{outputSample.v, rhVal}, 0)\n\t\t\tif returnBool {\n\t\t\t\toutputVal = 0\n\t\t\t\tif keep {\n\t\t\t\t\toutputVal = 1\n\t\t\t\t}\n\t\t\t} else if !keep {\n\t\t\t\tcontinue\n\t\t\t}\n\t\t\tt.outputValues[outputSampleID].rhSampleID = sampleID\n\t\t\tt.outputValues[outputSampleID].rhT = rhs.T\n", Expect: "rhT"})
	mutant(Mutant{Rule: "R-STEPBOUND", Name: "literal-unbounded", File: "execution/scan/literal_selector.go",
		Old: "for currStep := 0; currStep < o.numSteps && ts <= o.maxt; currStep++ {", New: "for currStep := 0; currStep < o.numSteps; currStep++ {", Expect: "numberLiteralSelector"})
	mutant(Mutant{Rule: "R-MATCHEQ", Name: "type-not-compared", File: "logicalplan/merge_selects.go",
		Old: "equals := v.Name == m.Name && v.Type == m.Type && v.Value == m.Value", New: "equals := v.Name == m.Name && v.Value == m.Value", Expect: "findReplacement"})
	mutant(Mutant{Rule: "R-PUSHDOWN", Name: "literals-continue", File: "logicalplan/plan.go",
		Old: "\tcase *parser.SubqueryExpr:\n\t\treturn traverseBottomUp(current, &node.Expr, transform)\n\t}\n\n\treturn true", New: "\tcase *parser.SubqueryExpr:\n\t\treturn traverseBottomUp(current, &node.Expr, transform)\n\tcase *parser.NumberLiteral, *parser.StringLiteral:\n\t\treturn false\n\t}\n\n\treturn true", Expect: "traverseBottomUp"})
	mutant(Mutant{Rule: "R-SHARDCOPY", Name: "shard-renumbered-in-place", File: "execution/storage/series_selector.go",
		Old: "\tslice := series[start:end]\n\tshard := make([]SignedSeries, len(slice))\n\tcopy(shard, slice)\n", New: "\tshard := series[start:end]\n", Expect: "seriesShard"})
	mutant(Mutant{Rule: "R-DEFERORDER", Name: "pull-defers-swapped", File: "execution/exchange/concurrent.go",
		Old: "\tdefer close(c.buffer)\n\t// A panic while evaluating the next operator is reported to the consumer\n\t// as an error instead of crashing the process.\n\tdefer func() {\n\t\tif e := recover(); e != nil {\n\t\t\tc.buffer <- maybeStepVector{err: panicToError(e)}\n\t\t}\n\t}()\n",
		New: "\tdefer func() {\n\t\tif e := recover(); e != nil {\n\t\t\tc.buffer <- maybeStepVector{err: panicToError(e)}\n\t\t}\n\t}()\n\tdefer close(c.buffer)\n", Expect: "pull"})
	mutant(Mutant{Rule: "R-CANCELEARLY", Name: "cancel-published-after-series", File: "engine/engine.go",
		Old: "\tq.cancelMtx.Lock()\n\tq.cancel = cancel\n\tq.cancelMtx.Unlock()\n\n\tresultSeries, err := q.Query.exec.Series(ctx)\n\tif err != nil {\n\t\treturn newErrResult(ret, err)\n\t}\n",
		New: "\tresultSeries, err := q.Query.exec.Series(ctx)\n\tif err != nil {\n\t\treturn newErrResult(ret, err)\n\t}\n\tq.cancelMtx.Lock()\n\tq.cancel = cancel\n\tq.cancelMtx.Unlock()\n", Expect: "Exec"})
	mutant(Mutant{Rule: "R-CHANCAP", Name: "binary-errchan-unbuffered", File: "execution/binary/vector.go",
		Old: "var errChan = make(chan error, 1)", New: "var errChan = make(chan error)", Expect: "initOutputs"})
	mutant(Mutant{Rule: "R-SHARDCOPY", Name: "filter-compacts-the-shared-list", File: "execution/storage/filtered_selector.go",
		Old: "\tf.series = make([]SignedSeries, 0, len(series))\n", New: "\tf.series = series[:0]\n", Expect: "appends to a series list"})
	mutant(Mutant{Rule: "R-SHARDCOPY", Name: "single-shard-gets-the-cached-list", File: "execution/storage/series_selector.go",
		Old: "\tstart := index * len(series) / numShards\n", New: "\tif numShards == 1 {\n\t\treturn series\n\t}\n\tstart := index * len(series) / numShards\n", Expect: "hands out a series list of its own"})
	mutant(Mutant{Rule: "R-CHANCAP", Name: "one-slot-for-all-operands", File: "execution/exchange/coalesce.go",
		Old: "\terrChan := make(errorChan, len(c.operators))\n", New: "\terrChan := make(errorChan, 1)\n", Expect: "has room for every sender"})
	mutant(Mutant{Rule: "R-CHANCAP", Name: "worker-output-unbuffered", File: "worker/worker.go",
		Old: "output := make(chan model.StepVector, 1)", New: "output := make(chan model.StepVector)", Expect: "worker channel"})
	mutant(Mutant{Rule: "R-ERRPROP", Name: "once-closure-shadows-err", File: "execution/step_invariant/step_invariant.go",
		Old: "\tvar in []model.StepVector\n\tu.cacheVectorOnce.Do(func() {\n\t\tin, err = u.next.Next(ctx)", New: "\tu.cacheVectorOnce.Do(func() {\n\t\tin, err := u.next.Next(ctx)", Expect: "cacheInputVector"})
	mutant(Mutant{Rule: "R-ERRPROP", Name: "operand-error-overwritten", File: "execution/execution.go",
		Old: "\t\tnext, err := newOperator(e.Expr, storage, opts, hints)\n\t\tif err != nil {\n\t\t\treturn nil, err\n\t\t}\n\n\t\tif e.Param != nil {", New: "\t\tnext, err := newOperator(e.Expr, storage, opts, hints)\n\n\t\tif e.Param != nil {", Expect: "newOperator"})
	mutant(Mutant{Rule: "R-SELKEY", Name: "range-start-not-hashed", File: "execution/storage/pool.go",
		Old: "\twriteInt64(sb, mint)\n", New: "", Expect: "hashMatchers"})
	mutant(Mutant{Rule: "R-SELKEY", Name: "matcher-type-not-hashed", File: "execution/storage/pool.go",
		Old: "\twriteString(sb, strconv.Itoa(int(m.Type)))\n", New: "\t_ = strconv.Itoa\n", Expect: "hashMatchers"})
	mutant(Mutant{Rule: "R-TSTAMP", Name: "no-result-as-zero-sample", File: "execution/function/functions.go",
		Old: "\t\"irate\": func(f FunctionArgs) promql.Sample {\n\t\tif len(f.Points) < 2 {\n\t\t\treturn InvalidSample\n", New: "\t\"irate\": func(f FunctionArgs) promql.Sample {\n\t\tif len(f.Points) < 2 {\n\t\t\treturn promql.Sample{}\n", Expect: "irate"})
	mutant(Mutant{Rule: "R-TSTAMP", Name: "last-over-time-raw-point", File: "execution/function/functions.go",
		Old: "\t\t\t\tT: f.StepTime,\n\t\t\t\tV: f.Points[len(f.Points)-1].V,", New: "\t\t\t\tT: f.Points[len(f.Points)-1].T,\n\t\t\t\tV: f.Points[len(f.Points)-1].V,", Expect: "last_over_time"})
}

// ---------------------------------------------------------------------------------------------

func ruleDupBook(p *core.Program) []core.Obligation {
	const rule = "R-DUPBOOK"
	var obs []core.Obligation
	sp := p.SSAPkg("execution/binary")
	if sp == nil {
		return []core.Obligation{core.Ob(rule, "package execution/binary", "-", "", core.Lost, "not found")}
	}
	dependsOnOperation := func(conds []ssa.Value) bool {
		dep := false
		for _, c := range conds {
			core.BackSlice(c, func(x ssa.Value) bool {
				if call, ok := x.(*ssa.Call); ok && !call.Call.IsInvoke() && call.Call.StaticCallee() == nil {
					if core.TypeIs(call.Call.Value.Type(), core.Module+"/execution/binary", "operation") {
						dep = true
					}
				}
				return true
			})
		}
		return dep
	}
	// the tags are recorded by the join of one step (execBinaryOperation and the helpers it is split into)
	for _, fn := range p.Funcs {
		if fn.Pkg != sp {
			continue
		}
		f := fn
		core.EachInstr(fn, func(b *ssa.BasicBlock, i int, ins ssa.Instruction) {
			st, ok := ins.(*ssa.Store)
			if !ok {
				return
			}
			n, fld, _, ok := core.FieldRef(st.Addr)
			if !ok || n == nil || n.Obj().Name() != "outputSample" {
				return
			}
			if fld != "lhT" && fld != "rhT" && fld != "lhSampleID" && fld != "rhSampleID" {
				return
			}
			if c, isConst := st.Val.(*ssa.Const); isConst && c.Value != nil && c.Value.String() == "-1" {
				return // the initial "no sample seen" value written when the table is built
			}
			key := "the join records " + fld
			conds := controllingConds(st)
			// a helper: the conditions under which it is called count too
			for _, cs := range p.CallSitesOf(f) {
				if cs == nil {
					continue
				}
				for _, caller := range p.Funcs {
					if caller.Pkg != sp {
						continue
					}
					core.EachInstr(caller, func(_ *ssa.BasicBlock, _ int, x ssa.Instruction) {
						if core.CallCommon(x) == cs {
							conds = append(conds, controllingConds(x)...)
						}
					})
				}
			}
			if dependsOnOperation(conds) {
				obs = append(obs, core.Ob(rule, key, p.Pos(st.Pos()), core.FuncName(f), core.Violated, "the tag is only recorded when the comparison keeps the sample: a second series of the same match group is not detected as a duplicate when the first one was filtered out, and the query succeeds where the reference fails"))
			} else {
				obs = append(obs, core.Ob(rule, key, p.Pos(st.Pos()), core.FuncName(f), core.Held, "recorded independently of the operation's keep result"))
			}
		})
	}
	return obs
}

func ruleStepBound(p *core.Program) []core.Obligation {
	const rule = "R-STEPBOUND"
	var obs []core.Obligation
	for _, fn := range p.Funcs {
		recv := recvNamed(fn)
		if recv == nil || fn.Parent() != nil || !isOperatorMethod(fn) {
			continue
		}
		st, _ := recv.Underlying().(*types.Struct)
		hasMaxt := false
		for i := 0; st != nil && i < st.NumFields(); i++ {
			if st.Field(i).Name() == "maxt" {
				hasMaxt = true
			}
		}
		if !hasMaxt {
			continue
		}
		depth := core.LoopDepth(fn)
		k := 0
		core.EachInstr(fn, func(b *ssa.BasicBlock, i int, ins ssa.Instruction) {
			call, ok := ins.(*ssa.Call)
			if !ok {
				return
			}
			if bi, ok := call.Call.Value.(*ssa.Builtin); !ok || bi.Name() != "append" || !isBatchType(call.Type()) {
				return
			}
			if depth[b] == 0 {
				return
			}
			k++
			key := fmt.Sprintf("%s.Next batch loop #%d is bounded by maxt", recv.Obj().Name(), k)
			// some loop containing b has an exit edge whose condition compares against maxt
			bounded := false
			for _, body := range core.LoopBodies(fn) {
				if !body[b] {
					continue
				}
				for x := range body {
					iff := core.IfOf(x)
					if iff == nil {
						continue
					}
					exits := false
					for _, s := range x.Succs {
						if !body[s] {
							exits = true
						}
					}
					if !exits {
						continue
					}
					usesMaxt := false
					core.BackSlice(iff.Cond, func(v ssa.Value) bool {
						if n, f, _, ok := core.FieldRef(v); ok && n == recv && f == "maxt" {
							usesMaxt = true
						}
						return true
					})
					if usesMaxt {
						bounded = true
					}
				}
			}
			if bounded {
				obs = append(obs, core.Ob(rule, key, p.Pos(ins.Pos()), core.FuncName(fn), core.Held, "a loop exit compares the cursor with maxt"))
			} else {
				obs = append(obs, core.Ob(rule, key, p.Pos(ins.Pos()), core.FuncName(fn), core.Violated, "the loop that fills the batch is bounded by the batch size only: the last batch of a window whose step count is not a multiple of the batch size runs past the end of the window"))
			}
		})
	}
	return obs
}

func ruleMatchEq(p *core.Program) []core.Obligation {
	const rule = "R-MATCHEQ"
	var obs []core.Obligation
	for _, fn := range p.Funcs {
		if core.Rel(fn.Pkg.Pkg.Path()) != "logicalplan" {
			continue
		}
		cmp := map[string]bool{}
		var pos token.Pos
		core.EachInstr(fn, func(b *ssa.BasicBlock, i int, ins ssa.Instruction) {
			bo, ok := ins.(*ssa.BinOp)
			if !ok || (bo.Op != token.EQL && bo.Op != token.NEQ) {
				return
			}
			fx, fy := matcherFieldLoad(bo.X), matcherFieldLoad(bo.Y)
			if fx != "" && fx == fy {
				cmp[fx] = true
				if !pos.IsValid() {
					pos = bo.Pos()
				}
			}
		})
		if !cmp["Value"] {
			continue
		}
		key := core.FuncName(fn) + " compares two matchers"
		if cmp["Type"] && cmp["Name"] {
			obs = append(obs, core.Ob(rule, key, p.Pos(pos), core.FuncName(fn), core.Held, "compares Name, Type and Value"))
		} else {
			obs = append(obs, core.Ob(rule, key, p.Pos(pos), core.FuncName(fn), core.Violated, fmt.Sprintf("two matchers are taken to be equal on %v only: a!=\"1\" and a=\"1\" are identified and a selector is rewritten into a filter over a select that does not contain its series", sortedKeys(cmp))))
		}
	}
	return obs
}

func matcherFieldLoad(v ssa.Value) string {
	a := core.Deref(v)
	if a == nil {
		return ""
	}
	if n, f, _, ok := core.FieldRef(a); ok && n != nil && n.Obj().Pkg() != nil && n.Obj().Pkg().Path() == pkgLabels && n.Obj().Name() == "Matcher" {
		return f
	}
	return ""
}

func rulePushdown(p *core.Program) []core.Obligation {
	const rule = "R-PUSHDOWN"
	var obs []core.Obligation
	root := p.Func("logicalplan", "traverseBottomUp")
	if root == nil {
		return []core.Obligation{core.Ob(rule, "logicalplan.traverseBottomUp", "-", "", core.Lost, "not found")}
	}
	// the traversal family: traverseBottomUp and the functions of the package it is split into (same shape:
	// two expression slots in, a verdict out)
	family := map[*ssa.Function]bool{}
	var order []*ssa.Function
	var add func(f *ssa.Function)
	add = func(f *ssa.Function) {
		if f == nil || f.Blocks == nil || family[f] || f.Pkg != root.Pkg {
			return
		}
		nptr := 0
		for _, pr := range f.Params {
			if isExprPtr(pr.Type()) {
				nptr++
			}
		}
		res := f.Signature.Results()
		if nptr < 2 || res.Len() != 1 || !types.Identical(res.At(0).Type(), types.Typ[types.Bool]) {
			return
		}
		family[f] = true
		order = append(order, f)
		core.EachInstr(f, func(_ *ssa.BasicBlock, _ int, ins ssa.Instruction) {
			if c, ok := ins.(*ssa.Call); ok {
				add(c.Call.StaticCallee())
			}
		})
	}
	add(root)
	k := 0
	for _, fn := range order {
		var callbacks []*ssa.Parameter
		for _, pr := range fn.Params {
			if _, ok := pr.Type().Underlying().(*types.Signature); ok {
				callbacks = append(callbacks, pr)
			}
		}
		f := fn
		core.EachInstr(fn, func(b *ssa.BasicBlock, i int, ins ssa.Instruction) {
			ret, ok := ins.(*ssa.Return)
			if !ok || len(ret.Results) != 1 {
				return
			}
			k++
			key := fmt.Sprintf("logicalplan.traverseBottomUp return #%d", k)
			okAll, why := true, ""
			seen := map[ssa.Value]bool{}
			var check func(v ssa.Value)
			check = func(v ssa.Value) {
				if seen[v] {
					return
				}
				seen[v] = true
				switch x := v.(type) {
				case *ssa.Const:
					if x.Value == nil || x.Value.String() != "true" {
						okAll, why = false, "returns the constant false for a node it did not examine"
					}
				case *ssa.Phi:
					for _, e := range x.Edges {
						check(e)
					}
				case *ssa.BinOp:
					check(x.X)
					check(x.Y)
				case *ssa.Call:
					if family[x.Call.StaticCallee()] {
						return
					}
					for _, cb := range callbacks {
						if x.Call.Value == ssa.Value(cb) {
							return
						}
						// the callback converted to a named func type first: bottomUpTransform(transform).visit(...)
						if ct, ok := x.Call.Value.(*ssa.ChangeType); ok && ct.X == ssa.Value(cb) {
							return
						}
					}
					okAll, why = false, "returns the result of "+core.CalleeName(&x.Call)
				default:
					okAll, why = false, fmt.Sprintf("returns a %T", v)
				}
			}
			check(core.RetResults(ret)[0])
			if okAll {
				obs = append(obs, core.Ob(rule, key, p.Pos(ret.Pos()), core.FuncName(f), core.Held, "true, or the verdict of transform / a recursive traversal"))
			} else {
				obs = append(obs, core.Ob(rule, key, p.Pos(ret.Pos()), core.FuncName(f), core.Violated, why+": the parent (e.g. histogram_quantile over a selector) is then pushed down whole and evaluated on partial data by every remote engine"))
			}
		})
	}
	return obs
}

func isSignedSeriesSlice(t types.Type) bool {
	s, ok := t.Underlying().(*types.Slice)
	return ok && core.TypeIs(s.Elem(), core.Module+"/execution/storage", "SignedSeries") && !isPointer(s.Elem())
}

func ruleShardCopy(p *core.Program) []core.Obligation {
	const rule = "R-SHARDCOPY"
	var obs []core.Obligation
	for _, fn := range p.Funcs {
		k := 0
		core.EachInstr(fn, func(b *ssa.BasicBlock, i int, ins ssa.Instruction) {
			st, ok := ins.(*ssa.Store)
			if !ok {
				return
			}
			// element store s[i] = v or field-of-element store s[i].f = v
			var ia *ssa.IndexAddr
			if x, ok := st.Addr.(*ssa.IndexAddr); ok {
				ia = x
			} else if fa, ok := st.Addr.(*ssa.FieldAddr); ok {
				ia, _ = fa.X.(*ssa.IndexAddr)
			}
			if ia == nil || !isSignedSeriesSlice(ia.X.Type()) {
				return
			}
			k++
			key := fmt.Sprintf("%s writes an element of a series list #%d", core.FuncName(fn), k)
			if freshSlice(ia.X, map[ssa.Value]bool{}) {
				obs = append(obs, core.Ob(rule, key, p.Pos(st.Pos()), core.FuncName(fn), core.Held, "the slice was allocated in this function"))
			} else {
				obs = append(obs, core.Ob(rule, key, p.Pos(st.Pos()), core.FuncName(fn), core.Violated, "an element of a series list that was not allocated here is overwritten: the list cached in the selector is shared by all shards (and by filtered selectors over the same select), which renumber and read it concurrently"))
			}
		})
		// an append writes elements too (into the spare capacity of its base): the in-place filter idiom
		// `out := list[:0]; out = append(out, ...)` overwrites the list it filters
		f := fn
		core.EachInstr(fn, func(b *ssa.BasicBlock, i int, ins ssa.Instruction) {
			c, ok := ins.(*ssa.Call)
			if !ok {
				return
			}
			if bi, ok := c.Call.Value.(*ssa.Builtin); !ok || bi.Name() != "append" || !isSignedSeriesSlice(c.Type()) {
				return
			}
			k++
			key := fmt.Sprintf("%s appends to a series list #%d", core.FuncName(f), k)
			// the owner growing its own list: the base is a field of the receiver into which this function
			// stores nothing but such appends (and fresh slices)
			if ld, ok := c.Call.Args[0].(*ssa.UnOp); ok && ld.Op == token.MUL {
				rooted := func(v ssa.Value) bool { // a field of the receiver, possibly of a struct embedded in it
					for d := 0; d < 4; d++ {
						x, ok := v.(*ssa.FieldAddr)
						if !ok {
							return false
						}
						if len(f.Params) > 0 && x.X == ssa.Value(f.Params[0]) {
							return true
						}
						v = x.X
					}
					return false
				}
				if fa, ok := ld.X.(*ssa.FieldAddr); ok && f.Signature.Recv() != nil && rooted(fa) {
					own := true
					core.EachInstr(f, func(_ *ssa.BasicBlock, _ int, x ssa.Instruction) {
						st, ok := x.(*ssa.Store)
						if !ok || !core.SameExpr(st.Addr, fa) {
							return
						}
						if ac, isCall := st.Val.(*ssa.Call); isCall {
							if bi, ok := ac.Call.Value.(*ssa.Builtin); ok && bi.Name() == "append" && core.SameExpr(ac.Call.Args[0], ld) {
								return
							}
						}
						if !freshSlice(st.Val, map[ssa.Value]bool{}) {
							own = false
						}
					})
					if own {
						obs = append(obs, core.Ob(rule, key, p.Pos(c.Pos()), core.FuncName(f), core.Held, "the receiver grows its own list"))
						return
					}
				}
			}
			if freshSlice(c.Call.Args[0], map[ssa.Value]bool{}) {
				obs = append(obs, core.Ob(rule, key, p.Pos(c.Pos()), core.FuncName(f), core.Held, "the base was allocated in this function"))
			} else {
				obs = append(obs, core.Ob(rule, key, p.Pos(c.Pos()), core.FuncName(f), core.Violated, "the base of the append is a series list that was not allocated here (a list handed out by a selector, re-sliced to length 0): the appended elements overwrite the list that is shared with the other users of the pooled selector"))
			}
		})
		// a series list that is handed out (returned) is the function's own: a copy, never the cached list
		if fn.Parent() == nil && fn.Signature.Results().Len() > 0 && isSignedSeriesSlice(fn.Signature.Results().At(0).Type()) {
			takes := false
			for _, prm := range fn.Params {
				if isSignedSeriesSlice(prm.Type()) {
					takes = true
				}
			}
			if takes {
				key := fmt.Sprintf("%s hands out a series list of its own", core.FuncName(fn))
				bad := ""
				core.EachInstr(fn, func(rb *ssa.BasicBlock, _ int, ins ssa.Instruction) {
					ret, ok := ins.(*ssa.Return)
					if !ok || rb == fn.Recover {
						return
					}
					if !freshSlice(ret.Results[0], map[ssa.Value]bool{}) {
						bad = p.Pos(ret.Pos())
					}
				})
				if bad != "" {
					obs = append(obs, core.Ob(rule, key, bad, core.FuncName(fn), core.Violated, "a path returns the list it was given (or a part of it) instead of a copy: the caller - a shard, or a filtered selector - owns what it gets and renumbers or compacts it, which rewrites the list cached in the pooled selector"))
				} else {
					obs = append(obs, core.Ob(rule, key, p.Pos(fn.Pos()), core.FuncName(fn), core.Held, "every return is a slice allocated in the function"))
				}
			}
		}
	}
	return obs
}

func freshSlice(v ssa.Value, seen map[ssa.Value]bool) bool {
	if seen[v] {
		return true
	}
	seen[v] = true
	switch x := v.(type) {
	case *ssa.MakeSlice:
		return true
	case *ssa.Phi:
		for _, e := range x.Edges {
			if !freshSlice(e, seen) {
				return false
			}
		}
		return true
	case *ssa.Slice:
		if _, ok := x.X.(*ssa.Alloc); ok {
			return true
		}
		return freshSlice(x.X, seen)
	case *ssa.Const:
		return true
	case *ssa.Call:
		if bi, ok := x.Call.Value.(*ssa.Builtin); ok && bi.Name() == "append" {
			return freshSlice(x.Call.Args[0], seen)
		}
	case *ssa.UnOp:
		// a load of a field that this function itself has just set to a fresh slice
		if fa, ok := x.X.(*ssa.FieldAddr); ok {
			found := false
			for _, b := range x.Parent().Blocks {
				for _, ins := range b.Instrs {
					st, ok := ins.(*ssa.Store)
					if !ok || !core.SameExpr(st.Addr, fa) {
						continue
					}
					if !freshSlice(st.Val, seen) {
						return false
					}
					if core.InstrDominates(st, x) {
						found = true
					}
				}
			}
			return found
		}
		// a load of a local variable holding the slice
		if a, ok := x.X.(*ssa.Alloc); ok {
			for _, r := range core.Referrers(a) {
				if st, ok := r.(*ssa.Store); ok && st.Addr == ssa.Value(a) && !freshSlice(st.Val, seen) {
					return false
				}
			}
			return true
		}
	}
	return false
}

func ruleDeferOrder(p *core.Program) []core.Obligation {
	const rule = "R-DEFERORDER"
	var obs []core.Obligation
	for _, fn := range p.Funcs {
		rd := recoveringDefer(p, fn)
		if rd == nil {
			continue
		}
		var target *ssa.Function
		mc, isClosure := rd.Call.Value.(*ssa.MakeClosure)
		if isClosure {
			target, _ = mc.Fn.(*ssa.Function)
		} else {
			target = rd.Call.StaticCallee()
		}
		if target == nil || target.Blocks == nil {
			continue
		}
		// channels the handler sends on, as seen from fn: free variables are bound at the closure,
		// parameters (incl. the receiver) of a named handler at the defer statement
		var chans []ssa.Value
		core.EachInstr(target, func(b *ssa.BasicBlock, i int, ins ssa.Instruction) {
			snd, ok := ins.(*ssa.Send)
			if !ok {
				return
			}
			core.BackSlice(snd.Chan, func(x ssa.Value) bool {
				switch y := x.(type) {
				case *ssa.FreeVar:
					for j, f := range target.FreeVars {
						if isClosure && f == y && j < len(mc.Bindings) {
							chans = append(chans, mc.Bindings[j])
						}
					}
				case *ssa.Parameter:
					for j, pr := range target.Params {
						if !isClosure && pr == y && j < len(rd.Call.Args) {
							chans = append(chans, rd.Call.Args[j])
						}
					}
				}
				return true
			})
		})
		if len(chans) == 0 {
			continue
		}
		key := core.FuncName(fn) + " closes the channel its recover handler reports on"
		found, bad := false, false
		core.EachInstr(fn, func(b *ssa.BasicBlock, i int, ins ssa.Instruction) {
			d, ok := ins.(*ssa.Defer)
			if !ok {
				return
			}
			bi, ok := d.Call.Value.(*ssa.Builtin)
			if !ok || bi.Name() != "close" {
				return
			}
			// is the closed channel one the handler sends on? compare through the bindings
			for _, c := range chans {
				if sameChan(d.Call.Args[0], c) {
					found = true
					if !core.InstrDominates(d, rd) {
						bad = true
					}
				}
			}
		})
		if !found {
			continue
		}
		if bad {
			obs = append(obs, core.Ob(rule, key, p.Pos(rd.Pos()), core.FuncName(fn), core.Violated, "defer close(ch) is registered after the recovering defer, so it runs first: the recovered panic is then sent on a closed channel, which panics again outside any recover and terminates the process"))
		} else {
			obs = append(obs, core.Ob(rule, key, p.Pos(rd.Pos()), core.FuncName(fn), core.Held, "close is registered before the recover handler and therefore runs after it"))
		}
	}
	return obs
}

// sameChan compares two channel expressions: identical values, or loads of the same field of the same base.
func sameChan(a, b ssa.Value) bool {
	if a == b || core.SameExpr(a, b) {
		return true
	}
	// a = *(&c.buffer) in fn, b = the receiver c bound into the closure (the closure loads c.buffer itself)
	found := false
	core.BackSlice(a, func(x ssa.Value) bool {
		if x == b {
			found = true
		}
		return !found
	})
	if found {
		return true
	}
	// b may be an Alloc holding the channel variable (captured by reference), a a load of it
	if l := core.Deref(a); l != nil && l == b {
		return true
	}
	return false
}

func ruleCancelEarly(p *core.Program) []core.Obligation {
	const rule = "R-CANCELEARLY"
	var obs []core.Obligation
	fn := p.Func("engine", "compatibilityQuery.Exec")
	if fn == nil {
		return []core.Obligation{core.Ob(rule, "Exec", "-", "", core.Lost, "not found")}
	}
	var store ssa.Instruction
	var planCalls []ssa.Instruction
	storesCancel := func(f *ssa.Function) bool {
		found := false
		for g := range syncReach(p, f, func(caller *ssa.Function, ins ssa.Instruction, c *ssa.Function) bool {
			cc := core.CallCommon(ins)
			return cc == nil || !cc.IsInvoke()
		}) {
			core.EachInstr(g, func(b *ssa.BasicBlock, i int, ins ssa.Instruction) {
				if st, ok := ins.(*ssa.Store); ok && core.IsFieldOf(st.Addr, modEngine, "compatibilityQuery", "cancel") && !core.IsNilConst(st.Val) {
					found = true
				}
			})
		}
		return found
	}
	core.EachInstr(fn, func(b *ssa.BasicBlock, i int, ins ssa.Instruction) {
		if st, ok := ins.(*ssa.Store); ok && core.IsFieldOf(st.Addr, modEngine, "compatibilityQuery", "cancel") {
			store = st
		}
		// or a helper (a method of the query) that stores it
		if c, ok := ins.(*ssa.Call); ok && store == nil {
			if callee := c.Call.StaticCallee(); callee != nil && p.InRepo(callee) && recvNamed(callee) == recvNamed(fn) && storesCancel(callee) {
				store = c
			}
		}
		// or the cancel function of context.WithCancel handed to a helper that keeps it in a field
		// (q.canceller.store(cancel): the cancellation state grouped into its own type)
		if c, ok := ins.(*ssa.Call); ok && store == nil {
			if callee := c.Call.StaticCallee(); callee != nil && callee.Blocks != nil && p.InRepo(callee) {
				for ai, a := range c.Call.Args {
					ex, isEx := a.(*ssa.Extract)
					if !isEx || ex.Index != 1 || ai >= len(callee.Params) {
						continue
					}
					if wc, ok := ex.Tuple.(*ssa.Call); !ok || core.CalleeName(&wc.Call) != "context.WithCancel" {
						continue
					}
					prm := callee.Params[ai]
					core.EachInstr(callee, func(_ *ssa.BasicBlock, _ int, x ssa.Instruction) {
						if st, ok := x.(*ssa.Store); ok && st.Val == ssa.Value(prm) {
							if _, isField := st.Addr.(*ssa.FieldAddr); isField {
								store = c
							}
						}
					})
				}
			}
		}
		if st, ok := ins.(*ssa.Store); ok && store == nil {
			if ex, isEx := st.Val.(*ssa.Extract); isEx && ex.Index == 1 {
				if wc, ok := ex.Tuple.(*ssa.Call); ok && core.CalleeName(&wc.Call) == "context.WithCancel" {
					if _, isField := st.Addr.(*ssa.FieldAddr); isField {
						store = st
					}
				}
			}
		}
		if cc := core.CallCommon(ins); cc != nil && cc.IsInvoke() && isVectorOperatorIface(cc.Value.Type()) && (cc.Method.Name() == "Series" || cc.Method.Name() == "Next") {
			planCalls = append(planCalls, ins)
		}
	})
	key := "(*engine.compatibilityQuery).Exec publishes cancel before entering the plan"
	switch {
	case store == nil:
		obs = append(obs, core.Ob(rule, key, p.Pos(fn.Pos()), core.FuncName(fn), core.Violated, "Exec never stores the per-execution cancel function: Cancel/Close cannot stop it"))
	case len(planCalls) == 0:
		obs = append(obs, core.Ob(rule, key, p.Pos(fn.Pos()), core.FuncName(fn), core.Lost, "no call into the plan found in Exec"))
	default:
		for _, c := range planCalls {
			if !core.InstrDominates(store, c) {
				obs = append(obs, core.Ob(rule, key, p.Pos(c.Pos()), core.FuncName(fn), core.Violated, "the plan is entered ("+p.Pos(c.Pos())+") before the cancel function is stored: a Cancel()/Close() that arrives while the series are being loaded is lost and Exec keeps blocking in the storage"))
				return obs
			}
		}
		obs = append(obs, core.Ob(rule, key, p.Pos(store.Pos()), core.FuncName(fn), core.Held, fmt.Sprintf("the store dominates all %d calls into the plan", len(planCalls))))
	}
	return obs
}

func ruleChanCap(p *core.Program) []core.Obligation {
	const rule = "R-CHANCAP"
	var obs []core.Obligation
	errT := types.Universe.Lookup("error").Type()
	for _, fn := range p.Funcs {
		k := 0
		core.EachInstr(fn, func(b *ssa.BasicBlock, i int, ins ssa.Instruction) {
			mk, ok := ins.(*ssa.MakeChan)
			if !ok {
				return
			}
			ch, ok := mk.Type().Underlying().(*types.Chan)
			if !ok {
				return
			}
			// error channels everywhere; and the worker's task/result channels, whose protocol (Send/GetOutput check the
			// context only before they block) relies on one slot of buffering
			if !types.Identical(ch.Elem(), errT) && core.Rel(fn.Pkg.Pkg.Path()) != "worker" {
				return
			}
			k++
			key := fmt.Sprintf("%s error channel #%d", core.FuncName(fn), k)
			if !types.Identical(ch.Elem(), errT) {
				key = fmt.Sprintf("%s worker channel #%d", core.FuncName(fn), k)
			}
			if c, ok := core.ConstInt(mk.Size); ok && c == 0 {
				obs = append(obs, core.Ob(rule, key, p.Pos(mk.Pos()), core.FuncName(fn), core.Violated, "unbuffered channel: when the receiver returns early (the other side failed, the query was cancelled) the sending goroutine blocks forever and outlives the query"))
			} else {
				obs = append(obs, core.Ob(rule, key, p.Pos(mk.Pos()), core.FuncName(fn), core.Held, "created with a capacity"))
			}
			// room for every sender: goroutines started in a loop over a collection send before they are
			// joined (the channel is read after Wait()), so the capacity is the length of that collection
			if !types.Identical(ch.Elem(), errT) {
				return
			}
			f := fn
			core.EachInstr(fn, func(gb *ssa.BasicBlock, _ int, gi ssa.Instruction) {
				g, ok := gi.(*ssa.Go)
				if !ok || !goroutineSendsOn(g, mk) {
					return
				}
				bound := loopBoundLen(f, gb)
				if bound == nil {
					return // one goroutine per execution of the statement: any capacity >= 1 has room for it
				}
				key2 := fmt.Sprintf("%s error channel #%d has room for every sender", core.FuncName(f), k)
				size := mk.Size
				if cv, ok := size.(*ssa.Convert); ok {
					size = cv.X
				}
				if sc, ok := size.(*ssa.Call); ok {
					if bi, ok := sc.Call.Value.(*ssa.Builtin); ok && bi.Name() == "len" && core.SameExpr(sc.Call.Args[0], bound) {
						obs = append(obs, core.Ob(rule, key2, p.Pos(mk.Pos()), core.FuncName(f), core.Held, "capacity is the length of the collection the senders are started from"))
						return
					}
				}
				obs = append(obs, core.Ob(rule, key2, p.Pos(mk.Pos()), core.FuncName(f), core.Violated, "the senders are started in a loop (one per element) and send before they are joined, but the capacity is not the length of that collection: when more of them fail than the channel holds (two remote engines, two storage errors, a cancellation that hits several operands) the next sender blocks for ever, Wait() never returns and Exec hangs"))
			})
		})
	}
	return obs
}

// goroutineSendsOn: the goroutine started by g (a closure capturing the channel, or a function that is
// handed it) sends on the channel made by mk, in its body or in a closure of its body (a deferred recover).
func goroutineSendsOn(g *ssa.Go, mk *ssa.MakeChan) bool {
	var entry *ssa.Function
	var chanIn func(f *ssa.Function) map[ssa.Value]bool
	roots := map[ssa.Value]bool{}
	if mc, ok := g.Call.Value.(*ssa.MakeClosure); ok {
		entry, _ = mc.Fn.(*ssa.Function)
		if entry == nil {
			return false
		}
		for i, b := range mc.Bindings {
			if chanFrom(b, mk) && i < len(entry.FreeVars) {
				roots[entry.FreeVars[i]] = true
			}
		}
	} else if entry = g.Call.StaticCallee(); entry != nil {
		for i, a := range g.Call.Args {
			if chanFrom(a, mk) && i < len(entry.Params) {
				roots[entry.Params[i]] = true
			}
		}
	}
	if entry == nil || entry.Blocks == nil || len(roots) == 0 {
		return false
	}
	_ = chanIn
	found := false
	var scan func(f *ssa.Function, rs map[ssa.Value]bool, depth int)
	scan = func(f *ssa.Function, rs map[ssa.Value]bool, depth int) {
		if depth > 3 || found {
			return
		}
		isRoot := func(v ssa.Value) bool {
			for d := 0; d < 4; d++ {
				if rs[v] {
					return true
				}
				switch x := v.(type) {
				case *ssa.UnOp:
					v = x.X
				case *ssa.ChangeType:
					v = x.X
				default:
					return false
				}
			}
			return false
		}
		core.EachInstr(f, func(_ *ssa.BasicBlock, _ int, ins ssa.Instruction) {
			switch x := ins.(type) {
			case *ssa.Send:
				if isRoot(x.Chan) {
					found = true
				}
			case *ssa.Store:
				// the parameter spilled into a local that a closure captures
				if isRoot(x.Val) {
					rs[x.Addr] = true
				}
			case *ssa.MakeClosure:
				cf, ok := x.Fn.(*ssa.Function)
				if !ok {
					return
				}
				sub := map[ssa.Value]bool{}
				for i, b := range x.Bindings {
					if isRoot(b) && i < len(cf.FreeVars) {
						sub[cf.FreeVars[i]] = true
					}
				}
				if len(sub) > 0 {
					scan(cf, sub, depth+1)
				}
			}
		})
	}
	scan(entry, roots, 0)
	return found
}

// chanFrom: v is the channel made by mk (directly, converted to a directional type, or the local it is kept in).
func chanFrom(v ssa.Value, mk *ssa.MakeChan) bool {
	for d := 0; d < 4; d++ {
		if v == ssa.Value(mk) {
			return true
		}
		switch x := v.(type) {
		case *ssa.ChangeType:
			v = x.X
		case *ssa.UnOp:
			v = x.X
		case *ssa.Alloc:
			for _, r := range core.Referrers(x) {
				if st, ok := r.(*ssa.Store); ok && st.Addr == x && st.Val == ssa.Value(mk) {
					return true
				}
			}
			return false
		default:
			return false
		}
	}
	return false
}

// loopBoundLen: b lies in a loop whose exit test compares a counter with len(X); returns X.
func loopBoundLen(fn *ssa.Function, b *ssa.BasicBlock) ssa.Value {
	for h, body := range core.LoopBodies(fn) {
		if !body[b] {
			continue
		}
		iff := core.IfOf(h)
		if iff == nil {
			continue
		}
		bo, ok := iff.Cond.(*ssa.BinOp)
		if !ok || bo.Op != token.LSS {
			continue
		}
		if c, ok := bo.Y.(*ssa.Call); ok {
			if bi, ok := c.Call.Value.(*ssa.Builtin); ok && bi.Name() == "len" {
				return c.Call.Args[0]
			}
		}
	}
	return nil
}

// ---------------------------------------------------------------------------------------------
// R-ERRPROP

func ruleErrProp(p *core.Program) []core.Obligation {
	const rule = "R-ERRPROP"
	var obs []core.Obligation
	errT := types.Universe.Lookup("error").Type()
	allow := func(name string, ins ssa.Instruction) bool {
		switch {
		case strings.HasSuffix(name, ".Log"):
			return true
		case strings.HasSuffix(name, ".Close"):
			_, isDefer := ins.(*ssa.Defer)
			return isDefer
		case strings.Contains(name, "xxhash") && (strings.HasSuffix(name, ".Write") || strings.HasSuffix(name, ".WriteString")):
			return true
		case strings.HasSuffix(name, "io.Writer.Write"):
			return true // the best-effort debug writer ("users will not check the errors")
		}
		return false
	}
	for _, fn := range p.Funcs {
		rel := core.Rel(fn.Pkg.Pkg.Path())
		if !(rel == "engine" || rel == "logicalplan" || strings.HasPrefix(rel, "execution") || rel == "worker") {
			continue
		}
		counts := map[string]int{}
		core.EachInstr(fn, func(b *ssa.BasicBlock, i int, ins ssa.Instruction) {
			cc := core.CallCommon(ins)
			if cc == nil {
				return
			}
			sig := cc.Signature()
			if sig == nil || sig.Results().Len() == 0 {
				return
			}
			errIdx := -1
			for r := 0; r < sig.Results().Len(); r++ {
				if types.Identical(sig.Results().At(r).Type(), errT) {
					errIdx = r
				}
			}
			if errIdx < 0 {
				return
			}
			name := core.CalleeName(cc)
			if cc.IsInvoke() {
				name = types.TypeString(cc.Value.Type(), nil) + "." + cc.Method.Name()
			}
			if name == "" {
				name = "dynamic call"
			}
			short := strings.ReplaceAll(name, core.Module+"/", "")
			if i := strings.LastIndex(short, "/"); i >= 0 {
				short = short[i+1:]
			}
			counts[short]++
			key := fmt.Sprintf("%s -> %s error #%d", core.FuncName(fn), short, counts[short])
			if allow(name, ins) {
				return
			}
			// scope: errors produced by the repo's own functions and by the interfaces through which operators,
			// storage and remote engines are called; accessor methods named Err are R-ITERERR/R-SETERR's subject
			inScope := false
			if cc.IsInvoke() {
				if n := core.NamedOf(cc.Value.Type()); n != nil && n.Obj().Pkg() != nil {
					pp := n.Obj().Pkg().Path()
					inScope = strings.HasPrefix(pp, core.Module) || pp == pkgStorage || (pp == pkgPromql && n.Obj().Name() == "Query")
				}
			} else if f := cc.StaticCallee(); f != nil {
				inScope = p.InRepo(f)
			} else {
				inScope = true // function values of the repo
			}
			if !inScope || strings.HasSuffix(name, ".Err") {
				return
			}
			call, isCall := ins.(*ssa.Call)
			if !isCall {
				// go/defer of a function returning an error: the error is unobservable
				obs = append(obs, core.Ob(rule, key, p.Pos(ins.Pos()), core.FuncName(fn), core.Violated, "the error of a deferred/spawned call is discarded"))
				return
			}
			var errVal ssa.Value
			if sig.Results().Len() == 1 {
				errVal = call
			} else {
				for _, r := range core.Referrers(call) {
					if ex, ok := r.(*ssa.Extract); ok && ex.Index == errIdx {
						errVal = ex
					}
				}
				// returned as a tuple: return f(...)
				for _, r := range core.Referrers(call) {
					if _, ok := r.(*ssa.Return); ok {
						obs = append(obs, core.Ob(rule, key, p.Pos(ins.Pos()), core.FuncName(fn), core.Held, "results returned unchanged"))
						return
					}
				}
			}
			if errVal == nil {
				obs = append(obs, core.Ob(rule, key, p.Pos(ins.Pos()), core.FuncName(fn), core.Violated, "the error result is never looked at: a failure is silently turned into success"))
				return
			}
			if consumed(errVal, map[ssa.Value]bool{}) {
				if at := overwrittenUnobserved(errVal); at != nil {
					obs = append(obs, core.Ob(rule, key, p.Pos(ins.Pos()), core.FuncName(fn), core.Violated, "on the path through "+p.Pos(at.Instrs[0].Pos())+" the error is overwritten by a later assignment before anything looks at it: a failure of this call is lost when the later call succeeds"))
					return
				}
				obs = append(obs, core.Ob(rule, key, p.Pos(ins.Pos()), core.FuncName(fn), core.Held, "returned, stored, sent or passed on"))
			} else {
				obs = append(obs, core.Ob(rule, key, p.Pos(ins.Pos()), core.FuncName(fn), core.Violated, "the error is at most compared with nil and then dropped (e.g. assigned to a variable that shadows the one the function returns): a storage or operator failure ends the stream as if it were exhausted"))
			}
		})
	}
	return obs
}

func consumed(v ssa.Value, seen map[ssa.Value]bool) bool {
	if seen[v] {
		return false
	}
	seen[v] = true
	for _, r := range core.Referrers(v) {
		switch x := r.(type) {
		case *ssa.Return, *ssa.Send, *ssa.Panic:
			return true
		case *ssa.Store:
			if x.Val == v {
				// a store into a local that is never read again is not a consumption
				if a, ok := x.Addr.(*ssa.Alloc); ok && !a.Heap {
					read := false
					for _, rr := range core.Referrers(a) {
						if u, ok := rr.(*ssa.UnOp); ok && u.Op == token.MUL {
							if consumed(u, seen) {
								read = true
							}
						}
					}
					if read {
						return true
					}
					continue
				}
				return true
			}
		case *ssa.Call:
			return true
		case *ssa.Defer, *ssa.Go:
			return true
		case *ssa.Phi:
			if consumed(x, seen) {
				return true
			}
		case *ssa.MakeInterface:
			if consumed(x, seen) {
				return true
			}
		case *ssa.ChangeInterface:
			if consumed(x, seen) {
				return true
			}
		case *ssa.TypeAssert:
			if consumed(x, seen) {
				return true
			}
		case *ssa.Extract:
			if consumed(x, seen) {
				return true
			}
		case *ssa.MakeClosure:
			return true
		}
	}
	return false
}

// ---------------------------------------------------------------------------------------------

func ruleSelKey(p *core.Program) []core.Obligation {
	const rule = "R-SELKEY"
	fn := p.Func("execution/storage", "hashMatchers")
	if fn == nil {
		// the key function turned into a method (selectParams.hash()): the function of the package that feeds an
		// xxhash digest and returns its Sum64
		for _, f := range p.Funcs {
			if core.Rel(f.Pkg.Pkg.Path()) != "execution/storage" || f.Parent() != nil {
				continue
			}
			sums := false
			core.EachInstr(f, func(_ *ssa.BasicBlock, _ int, ins ssa.Instruction) {
				if cc := core.CallCommon(ins); cc != nil && strings.HasSuffix(core.CalleeName(cc), "xxhash/v2.Digest).Sum64") {
					sums = true
				}
			})
			if sums {
				fn = f
			}
		}
	}
	if fn == nil {
		return []core.Obligation{core.Ob(rule, "storage.hashMatchers", "-", "", core.Lost, "not found")}
	}
	used := map[string]bool{}
	intFields := map[string]bool{}
	core.EachInstr(fn, func(b *ssa.BasicBlock, i int, ins ssa.Instruction) {
		cc := core.CallCommon(ins)
		if cc == nil {
			return
		}
		for _, a := range cc.Args {
			core.BackSlice(a, func(x ssa.Value) bool {
				if pr, ok := x.(*ssa.Parameter); ok && isIntType(pr.Type()) {
					used["param:"+pr.Name()] = true
				}
				if n, f, _, ok := core.FieldRef(x); ok && n != nil && n.Obj().Name() == "SelectHints" {
					used[f] = true
				}
				// the select parameters grouped into a struct of the package: its int64 fields (mint, maxt, step)
				if n, f, _, ok := core.FieldRef(x); ok && n != nil && n.Obj().Pkg() != nil && n.Obj().Pkg().Path() == core.Module+"/execution/storage" {
					if v, isVal := x.(ssa.Value); isVal {
						t := v.Type()
						if pt, isPtr := t.Underlying().(*types.Pointer); isPtr {
							t = pt.Elem()
						}
						if isIntType(t) {
							intFields[f] = true
						}
					}
				}
				return true
			})
		}
	})
	// the int64 parameters are the range start and end, in declaration order
	var ints []string
	for _, pr := range fn.Params {
		if isIntType(pr.Type()) {
			ints = append(ints, pr.Name())
		}
	}
	var missing []string
	need := []struct{ what, alt string }{{"range start", "Start"}, {"range end", "End"}}
	for i, n := range need {
		ok := used[n.alt]
		if i < len(ints) && used["param:"+ints[i]] {
			ok = true
		}
		if len(ints) == 0 && len(intFields) >= 2 {
			ok = true // start and end are two of the hashed int64 fields of the parameter struct
		}
		if !ok {
			missing = append(missing, n.what)
		}
	}
	for _, f := range []string{"Step", "Func", "Grouping", "By"} {
		if !used[f] {
			missing = append(missing, "hints."+f)
		}
	}
	// every matcher is hashed with its full identity (type, name, value)
	mfields := map[string]bool{}
	for f := range syncReach(p, fn, func(caller *ssa.Function, ins ssa.Instruction, c *ssa.Function) bool {
		cc := core.CallCommon(ins)
		return cc == nil || !cc.IsInvoke()
	}) {
		core.EachInstr(f, func(b *ssa.BasicBlock, i int, ins ssa.Instruction) {
			if v, ok := ins.(ssa.Value); ok {
				if n, fld, _, ok := core.FieldRef(v); ok && n != nil && n.Obj().Pkg() != nil && n.Obj().Pkg().Path() == pkgLabels && n.Obj().Name() == "Matcher" {
					mfields[fld] = true
				}
			}
		})
	}
	for _, f := range []string{"Name", "Type", "Value"} {
		if !mfields[f] {
			missing = append(missing, "matcher."+f)
		}
	}
	key := "storage.hashMatchers covers the select parameters"
	if len(missing) > 0 {
		return []core.Obligation{core.Ob(rule, key, p.Pos(fn.Pos()), core.FuncName(fn), core.Violated, fmt.Sprintf("the cache key does not include %v: two selects that differ only there share one storage select, issued with the parameters of whichever was planned first", missing))}
	}
	return []core.Obligation{core.Ob(rule, key, p.Pos(fn.Pos()), core.FuncName(fn), core.Held, "matchers, range start/end, step, function, grouping and by are hashed")}
}

func ruleTStamp(p *core.Program) []core.Obligation {
	const rule = "R-TSTAMP"
	var obs []core.Obligation
	ks := kernels(p)
	var names []string
	for n := range ks {
		names = append(names, n)
	}
	sort.Strings(names)
	// fromStep: the value is computed from FunctionArgs.StepTime (in a helper: possibly through a parameter
	// whose argument is)
	fromStep := func(val ssa.Value, argOK func(*ssa.Parameter) bool) bool {
		ok := false
		core.BackSlice(val, func(y ssa.Value) bool {
			if n, f2, _, isField := core.FieldRef(y); isField && n != nil && n.Obj().Name() == "FunctionArgs" && f2 == "StepTime" {
				ok = true
			}
			if prm, isParam := y.(*ssa.Parameter); isParam && argOK != nil && argOK(prm) {
				ok = true
			}
			return true
		})
		return ok
	}
	// checkRets examines the samples k returns; a sample built by a package-local helper is examined there
	var checkRets func(k *ssa.Function, argOK func(*ssa.Parameter) bool, depth int) (string, string, int)
	checkRets = func(k *ssa.Function, argOK func(*ssa.Parameter) bool, depth int) (string, string, int) {
		status, detail := core.Held, ""
		nret := 0
		zero, stamped := "", 0
		core.EachInstr(k, func(b *ssa.BasicBlock, i int, ins ssa.Instruction) {
			ret, ok := ins.(*ssa.Return)
			if !ok || len(ret.Results) != 1 || status != core.Held {
				return
			}
			nret++
			for v := range core.PhiClosure(core.RetResults(ret)[0]) {
				if core.IsGlobal(core.GlobalOf(v), "execution/function", "InvalidSample") {
					continue
				}
				if c, isConst := v.(*ssa.Const); isConst && c.Value == nil {
					zero = p.Pos(ret.Pos()) // the zero sample: fine for a placeholder kernel that returns nothing else
					continue
				}
				if call, isCall := v.(*ssa.Call); isCall && depth < 3 {
					h := call.Call.StaticCallee()
					if h != nil && h.Blocks != nil && p.InRepo(h) && types.Identical(h.Signature.Results().At(0).Type(), k.Signature.Results().At(0).Type()) {
						c := call
						st, d, n := checkRets(h, func(prm *ssa.Parameter) bool {
							for ai, hp := range h.Params {
								if hp == prm && ai < len(c.Call.Args) {
									return fromStep(c.Call.Args[ai], argOK)
								}
							}
							return false
						}, depth+1)
						if n == 0 && st == core.Held {
							st, d = core.Undecided, "no return found in helper "+h.Name()
						}
						if st != core.Held {
							status, detail = st, d
							return
						}
						continue
					}
				}
				a, ok := core.Deref(v).(*ssa.Alloc)
				if !ok {
					status, detail = core.Undecided, fmt.Sprintf("returns a value of unrecognised construction %T", v)
					return
				}
				// stores into the literal: find Point.T
				stores, tOK := 0, false
				var walk func(addr ssa.Value)
				walk = func(addr ssa.Value) {
					for _, r := range core.Referrers(addr) {
						switch x := r.(type) {
						case *ssa.FieldAddr:
							walk(x)
						case *ssa.Store:
							if x.Addr != addr {
								continue
							}
							stores++
							if _, f, _, ok := core.FieldRef(addr); ok && f == "T" {
								if fromStep(x.Val, argOK) {
									tOK = true
								}
							}
						}
					}
				}
				walk(a)
				if stores == 0 {
					zero = p.Pos(ret.Pos())
					continue
				}
				stamped++
				if !tOK {
					status, detail = core.Violated, "a result is stamped with something other than the step time (e.g. a sample's own timestamp): range results get off-grid and repeated timestamps"
				}
			}
		})
		// the zero sample is the placeholder of a kernel that is never evaluated (scalar is handled by the
		// operator); next to real results it is a result with timestamp 0
		if status == core.Held && zero != "" && (stamped > 0 || depth > 0) {
			status, detail = core.Violated, "the return at "+zero+" hands back the zero sample (timestamp 0, value 0) where other paths return a stamped sample: it is neither the InvalidSample sentinel ('no result') nor stamped with the step time, so the operator emits a point at timestamp 0"
		}
		return status, detail, nret
	}
	for _, name := range names {
		k := ks[name]
		key := "kernel " + name + " stamps its result with the step time"
		status, detail, nret := checkRets(k, nil, 0)
		if nret == 0 && status == core.Held {
			status, detail = core.Undecided, "no return found"
		}
		obs = append(obs, core.Ob(rule, key, p.Pos(k.Pos()), core.FuncName(k), status, detail))
	}
	return obs
}

func ruleResultCopy(p *core.Program) []core.Obligation {
	const rule = "R-RESULTCOPY"
	var obs []core.Obligation
	fn := p.Func("engine", "compatibilityQuery.Exec")
	if fn == nil {
		return []core.Obligation{core.Ob(rule, "Exec", "-", "", core.Lost, "not found")}
	}
	pooled := func(t types.Type) bool {
		s, ok := t.Underlying().(*types.Slice)
		if !ok {
			return false
		}
		if b, ok := s.Elem().Underlying().(*types.Basic); ok && (b.Kind() == types.Float64 || b.Kind() == types.Uint64) {
			return true
		}
		return core.TypeIs(s.Elem(), modModel, "StepVector")
	}
	bad := ""
	n := 0
	core.EachInstr(fn, func(b *ssa.BasicBlock, i int, ins ssa.Instruction) {
		st, ok := ins.(*ssa.Store)
		if !ok {
			return
		}
		nt, _, _, ok := core.FieldRef(st.Addr)
		if !ok || nt == nil || nt.Obj().Pkg() == nil || nt.Obj().Pkg().Path() != pkgPromql {
			return
		}
		n++
		if pooled(st.Val.Type()) {
			bad = p.Pos(st.Pos())
		}
	})
	key := "(*engine.compatibilityQuery).Exec stores no pooled slice into the result"
	if bad != "" {
		obs = append(obs, core.Ob(rule, key, bad, core.FuncName(fn), core.Violated, "a pooled slice is stored into the result: it is recycled and overwritten by later batches and queries"))
	} else {
		obs = append(obs, core.Ob(rule, key, p.Pos(fn.Pos()), core.FuncName(fn), core.Held, fmt.Sprintf("%d stores into promql result structs, all of scalars/labels", n)))
	}
	// type-level: promql.Point carries no slice
	if pk := p.Deps[pkgPromql]; pk != nil {
		if o := pk.Types.Scope().Lookup("Point"); o != nil {
			st, _ := o.Type().Underlying().(*types.Struct)
			hasSlice := false
			for i := 0; st != nil && i < st.NumFields(); i++ {
				if _, ok := st.Field(i).Type().Underlying().(*types.Slice); ok {
					hasSlice = true
				}
			}
			if hasSlice {
				obs = append(obs, core.Ob(rule, "promql.Point has no slice field", "-", "", core.Violated, "the pinned promql.Point has a slice field"))
			} else {
				obs = append(obs, core.Ob(rule, "promql.Point has no slice field", "-", "", core.Held, "T, V and a histogram pointer only"))
			}
		}
	}
	return obs
}

func init() {
	register(&Rule{ID: "R-EMPTYSERIES", Min: 10, Run: ruleEmptySeries,
		Doc: "no operator announces a constant empty series list (a zero-length literal returned by Series() or stored into the field Series() returns): consumers size their tables from the announced list and every operator kind can emit samples"})
	register(&Rule{ID: "R-TABLETS", Min: 2, Run: ruleTableTimestamp,
		Doc: "every aggregation table records the step's timestamp unconditionally when it aggregates a step vector: the store of vector.T into the table's timestamp dominates every return of aggregate(), so the (possibly empty) result of a step never carries the timestamp of an earlier step"})
	register(&Rule{ID: "R-POINT0", Min: 2, Run: rulePoint0,
		Doc: "in the result assembly every read of Points[0] of a result series is dominated by a length test of that Points slice (an announced series may have no points)"})

	mutant(Mutant{Rule: "R-EMPTYSERIES", Name: "noarg-announces-nothing", File: "execution/function/operator.go",
		Old: "\treturn make([]labels.Labels, 1), nil\n", New: "\treturn []labels.Labels{}, nil\n", Expect: "noArgFunctionOperator"})
	mutant(Mutant{Rule: "R-EMPTYSERIES", Name: "scalar-announces-nothing", File: "execution/function/operator.go",
		Old: "\t\t\to.series = make([]labels.Labels, 1)\n", New: "\t\t\to.series = []labels.Labels{}\n", Expect: "functionOperator"})
	mutant(Mutant{Rule: "R-TABLETS", Name: "vector-table-stale-timestamp", File: "execution/aggregate/vector_table.go",
		Old: "\tt.timestamp = vector.T\n\tif len(vector.SampleIDs) == 0 {\n\t\tt.hasValue = false\n\t\treturn\n\t}\n\tt.hasValue = true\n", New: "\tif len(vector.SampleIDs) == 0 {\n\t\tt.hasValue = false\n\t\treturn\n\t}\n\tt.hasValue = true\n\tt.timestamp = vector.T\n", Expect: "vectorTable"})
	mutant(Mutant{Rule: "R-POINT0", Name: "scalar-result-unguarded", File: "engine/engine.go",
		Old: "if len(series) != 0 && len(series[0].Points) != 0 {", New: "if len(series) != 0 {", Expect: "Exec"})
}

func ruleEmptySeries(p *core.Program) []core.Obligation {
	const rule = "R-EMPTYSERIES"
	var obs []core.Obligation
	isLabelsList := func(t types.Type) bool {
		s, ok := t.Underlying().(*types.Slice)
		return ok && isLabelsType(s.Elem())
	}
	emptyLiteral := func(v ssa.Value) bool {
		switch x := v.(type) {
		case *ssa.Slice:
			if al, ok := x.X.(*ssa.Alloc); ok {
				if arr, ok := al.Type().Underlying().(*types.Pointer).Elem().Underlying().(*types.Array); ok {
					return arr.Len() == 0
				}
			}
		case *ssa.MakeSlice:
			if c, ok := core.ConstInt(x.Len); ok {
				return c == 0 && func() bool { cc, ok := core.ConstInt(x.Cap); return ok && cc == 0 }()
			}
		}
		return false
	}
	for _, fn := range p.Funcs {
		recv := recvNamed(fn)
		if recv == nil {
			continue
		}
		impl := p.Func(core.Rel(recv.Obj().Pkg().Path()), recv.Obj().Name()+".Series")
		if impl == nil || !strings.HasPrefix(core.Rel(recv.Obj().Pkg().Path()), "execution") {
			continue
		}
		core.EachInstr(fn, func(b *ssa.BasicBlock, i int, ins ssa.Instruction) {
			switch x := ins.(type) {
			case *ssa.Return:
				if fn != impl {
					return
				}
				rs := core.RetResults(x)
				if len(rs) == 0 || !isLabelsList(rs[0].Type()) {
					return
				}
				key := fmt.Sprintf("%s.Series return", recv.Obj().Name())
				bad := false
				for v := range core.PhiClosure(rs[0]) {
					if emptyLiteral(v) && core.IsNilConst(rs[len(rs)-1]) {
						bad = true
					}
				}
				if bad {
					obs = append(obs, core.Ob(rule, key, p.Pos(x.Pos()), core.FuncName(fn), core.Violated, "Series() announces a constant empty list while Next() emits samples: the consumer sizes its tables from the announcement (Exec rebuilds its series table for every batch and keeps only the last one)"))
				} else {
					obs = append(obs, core.Ob(rule, key, p.Pos(x.Pos()), core.FuncName(fn), core.Held, ""))
				}
			case *ssa.Store:
				n, f, _, ok := core.FieldRef(x.Addr)
				if !ok || n != recv || !isLabelsList(x.Val.Type()) {
					return
				}
				key := fmt.Sprintf("%s.%s assigned in %s", recv.Obj().Name(), f, fn.Name())
				// an empty initial value that is grown later in the same function is not an announcement
				grown := false
				core.EachInstr(fn, func(b2 *ssa.BasicBlock, i2 int, y ssa.Instruction) {
					if st2, ok := y.(*ssa.Store); ok && st2 != x && core.SameExpr(st2.Addr, x.Addr) && (core.Reaches(x.Block(), st2.Block()) || (st2.Block() == x.Block() && core.InstrIndex(st2) > core.InstrIndex(x))) {
						grown = true
					}
				})
				// ... or by a method of the same type that this function calls afterwards (the look-up-or-append
				// of an output series moved into a helper)
				if !grown {
					core.EachInstr(fn, func(b2 *ssa.BasicBlock, i2 int, y ssa.Instruction) {
						c, ok := y.(*ssa.Call)
						if !ok || grown {
							return
						}
						if !(core.Reaches(x.Block(), c.Block()) || (c.Block() == x.Block() && core.InstrIndex(c) > core.InstrIndex(x))) {
							return
						}
						callee := c.Call.StaticCallee()
						if callee == nil || callee.Blocks == nil || recvNamed(callee) != recv {
							return
						}
						core.EachInstr(callee, func(_ *ssa.BasicBlock, _ int, z ssa.Instruction) {
							st3, ok := z.(*ssa.Store)
							if !ok {
								return
							}
							if n3, f3, _, ok := core.FieldRef(st3.Addr); ok && n3 == recv && f3 == f {
								if ac, isCall := st3.Val.(*ssa.Call); isCall {
									if bi, ok := ac.Call.Value.(*ssa.Builtin); ok && bi.Name() == "append" {
										grown = true
									}
								}
							}
						})
					})
				}
				if emptyLiteral(x.Val) && !grown {
					obs = append(obs, core.Ob(rule, key, p.Pos(x.Pos()), core.FuncName(fn), core.Violated, "the announced series list is set to a constant empty list on this path while the operator still emits samples on it"))
				} else {
					obs = append(obs, core.Ob(rule, key, p.Pos(x.Pos()), core.FuncName(fn), core.Held, ""))
				}
			}
		})
	}
	return obs
}

func ruleTableTimestamp(p *core.Program) []core.Obligation {
	const rule = "R-TABLETS"
	var obs []core.Obligation
	for _, tn := range []string{"scalarTable", "vectorTable"} {
		fn := p.Func("execution/aggregate", tn+".aggregate")
		key := tn + ".aggregate records the step timestamp unconditionally"
		if fn == nil {
			obs = append(obs, core.Ob(rule, key, "-", "", core.Lost, "method not found"))
			continue
		}
		var store ssa.Instruction
		core.EachInstr(fn, func(b *ssa.BasicBlock, i int, ins ssa.Instruction) {
			st, ok := ins.(*ssa.Store)
			if !ok {
				return
			}
			if n, f, _, ok := core.FieldRef(st.Addr); ok && n != nil && n.Obj().Name() == tn && f == "timestamp" {
				fromT := false
				core.BackSlice(st.Val, func(v ssa.Value) bool {
					if _, f2, _, ok := core.FieldRef(v); ok && f2 == "T" {
						fromT = true
					}
					return true
				})
				if fromT && (store == nil || core.InstrDominates(st, store)) {
					store = st
				}
			}
		})
		if store != nil && allReturnsAfter(fn, store) {
			obs = append(obs, core.Ob(rule, key, p.Pos(store.Pos()), core.FuncName(fn), core.Held, "the store dominates every return"))
		} else {
			obs = append(obs, core.Ob(rule, key, p.Pos(fn.Pos()), core.FuncName(fn), core.Violated, "the table's timestamp is only set on paths that saw a sample: the empty result of a step without input is stamped with an earlier step's time"))
		}
	}
	return obs
}

func rulePoint0(p *core.Program) []core.Obligation {
	const rule = "R-POINT0"
	var obs []core.Obligation
	for _, fn := range p.Funcs {
		if core.Rel(fn.Pkg.Pkg.Path()) != "engine" {
			continue
		}
		k := 0
		core.EachInstr(fn, func(b *ssa.BasicBlock, i int, ins ssa.Instruction) {
			ia, ok := ins.(*ssa.IndexAddr)
			if !ok {
				return
			}
			if c, ok := core.ConstInt(ia.Index); !ok || c != 0 {
				return
			}
			a := core.Deref(ia.X)
			if a == nil {
				return
			}
			if _, f, _, ok := core.FieldRef(a); !ok || f != "Points" {
				return
			}
			k++
			key := fmt.Sprintf("%s reads Points[0] #%d", core.FuncName(fn), k)
			if lenGuarded(fn, ia.X, ia) {
				obs = append(obs, core.Ob(rule, key, p.Pos(ia.Pos()), core.FuncName(fn), core.Held, "behind a length test of the same Points"))
			} else {
				obs = append(obs, core.Ob(rule, key, p.Pos(ia.Pos()), core.FuncName(fn), core.Violated, "Points[0] of a result series is read without a length test: a series that was announced but received no sample makes the result assembly panic"))
			}
		})
	}
	return obs
}

func init() {
	register(&Rule{ID: "R-OUTALIAS", Min: 1, Run: ruleOutAlias,
		Doc: "a step vector that an operator hands out never shares its Samples/SampleIDs slices with the operator's own long-lived state: consumers transform vectors in place and recycle them into pools (ownership passes with the batch), so output slices are filled by append/copy"})
	register(&Rule{ID: "R-SLABCAP", Min: 1, Run: ruleSlabCap,
		Doc: "a sub-slice of a buffer allocated in the same function that is kept (stored into a field or element) inside a loop carries an explicit capacity (three-index slice): otherwise neighbouring sub-slices share spare capacity and an append into one overwrites the next"})
	register(&Rule{ID: "R-HASHSAME", Min: 1, Run: ruleHashSame,
		Doc: "where an operator de-duplicates its output series by hashing a label set, the label set appended to the announced series list is the very value that was hashed: the identity key of an output series is computed from its output labels"})

	mutant(Mutant{Rule: "R-OUTALIAS", Name: "step-invariant-shares-cache", File: "execution/step_invariant/step_invariant.go",
		Old: "\t\toutVector.Samples = append(outVector.Samples, u.cachedVector.Samples...)\n\t\toutVector.SampleIDs = append(outVector.SampleIDs, u.cachedVector.SampleIDs...)\n", New: "\t\toutVector.Samples = u.cachedVector.Samples\n\t\toutVector.SampleIDs = u.cachedVector.SampleIDs\n", Expect: "stepInvariantOperator"})
	mutant(Mutant{Rule: "R-SLABCAP", Name: "window-buffers-from-one-slab", File: "execution/scan/matrix_selector.go",
		Old: "\t\tfor i, s := range series {\n\t\t\tlbls := s.Labels()\n\t\t\tif o.funcExpr.Func.Name != \"last_over_time\" {", New: "\t\tpoints := make([]promql.Point, len(series)*8)\n\t\tfor i, s := range series {\n\t\t\to.scanners[i].previousPoints = points[i*8 : i*8]\n\t\t\tlbls := s.Labels()\n\t\t\tif o.funcExpr.Func.Name != \"last_over_time\" {", Expect: "matrixSelector"})
	mutant(Mutant{Rule: "R-HASHSAME", Name: "name-dropped-after-hash", File: "execution/function/histogram.go",
		Old: "\t\tif !ok {\n\t\t\to.series = append(o.series, lbls)", New: "\t\tif !ok {\n\t\t\tlbls, _ = DropMetricName(lbls)\n\t\t\to.series = append(o.series, lbls)", Expect: "histogramOperator"})
}

// rootedAtReceiver reports whether the access path of v starts at the method's receiver.
func rootedAtReceiver(fn *ssa.Function, v ssa.Value) bool {
	if len(fn.Params) == 0 || fn.Signature.Recv() == nil {
		return false
	}
	recv := ssa.Value(fn.Params[0])
	for d := 0; d < 10 && v != nil; d++ {
		if v == recv {
			return true
		}
		switch x := v.(type) {
		case *ssa.UnOp:
			if x.Op != token.MUL {
				return false
			}
			v = x.X
		case *ssa.FieldAddr:
			v = x.X
		case *ssa.Field:
			v = x.X
		case *ssa.IndexAddr:
			v = x.X
		case *ssa.Slice:
			v = x.X
		case *ssa.Alloc:
			// the receiver spilled into a local because a closure captures it
			for _, r := range core.Referrers(x) {
				if st, ok := r.(*ssa.Store); ok && st.Addr == ssa.Value(x) && st.Val == recv {
					return true
				}
			}
			return false
		case *ssa.FreeVar:
			// inside a closure of the method: the captured receiver
			par := fn.Parent()
			_ = par
			return false
		default:
			return false
		}
	}
	return false
}

func ruleOutAlias(p *core.Program) []core.Obligation {
	const rule = "R-OUTALIAS"
	var obs []core.Obligation
	n := 0
	for _, fn := range p.Funcs {
		if !strings.HasPrefix(core.Rel(fn.Pkg.Pkg.Path()), "execution") || fn.Signature.Recv() == nil {
			continue
		}
		core.EachInstr(fn, func(b *ssa.BasicBlock, i int, ins ssa.Instruction) {
			st, ok := ins.(*ssa.Store)
			if !ok {
				return
			}
			f, base, ok := stepVectorField(st.Addr)
			if !ok || rootedAtReceiver(fn, base) {
				return
			}
			n++
			if rootedAtReceiver(fn, st.Val) {
				recv := recvNamed(fn)
				obs = append(obs, core.Ob(rule, fmt.Sprintf("%s.%s hands out operator state as %s", recv.Obj().Name(), fn.Name(), f), p.Pos(st.Pos()), core.FuncName(fn), core.Violated,
					"the output step vector's "+f+" is the operator's own slice, not a copy: a consumer that transforms the batch in place or recycles it into a pool corrupts the operator's state for all later steps"))
			}
		})
	}
	obs = append(obs, core.Ob(rule, "output step vectors are filled by append/copy", "-", "", core.Held, fmt.Sprintf("%d stores into Samples/SampleIDs of non-state step vectors examined", n)))
	return obs
}

func ruleSlabCap(p *core.Program) []core.Obligation {
	const rule = "R-SLABCAP"
	var obs []core.Obligation
	n := 0
	for _, fn := range p.Funcs {
		depth := core.LoopDepth(fn)
		core.EachInstr(fn, func(b *ssa.BasicBlock, i int, ins ssa.Instruction) {
			sl, ok := ins.(*ssa.Slice)
			if !ok || sl.Max != nil || (sl.Low == nil && sl.High == nil) {
				return
			}
			if _, isSlice := sl.X.Type().Underlying().(*types.Slice); !isSlice {
				return
			}
			// base allocated in this function (or its enclosing function for closures)
			local := false
			for v := range core.PhiClosure(sl.X) {
				if _, ok := v.(*ssa.MakeSlice); ok {
					local = true
				}
			}
			if !local || depth[b] == 0 {
				return
			}
			n++
			keptAt := ""
			for _, r := range core.Referrers(sl) {
				if st, ok := r.(*ssa.Store); ok && st.Val == ssa.Value(sl) {
					switch st.Addr.(type) {
					case *ssa.FieldAddr, *ssa.IndexAddr:
						keptAt = p.Pos(st.Pos())
					}
				}
			}
			if keptAt != "" {
				recv := "func"
				if r := recvNamed(fn); r != nil {
					recv = r.Obj().Name()
				}
				obs = append(obs, core.Ob(rule, fmt.Sprintf("%s %s keeps sub-slices of one allocation", recv, fn.Name()), keptAt, core.FuncName(fn), core.Violated,
					"sub-slices of one buffer are kept as independent buffers without a capacity limit (use buf[a:b:b]): appending to one writes into its neighbour, so results depend on how series are distributed over shards"))
			}
		})
	}
	obs = append(obs, core.Ob(rule, "no kept two-index sub-slice of a local allocation in a loop", "-", "", core.Held, fmt.Sprintf("%d candidate slice expressions examined", n)))
	return obs
}

func ruleHashSame(p *core.Program) []core.Obligation {
	const rule = "R-HASHSAME"
	var obs []core.Obligation
	isHashCall := func(c *ssa.CallCommon) bool {
		switch core.CalleeName(c) {
		case "(" + pkgLabels + ".Labels).Bytes", "(" + pkgLabels + ".Labels).Hash":
			return true
		}
		return false
	}
	// hashing helpers: repository functions that hash one of their label-set parameters (index of the argument)
	hashers := map[*ssa.Function]int{}
	for round := 0; round < 3; round++ {
		for _, fn := range p.Funcs {
			if _, done := hashers[fn]; done || fn.Parent() != nil {
				continue
			}
			f := fn
			core.EachInstr(fn, func(_ *ssa.BasicBlock, _ int, ins ssa.Instruction) {
				call, ok := ins.(*ssa.Call)
				if !ok {
					return
				}
				var hashedArg ssa.Value
				if isHashCall(&call.Call) {
					hashedArg = call.Call.Args[0]
				} else if idx, ok := hashers[call.Call.StaticCallee()]; ok && idx < len(call.Call.Args) {
					hashedArg = call.Call.Args[idx]
				}
				for i, prm := range f.Params {
					if hashedArg == prm {
						hashers[f] = i
					}
				}
			})
		}
	}
	for _, fn := range p.Funcs {
		if !strings.HasPrefix(core.Rel(fn.Pkg.Pkg.Path()), "execution") {
			continue
		}
		var hashed []ssa.Value
		var appended []ssa.Value
		var pos token.Pos
		core.EachInstr(fn, func(b *ssa.BasicBlock, i int, ins ssa.Instruction) {
			call, ok := ins.(*ssa.Call)
			if !ok {
				return
			}
			if isHashCall(&call.Call) {
				hashed = append(hashed, call.Call.Args[0])
			} else if idx, ok := hashers[call.Call.StaticCallee()]; ok && idx < len(call.Call.Args) {
				hashed = append(hashed, call.Call.Args[idx])
			}
			if bi, ok := call.Call.Value.(*ssa.Builtin); ok && bi.Name() == "append" {
				if s, ok := call.Type().Underlying().(*types.Slice); ok && isLabelsType(s.Elem()) {
					// the appended element(s): stores into the varargs array
					if vs, ok := call.Call.Args[1].(*ssa.Slice); ok {
						if al, ok := vs.X.(*ssa.Alloc); ok {
							for _, r := range core.Referrers(al) {
								if ia, ok := r.(*ssa.IndexAddr); ok {
									for _, rr := range core.Referrers(ia) {
										if st, ok := rr.(*ssa.Store); ok {
											appended = append(appended, st.Val)
											pos = st.Pos()
										}
									}
								}
							}
						}
					}
				}
			}
		})
		if len(hashed) == 0 || len(appended) == 0 {
			continue
		}
		recv := "func"
		if r := recvNamed(fn); r != nil {
			recv = r.Obj().Name()
		}
		key := fmt.Sprintf("%s.%s hashes the label set it announces", recv, fn.Name())
		ok := true
		for _, a := range appended {
			match := false
			for _, h := range hashed {
				if a == h {
					match = true
				}
			}
			if !match {
				ok = false
			}
		}
		if ok {
			obs = append(obs, core.Ob(rule, key, p.Pos(pos), core.FuncName(fn), core.Held, "the appended label set is the hashed value"))
		} else {
			obs = append(obs, core.Ob(rule, key, p.Pos(pos), core.FuncName(fn), core.Violated, "the label set appended to the series list is not the value that was hashed to decide whether it is new: two input series whose output labels coincide get separate, identically labelled output series"))
		}
	}
	return obs
}

// overwrittenUnobserved follows an error value forward along every CFG path. If on some path the value
// dies at a phi that selects a different value (the variable was re-assigned) before any instruction has
// used it, the block where that happens is returned.
func overwrittenUnobserved(e ssa.Value) *ssa.BasicBlock {
	def, ok := e.(ssa.Instruction)
	if !ok {
		return nil
	}
	type state struct {
		b     *ssa.BasicBlock
		alias ssa.Value
	}
	seen := map[state]bool{}
	var bad *ssa.BasicBlock
	usedIn := func(b *ssa.BasicBlock, from int, alias ssa.Value) bool {
		for _, ins := range b.Instrs[from:] {
			if _, isPhi := ins.(*ssa.Phi); isPhi {
				continue
			}
			var ops []*ssa.Value
			for _, op := range ins.Operands(ops) {
				if op != nil && *op == alias {
					if _, dbg := ins.(*ssa.DebugRef); dbg {
						continue
					}
					return true
				}
			}
		}
		return false
	}
	var walk func(b *ssa.BasicBlock, from int, alias ssa.Value)
	walk = func(b *ssa.BasicBlock, from int, alias ssa.Value) {
		if bad != nil {
			return
		}
		if usedIn(b, from, alias) {
			return
		}
		for _, s := range b.Succs {
			// which incoming edge of s is b
			idx := -1
			for k, pr := range s.Preds {
				if pr == b {
					idx = k
				}
			}
			next := alias
			killed := false
			for _, ins := range s.Instrs {
				phi, ok := ins.(*ssa.Phi)
				if !ok {
					break
				}
				if idx >= 0 && phi.Edges[idx] == alias {
					next = phi
				} else if idx >= 0 && phiMerges(phi, alias) {
					// the same variable takes another value on this edge: the error we follow is dead here
					killed = true
				}
			}
			if killed && next == alias {
				bad = s
				return
			}
			st := state{s, next}
			if seen[st] {
				continue
			}
			seen[st] = true
			walk(s, 0, next)
		}
	}
	walk(def.Block(), core.InstrIndex(def)+1, e)
	return bad
}

// phiMerges reports whether alias is one of the values phi merges (on some other edge).
func phiMerges(phi *ssa.Phi, alias ssa.Value) bool {
	for _, e := range phi.Edges {
		if e == alias {
			return true
		}
	}
	return false
}

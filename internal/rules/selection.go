package rules

import (
	"fmt"
	"go/token"
	"go/types"
	"sort"
	"strings"

	"golang.org/x/tools/go/ssa"

	"verif/internal/core"
)

func init() {
	register(&Rule{ID: "R-STALE", Min: 2, Run: ruleStale,
		Doc: "every float sample obtained from a storage iterator (At/PeekPrev) in execution/... reaches an emission (a success return, a promql.Point, an appended sample) only on the not-stale branch of a value.IsStaleNaN test of that very value; a raw sample that an unexported helper hands back to its callers, or that is passed to a function of the execution packages, is followed there"})
	register(&Rule{ID: "R-LOOKBACK", Min: 2, Run: ruleLookback,
		Doc: "in each engine entry that takes *promql.QueryOpts and calls execution.New, the lookback argument depends on opts.LookbackDelta and on the engine-wide delta"})
	register(&Rule{ID: "R-SHARD", Min: 2, Run: ruleShard,
		Doc: "each site constructing shard operators passes (i, n) with i the induction variable of a loop from 0, step 1, bounded by < the same n that is passed as shard count, n >= 1 established by a guard; the constant site passes (0, 1)"})
	register(&Rule{ID: "R-TRUNCDIV", Min: 6, Run: ruleTruncDiv,
		Doc: "no integer quotient is converted to float in the function kernels (truncation before conversion); conversions convert first and divide afterwards"})
	register(&Rule{ID: "R-ATOFFSET", Min: 3, Run: ruleAtOffset,
		Doc: "every selector operator is constructed with the selector's Offset field (into which the @ modifier was folded), never OriginalOffset; the select time range uses OriginalOffset together with Timestamp like the reference"})
	register(&Rule{ID: "R-ITERERR", Min: 2, Run: ruleIterErr,
		Doc: "every Seek/Next on a storage-backed sample iterator distinguishes exhaustion from failure: on the ValNone outcome Err() of the same iterator is consulted and returned"})
	register(&Rule{ID: "R-SETERR", Min: 1, Run: ruleSetErr,
		Doc: "every return that is reachable after iterating a storage.SeriesSet returns the set's Err()"})
	register(&Rule{ID: "R-QUERIER", Min: 2, Run: ruleQuerier,
		Doc: "every storage querier opened is closed by a defer placed right after the error check, Close is called nowhere else, and no querier/select is reachable from query creation"})

	mutant(Mutant{Rule: "R-STALE", Name: "stale-check-only-on-lookback-path", File: "execution/scan/vector_selector.go",
		Old: "\tif value.IsStaleNaN(v) {\n\t\treturn 0, 0, false, nil\n\t}\n\treturn t, v, true, nil", New: "\tif valueType == chunkenc.ValNone && value.IsStaleNaN(v) {\n\t\treturn 0, 0, false, nil\n\t}\n\treturn t, v, true, nil", Expect: "instant-vector sample"})
	mutant(Mutant{Rule: "R-STALE", Name: "sought-sample-unchecked", File: "execution/scan/matrix_selector.go",
		Old: "if t == maxt && !value.IsStaleNaN(v) {", New: "if t == maxt {", Expect: "range-vector sample"})
	mutant(Mutant{Rule: "R-LOOKBACK", Name: "per-query-delta-ignored", File: "engine/engine.go",
		Old: "exec, err := execution.New(lplan.Expr(), q, start, end, step, e.getLookbackDelta(opts))", New: "exec, err := execution.New(lplan.Expr(), q, start, end, step, e.lookbackDelta)", Expect: "NewRangeQuery"})
	mutant(Mutant{Rule: "R-LOOKBACK", Name: "unset-per-query-delta-is-zero", File: "engine/engine.go",
		Old: "if opts != nil && opts.LookbackDelta > 0 {", New: "if opts != nil {", Expect: "NewInstantQuery"})
	mutant(Mutant{Rule: "R-SHARD", Name: "first-shard-skipped", File: "execution/execution.go",
		Old: "for i := 0; i < numShards; i++ {\n\t\toperator := exchange.NewConcurrent(\n\t\t\tscan.NewVectorSelector(", New: "for i := 1; i < numShards; i++ {\n\t\toperator := exchange.NewConcurrent(\n\t\t\tscan.NewVectorSelector(", Expect: "newShardedVectorSelector"})
	mutant(Mutant{Rule: "R-SHARD", Name: "no-minimum-shard", File: "execution/execution.go",
		Old: "\tnumShards := runtime.GOMAXPROCS(0) / 2\n\tif numShards < 1 {\n\t\tnumShards = 1\n\t}\n\toperators := make([]model.VectorOperator, 0, numShards)\n\tfor i := 0; i < numShards; i++ {\n\t\toperator := exchange.NewConcurrent(\n\t\t\tscan.NewVectorSelector(",
		New: "\tnumShards := runtime.GOMAXPROCS(0) / 2\n\toperators := make([]model.VectorOperator, 0, numShards)\n\tfor i := 0; i < numShards; i++ {\n\t\toperator := exchange.NewConcurrent(\n\t\t\tscan.NewVectorSelector(", Expect: "newShardedVectorSelector"})
	mutant(Mutant{Rule: "R-TRUNCDIV", Name: "range-truncated", File: "execution/function/functions.go",
		Old: "factor /= float64(selectRange) / 1000", New: "factor /= float64(selectRange / 1000)", Expect: "extrapolatedRate"})
	mutant(Mutant{Rule: "R-ATOFFSET", Name: "filtered-selector-original-offset", File: "execution/execution.go",
		Old: "return newShardedVectorSelector(selector, opts, e.Offset)", New: "return newShardedVectorSelector(selector, opts, e.OriginalOffset)", Expect: "newShardedVectorSelector"})
	mutant(Mutant{Rule: "R-ITERERR", Name: "seek-error-dropped", File: "execution/scan/vector_selector.go",
		Old: "\tcase chunkenc.ValNone:\n\t\tif it.Err() != nil {\n\t\t\treturn 0, 0, false, it.Err()\n\t\t}\n", New: "\tcase chunkenc.ValNone:\n", Expect: "selectPoint"})
	mutant(Mutant{Rule: "R-SETERR", Name: "set-error-dropped", File: "execution/storage/series_selector.go",
		Old: "\treturn seriesSet.Err()", New: "\treturn nil", Expect: "loadSeries"})
	mutant(Mutant{Rule: "R-QUERIER", Name: "close-not-deferred", File: "execution/storage/series_selector.go",
		Old: "\tdefer querier.Close()\n", New: "", Expect: "loadSeries"})
}

// isIterAt reports whether c reads a sample from a storage iterator and returns the index of the float
// result and the kind of selection the iterator serves.
func isIterAt(c *ssa.CallCommon) (floatIdx int, kind string, ok bool) {
	if c.IsInvoke() {
		if core.InvokeOf(c, pkgChunkenc, "Iterator", "At") {
			kind = "iterator"
			if call, isCall := c.Value.(*ssa.Call); isCall && core.CalleeName(&call.Call) == "(*"+pkgStorage+".BufferedSeriesIterator).Buffer" {
				kind = "range-vector"
			}
			return 1, kind, true
		}
		return 0, "", false
	}
	switch core.CalleeName(c) {
	case "(*" + pkgStorage + ".MemoizedSeriesIterator).At", "(*" + pkgStorage + ".MemoizedSeriesIterator).PeekPrev":
		return 1, "instant-vector", true
	case "(*" + pkgStorage + ".BufferedSeriesIterator).At", "(*" + pkgStorage + ".BufferedSeriesIterator).PeekBack":
		return 1, "range-vector", true
	}
	return 0, "", false
}

func ruleStale(p *core.Program) []core.Obligation {
	// The rule follows a raw sample out of package-local helpers (an unexported function that hands the
	// sample back to its callers: the callers' uses are checked) and into them (a raw sample passed as
	// an argument: the helper's uses of the parameter are checked), to a fixpoint.
	taken := addressTaken(p)
	retTaint := map[*ssa.Function]map[int]string{}
	paramTaint := map[*ssa.Function]map[*ssa.Parameter]string{}
	var obs []core.Obligation
	for round := 0; round < 8; round++ {
		var changed bool
		obs, changed = staleRound(p, taken, retTaint, paramTaint)
		if !changed {
			break
		}
	}
	return obs
}

// addressTaken: functions used as values (not only called directly).
func addressTaken(p *core.Program) map[*ssa.Function]bool {
	out := map[*ssa.Function]bool{}
	for _, fn := range p.Funcs {
		core.EachInstr(fn, func(_ *ssa.BasicBlock, _ int, ins ssa.Instruction) {
			cc := core.CallCommon(ins)
			for _, op := range ins.Operands(nil) {
				if op == nil || *op == nil {
					continue
				}
				f, ok := (*op).(*ssa.Function)
				if !ok {
					continue
				}
				if cc != nil && cc.Value == f {
					continue
				}
				out[f] = true
			}
		})
	}
	return out
}

func staleRound(p *core.Program, taken map[*ssa.Function]bool, retTaint map[*ssa.Function]map[int]string, paramTaint map[*ssa.Function]map[*ssa.Parameter]string) ([]core.Obligation, bool) {
	const rule = "R-STALE"
	var obs []core.Obligation
	changed := false
	isHelper := func(fn *ssa.Function) bool {
		return fn.Parent() == nil && !token.IsExported(fn.Name()) && !taken[fn] && len(p.CallSitesOf(fn)) > 0
	}
	for _, fn := range p.Funcs {
		if !strings.HasPrefix(core.Rel(fn.Pkg.Pkg.Path()), "execution") {
			continue
		}
		// sources: float results of iterator reads, raw samples handed back by helpers, raw samples received
		sources := map[ssa.Value]string{}
		core.EachInstr(fn, func(b *ssa.BasicBlock, i int, ins ssa.Instruction) {
			call, ok := ins.(*ssa.Call)
			if !ok {
				return
			}
			if idx, kind, ok := isIterAt(&call.Call); ok {
				for _, r := range core.Referrers(call) {
					if ex, ok := r.(*ssa.Extract); ok && ex.Index == idx {
						sources[ex] = kind
					}
				}
				return
			}
			if callee := call.Call.StaticCallee(); callee != nil && len(retTaint[callee]) > 0 {
				if callee.Signature.Results().Len() == 1 {
					sources[call] = retTaint[callee][0]
					return
				}
				for _, r := range core.Referrers(call) {
					if ex, ok := r.(*ssa.Extract); ok && retTaint[callee][ex.Index] != "" {
						sources[ex] = retTaint[callee][ex.Index]
					}
				}
			}
		})
		for prm, kind := range paramTaint[fn] {
			sources[prm] = kind
		}
		if len(sources) == 0 {
			continue
		}
		// value class: sources plus every phi fed by a member
		class := map[ssa.Value]bool{}
		var work []ssa.Value
		kinds := map[string]bool{}
		for s, k := range sources {
			class[s] = true
			kinds[k] = true
			work = append(work, s)
		}
		kind := "iterator"
		if len(kinds) == 1 {
			for k := range kinds {
				kind = k
			}
		}
		for len(work) > 0 {
			v := work[len(work)-1]
			work = work[:len(work)-1]
			for _, r := range core.Referrers(v) {
				if phi, ok := r.(*ssa.Phi); ok && !class[phi] {
					class[phi] = true
					work = append(work, phi)
				}
			}
		}
		// guards: If blocks testing IsStaleNaN(x) with x in class; remember which successor is "not stale"
		type guard struct {
			blk  *ssa.BasicBlock
			succ int
			arg  ssa.Value
		}
		var guards []guard
		for _, b := range fn.Blocks {
			iff := core.IfOf(b)
			if iff == nil {
				continue
			}
			cond, neg := core.StripNot(iff.Cond)
			call, ok := cond.(*ssa.Call)
			if !ok || !core.IsStatic(&call.Call, pkgValue+".IsStaleNaN") {
				continue
			}
			succ := 1 // false successor = not stale
			if neg {
				succ = 0
			}
			guards = append(guards, guard{b, succ, call.Call.Args[0]})
		}
		guarded := func(v ssa.Value, at *ssa.BasicBlock) bool {
			for _, g := range guards {
				if !core.BranchDominates(g.blk, g.succ, at) {
					continue
				}
				if g.arg == v {
					return true
				}
				// the guard tests a phi that merges v (or v merges only what the guard tests)
				if cl := core.PhiClosure(g.arg); cl[v] {
					return true
				}
				vc := core.PhiClosure(v)
				all := len(vc) > 0
				for x := range vc {
					if !core.PhiClosure(g.arg)[x] {
						all = false
					}
				}
				if all {
					return true
				}
			}
			return false
		}
		// sinks
		var members []ssa.Value
		for v := range class {
			members = append(members, v)
		}
		sort.Slice(members, func(i, j int) bool {
			return members[i].Pos() < members[j].Pos() || members[i].Pos() == members[j].Pos() && members[i].Name() < members[j].Name()
		})
		for _, v := range members {
			for _, r := range core.Referrers(v) {
				var what string
				handedOn := ""
				switch x := r.(type) {
				case *ssa.Return:
					// a success return: some bool result is the constant true, or no bool result at all
					success := true
					for _, res := range core.RetResults(x) {
						if c, ok := res.(*ssa.Const); ok && c.Value != nil && types.Identical(c.Type().Underlying(), types.Typ[types.Bool]) {
							success = c.Value.String() == "true"
						}
					}
					if !success {
						continue
					}
					what = "success return"
					if isHelper(fn) && !guarded(v, r.Block()) {
						for j, res := range core.RetResults(x) {
							if res == v {
								if retTaint[fn] == nil {
									retTaint[fn] = map[int]string{}
								}
								if retTaint[fn][j] == "" {
									retTaint[fn][j] = kind
									changed = true
								}
							}
						}
						handedOn = "handed back to the callers of this package-local helper, whose uses of the result are checked"
					}
				case *ssa.Store:
					if x.Val != v {
						continue
					}
					if core.IsFieldOf(x.Addr, pkgPromql, "Point", "V") {
						what = "promql.Point.V"
					} else {
						what = "store to " + core.ShortType(x.Addr.Type())
					}
				case *ssa.Call:
					if core.IsStatic(&x.Call, pkgValue+".IsStaleNaN") {
						continue
					}
					what = "argument of " + strings.ReplaceAll(core.CalleeName(&x.Call), core.Module+"/", "")
					if callee := x.Call.StaticCallee(); callee != nil && callee.Blocks != nil && p.InRepo(callee) && !guarded(v, r.Block()) &&
						strings.HasPrefix(core.Rel(callee.Pkg.Pkg.Path()), "execution") {
						for ai, a := range x.Call.Args {
							if a == v && ai < len(callee.Params) {
								prm := callee.Params[ai]
								if paramTaint[callee] == nil {
									paramTaint[callee] = map[*ssa.Parameter]string{}
								}
								if paramTaint[callee][prm] == "" {
									paramTaint[callee][prm] = kind
									changed = true
								}
								handedOn = "passed to a function of the execution packages, whose uses of the parameter are checked"
							}
						}
					}
				case *ssa.Phi, *ssa.DebugRef:
					continue
				case *ssa.BinOp:
					continue // comparisons and arithmetic on the value do not emit it
				default:
					what = fmt.Sprintf("%T", r)
				}
				key := fmt.Sprintf("%s emits %s sample via %s", core.FuncName(fn), kind, what)
				switch {
				case guarded(v, r.Block()):
					obs = append(obs, core.Ob(rule, key, p.Pos(r.Pos()), core.FuncName(fn), core.Held, "dominated by the not-stale branch of IsStaleNaN on the same value"))
				case handedOn != "":
					obs = append(obs, core.Ob(rule, key, p.Pos(r.Pos()), core.FuncName(fn), core.Held, handedOn))
				default:
					obs = append(obs, core.Ob(rule, key, p.Pos(r.Pos()), core.FuncName(fn), core.Violated, "the sample can reach this emission without passing a staleness test: a staleness marker would be returned as a value"))
				}
			}
		}
	}
	return obs, changed
}

// fieldLoadsIn collects the (type.field) names loaded in the backward slice of v, following static
// repo callees' return values (depth-limited) with parameters bound to the call's arguments.
func fieldLoadsIn(p *core.Program, v ssa.Value, depth int, out map[string]bool, bind map[*ssa.Parameter]ssa.Value) {
	core.BackSlice(v, func(x ssa.Value) bool {
		if n, f, _, ok := core.FieldRef(x); ok && n != nil {
			out[n.Obj().Name()+"."+f] = true
		}
		// an ordered comparison of a field load with the constant 0
		if bo, ok := x.(*ssa.BinOp); ok && (bo.Op == token.GTR || bo.Op == token.LEQ || bo.Op == token.LSS || bo.Op == token.GEQ) {
			for _, pair := range [][2]ssa.Value{{bo.X, bo.Y}, {bo.Y, bo.X}} {
				if c, ok := core.ConstInt(pair[1]); ok && c == 0 {
					if l := core.Deref(pair[0]); l != nil {
						if n, f, _, ok := core.FieldRef(l); ok && n != nil {
							out["cmp0:"+n.Obj().Name()+"."+f] = true
						}
					}
				}
			}
		}
		if pr, ok := x.(*ssa.Parameter); ok {
			out["param:"+pr.Name()] = true
			if b, ok := bind[pr]; ok {
				fieldLoadsIn(p, b, depth, out, nil)
			}
		}
		if call, ok := x.(*ssa.Call); ok && depth > 0 {
			if callee := call.Call.StaticCallee(); callee != nil && p.InRepo(callee) && callee.Blocks != nil {
				nb := map[*ssa.Parameter]ssa.Value{}
				for i, pr := range callee.Params {
					if i < len(call.Call.Args) {
						nb[pr] = call.Call.Args[i]
					}
				}
				for _, b := range callee.Blocks {
					for _, ins := range b.Instrs {
						if ret, ok := ins.(*ssa.Return); ok {
							for _, res := range core.RetResults(ret) {
								fieldLoadsIn(p, res, depth-1, out, nb)
							}
							// conditions that decide between returns
						}
						if iff, ok := ins.(*ssa.If); ok {
							fieldLoadsIn(p, iff.Cond, depth-1, out, nb)
						}
					}
				}
			}
		}
		return true
	})
}

func ruleLookback(p *core.Program) []core.Obligation {
	const rule = "R-LOOKBACK"
	var obs []core.Obligation
	for _, fn := range p.Funcs {
		if core.Rel(fn.Pkg.Pkg.Path()) != "engine" {
			continue
		}
		var opts *ssa.Parameter
		for _, pr := range fn.Params {
			if core.TypeIs(pr.Type(), pkgPromql, "QueryOpts") {
				opts = pr
			}
		}
		core.EachInstr(fn, func(b *ssa.BasicBlock, i int, ins ssa.Instruction) {
			cc := core.CallCommon(ins)
			if cc == nil || !core.IsStatic(cc, modExecution+".New") {
				return
			}
			key := core.FuncName(fn) + " -> execution.New lookbackDelta"
			if opts == nil {
				obs = append(obs, core.Ob(rule, key, p.Pos(ins.Pos()), core.FuncName(fn), core.Undecided, "entry has no *promql.QueryOpts parameter"))
				return
			}
			arg := cc.Args[len(cc.Args)-1]
			loads := map[string]bool{}
			fieldLoadsIn(p, arg, 2, loads, nil)
			switch {
			case !loads["QueryOpts.LookbackDelta"] || !loads["param:"+opts.Name()]:
				obs = append(obs, core.Ob(rule, key, p.Pos(ins.Pos()), core.FuncName(fn), core.Violated, "the lookback delta handed to the plan does not depend on opts.LookbackDelta: a per-query lookback delta is ignored on the native path"))
			case !loads["cmp0:QueryOpts.LookbackDelta"]:
				obs = append(obs, core.Ob(rule, key, p.Pos(ins.Pos()), core.FuncName(fn), core.Violated, "opts.LookbackDelta is used without testing that it is positive: non-nil options that leave the lookback unset (zero) select with lookback 0 instead of the engine's delta"))
			case !loads["compatibilityEngine.lookbackDelta"]:
				obs = append(obs, core.Ob(rule, key, p.Pos(ins.Pos()), core.FuncName(fn), core.Violated, "the lookback delta handed to the plan does not depend on the engine-wide delta"))
			default:
				obs = append(obs, core.Ob(rule, key, p.Pos(ins.Pos()), core.FuncName(fn), core.Held, "depends on opts.LookbackDelta and on the engine's delta"))
			}
		})
	}
	return obs
}

// callbackCall: the closure fn is made in its parent and handed, as an argument, to a function of the repository
// that calls that parameter; returns that function and the call of the parameter (nil when there is not exactly one).
func callbackCall(p *core.Program, fn *ssa.Function) (*ssa.Function, *ssa.Call) {
	par := fn.Parent()
	if par == nil {
		return nil, nil
	}
	var h *ssa.Function
	var c2 *ssa.Call
	n := 0
	core.EachInstr(par, func(_ *ssa.BasicBlock, _ int, ins ssa.Instruction) {
		mc, ok := ins.(*ssa.MakeClosure)
		if !ok || mc.Fn != fn {
			return
		}
		for _, r := range core.Referrers(mc) {
			c, ok := r.(*ssa.Call)
			if !ok {
				continue
			}
			callee := c.Call.StaticCallee()
			if callee == nil || callee.Blocks == nil || !p.InRepo(callee) {
				continue
			}
			for ai, a := range c.Call.Args {
				if a != ssa.Value(mc) || ai >= len(callee.Params) {
					continue
				}
				prm := callee.Params[ai]
				core.EachInstr(callee, func(_ *ssa.BasicBlock, _ int, x ssa.Instruction) {
					if cc, ok := x.(*ssa.Call); ok && cc.Call.Value == ssa.Value(prm) {
						h, c2 = callee, cc
						n++
					}
				})
			}
		}
	})
	if n != 1 {
		return nil, nil
	}
	return h, c2
}

func ruleShard(p *core.Program) []core.Obligation {
	const rule = "R-SHARD"
	var obs []core.Obligation
	ctors := map[string]bool{
		core.Module + "/execution/scan.NewVectorSelector": true,
		core.Module + "/execution/scan.NewMatrixSelector": true,
	}
	for _, fn := range p.Funcs {
		core.EachInstr(fn, func(b *ssa.BasicBlock, i int, ins ssa.Instruction) {
			call, ok := ins.(*ssa.Call)
			if !ok || !ctors[core.CalleeName(&call.Call)] {
				return
			}
			callee := call.Call.StaticCallee()
			// shard and numShards are the last two int parameters
			n := len(call.Call.Args)
			shard, num := call.Call.Args[n-2], call.Call.Args[n-1]
			key := fmt.Sprintf("%s -> %s (shard, numShards)", core.FuncName(fn), callee.Name())
			site := p.Pos(ins.Pos())
			// the constructor call sits in a callback that is handed the shard and the count
			// (newShardedOperator(func(shard, numShards int) model.VectorOperator { return scan.New...(.., shard, numShards) })):
			// the loop is examined where the callback is called
			if sp, ok1 := shard.(*ssa.Parameter); ok1 && fn.Parent() != nil {
				if np, ok2 := num.(*ssa.Parameter); ok2 {
					if h, c2 := callbackCall(p, fn); h != nil && c2 != nil {
						si, ni := -1, -1
						for pi, prm := range fn.Params {
							if prm == sp {
								si = pi
							}
							if prm == np {
								ni = pi
							}
						}
						if si >= 0 && ni >= 0 && si < len(c2.Call.Args) && ni < len(c2.Call.Args) {
							fn, b, call = h, c2.Block(), c2
							shard, num = c2.Call.Args[si], c2.Call.Args[ni]
						}
					}
				}
			}
			if sc, ok := core.ConstInt(shard); ok {
				nc, ok2 := core.ConstInt(num)
				if ok2 && sc == 0 && nc == 1 {
					obs = append(obs, core.Ob(rule, key, site, core.FuncName(fn), core.Held, "constant single shard (0, 1)"))
				} else {
					obs = append(obs, core.Ob(rule, key, site, core.FuncName(fn), core.Violated, fmt.Sprintf("constant shard %d of %v does not enumerate all shards", sc, num)))
				}
				return
			}
			fail := func(why string) {
				obs = append(obs, core.Ob(rule, key, site, core.FuncName(fn), core.Violated, why))
			}
			phi, ok := shard.(*ssa.Phi)
			if !ok || len(phi.Edges) != 2 {
				obs = append(obs, core.Ob(rule, key, site, core.FuncName(fn), core.Undecided, "shard index is not a loop induction variable"))
				return
			}
			// induction: one edge const 0, the other phi+1
			var hasZero, hasInc bool
			for _, e := range phi.Edges {
				if c, ok := core.ConstInt(e); ok {
					if c == 0 {
						hasZero = true
					} else {
						fail(fmt.Sprintf("shard loop starts at %d: shards below it are never instantiated", c))
						return
					}
				}
				if bo, ok := e.(*ssa.BinOp); ok && bo.Op == token.ADD && bo.X == phi {
					if c, ok := core.ConstInt(bo.Y); ok && c == 1 {
						hasInc = true
					} else {
						fail("shard loop does not advance by 1")
						return
					}
				}
			}
			if !hasZero || !hasInc {
				obs = append(obs, core.Ob(rule, key, site, core.FuncName(fn), core.Undecided, "shard loop is not of the form for i := 0; ...; i++"))
				return
			}
			// bound: the loop header's If compares phi < num (same SSA value)
			iff := core.IfOf(phi.Block())
			bo, _ := func() (*ssa.BinOp, bool) {
				if iff == nil {
					return nil, false
				}
				b, ok := iff.Cond.(*ssa.BinOp)
				return b, ok
			}()
			if bo == nil || bo.X != phi || bo.Op != token.LSS {
				fail("shard loop is not bounded by i < numShards")
				return
			}
			if bo.Y != num {
				fail("the loop bound and the shard count passed to the operator are different values: shards are lost or duplicated")
				return
			}
			// the call must be inside the loop body (dominated by the true successor)
			if !core.BranchDominates(phi.Block(), 0, b) {
				fail("operator construction is not inside the shard loop")
				return
			}
			// num >= 1: phi(x, 1) guarded by x < 1
			if !atLeastOne(num) {
				fail("numShards is not forced to be at least 1: with GOMAXPROCS=1 no shard would be created and every series lost")
				return
			}
			// every shard operator reaches exactly one coalesce
			if !reachesCoalesce(call) {
				fail("the shard operator is not appended to the operator list handed to exchange.NewCoalesce")
				return
			}
			obs = append(obs, core.Ob(rule, key, site, core.FuncName(fn), core.Held, "i = 0..numShards-1, numShards >= 1, all shards merged by one coalesce"))
		})
	}
	return obs
}

func atLeastOne(v ssa.Value) bool {
	if c, ok := core.ConstInt(v); ok {
		return c >= 1
	}
	// the count comes from a helper of the repo (func numShards() int): every value it returns is at least 1
	if call, ok := v.(*ssa.Call); ok {
		callee := call.Call.StaticCallee()
		if callee == nil || callee.Blocks == nil || callee.Pkg == nil || !strings.HasPrefix(callee.Pkg.Pkg.Path(), core.Module) {
			return false
		}
		all, any := true, false
		core.EachInstr(callee, func(b *ssa.BasicBlock, _ int, ins ssa.Instruction) {
			ret, ok := ins.(*ssa.Return)
			if !ok || b == callee.Recover {
				return
			}
			rs := core.RetResults(ret)
			if len(rs) != 1 {
				all = false
				return
			}
			any = true
			if !atLeastOne(rs[0]) && !atLeastOneAt(callee, rs[0], b) {
				all = false
			}
		})
		return all && any
	}
	phi, ok := v.(*ssa.Phi)
	if !ok {
		return false
	}
	okAll := true
	for i, e := range phi.Edges {
		if c, ok := core.ConstInt(e); ok {
			if c < 1 {
				okAll = false
			}
			continue
		}
		// the edge carrying x must come from the false branch of x < 1 (or true branch of x >= 1)
		pred := phi.Block().Preds[i]
		iff := core.IfOf(pred)
		if iff == nil {
			okAll = false
			continue
		}
		bo, ok := iff.Cond.(*ssa.BinOp)
		if !ok || bo.X != e {
			okAll = false
			continue
		}
		c, isC := core.ConstInt(bo.Y)
		falseEdge := pred.Succs[1] == phi.Block()
		trueEdge := pred.Succs[0] == phi.Block()
		switch {
		case isC && bo.Op == token.LSS && c == 1 && falseEdge && !trueEdge:
		case isC && bo.Op == token.LEQ && c == 0 && falseEdge && !trueEdge:
		case isC && bo.Op == token.GEQ && c == 1 && trueEdge && !falseEdge:
		case isC && bo.Op == token.GTR && c == 0 && trueEdge && !falseEdge:
		default:
			okAll = false
		}
	}
	return okAll
}

// atLeastOneAt: block at lies on a branch of fn on which v >= 1 was established (the false branch of v < 1, ...).
func atLeastOneAt(fn *ssa.Function, v ssa.Value, at *ssa.BasicBlock) bool {
	for _, b := range fn.Blocks {
		iff := core.IfOf(b)
		if iff == nil {
			continue
		}
		bo, ok := iff.Cond.(*ssa.BinOp)
		if !ok || bo.X != v {
			continue
		}
		c, isC := core.ConstInt(bo.Y)
		if !isC {
			continue
		}
		succ := -1
		switch {
		case bo.Op == token.LSS && c == 1, bo.Op == token.LEQ && c == 0:
			succ = 1
		case bo.Op == token.GEQ && c == 1, bo.Op == token.GTR && c == 0:
			succ = 0
		}
		if succ >= 0 && core.BranchDominates(b, succ, at) {
			return true
		}
	}
	return false
}

// reachesCoalesce follows the constructed operator through interface conversion, NewConcurrent and
// an append into the slice passed to exchange.NewCoalesce.
func reachesCoalesce(call *ssa.Call) bool {
	seen := map[ssa.Value]bool{}
	var flows func(v ssa.Value, depth int) bool
	flows = func(v ssa.Value, depth int) bool {
		if seen[v] || depth > 12 {
			return false
		}
		seen[v] = true
		for _, r := range core.Referrers(v) {
			switch x := r.(type) {
			case *ssa.MakeInterface, *ssa.ChangeInterface, *ssa.Phi, *ssa.Slice:
				if flows(x.(ssa.Value), depth+1) {
					return true
				}
			case *ssa.Store:
				if x.Val == v {
					// element of a varargs array or of the operators slice
					if ia, ok := x.Addr.(*ssa.IndexAddr); ok {
						if flows(ia.X, depth+1) {
							return true
						}
					}
				}
			case *ssa.Call:
				name := core.CalleeName(&x.Call)
				switch {
				case name == core.Module+"/execution/exchange.NewCoalesce":
					return true
				case name == core.Module+"/execution/exchange.NewConcurrent", name == "builtin.append":
					if flows(x, depth+1) {
						return true
					}
				}
			}
		}
		return false
	}
	return flows(call, 0)
}

func isIntType(t types.Type) bool {
	b, ok := t.Underlying().(*types.Basic)
	return ok && b.Info()&types.IsInteger != 0
}

func isFloatType(t types.Type) bool {
	b, ok := t.Underlying().(*types.Basic)
	return ok && b.Info()&types.IsFloat != 0
}

func ruleTruncDiv(p *core.Program) []core.Obligation {
	const rule = "R-TRUNCDIV"
	var obs []core.Obligation
	for _, fn := range p.Funcs {
		rel := core.Rel(fn.Pkg.Pkg.Path())
		if rel != "execution/function" && rel != "execution/scan" && rel != "execution/aggregate" {
			continue
		}
		k := 0
		core.EachInstr(fn, func(b *ssa.BasicBlock, i int, ins ssa.Instruction) {
			cv, ok := ins.(*ssa.Convert)
			if !ok || !isIntType(cv.X.Type()) || !isFloatType(cv.Type()) {
				return
			}
			k++
			key := fmt.Sprintf("%s int->float conversion #%d", core.FuncName(fn), k)
			if bo, ok := cv.X.(*ssa.BinOp); ok && bo.Op == token.QUO {
				obs = append(obs, core.Ob(rule, key, p.Pos(cv.Pos()), core.FuncName(fn), core.Violated, "an integer quotient is converted to float: the fraction is lost before the conversion (e.g. a range of 90.5s becomes 90)"))
				return
			}
			obs = append(obs, core.Ob(rule, key, p.Pos(cv.Pos()), core.FuncName(fn), core.Held, "operand is not an integer quotient"))
		})
	}
	return obs
}

func ruleAtOffset(p *core.Program) []core.Obligation {
	const rule = "R-ATOFFSET"
	var obs []core.Obligation
	targets := map[string]int{ // callee -> index of the offset argument
		modExecution + ".newShardedVectorSelector":        2,
		core.Module + "/execution/scan.NewVectorSelector": 3,
		core.Module + "/execution/scan.NewMatrixSelector": 6,
	}
	for _, fn := range p.Funcs {
		if core.Rel(fn.Pkg.Pkg.Path()) != "execution" {
			continue
		}
		core.EachInstr(fn, func(b *ssa.BasicBlock, i int, ins ssa.Instruction) {
			cc := core.CallCommon(ins)
			if cc == nil {
				return
			}
			idx, ok := targets[core.CalleeName(cc)]
			if !ok || idx >= len(cc.Args) {
				return
			}
			arg := cc.Args[idx]
			key := fmt.Sprintf("%s -> %s offset", core.FuncName(fn), cc.StaticCallee().Name())
			if _, isParam := arg.(*ssa.Parameter); isParam {
				return // forwarded parameter: checked at the caller
			}
			// inside a callback: a captured variable stands for what the enclosing function bound to it
			if fn.Parent() != nil {
				fvv := arg
				if u, ok := fvv.(*ssa.UnOp); ok && u.Op == token.MUL {
					fvv = u.X
				}
				if fv, ok := fvv.(*ssa.FreeVar); ok {
					var bound ssa.Value
					core.EachInstr(fn.Parent(), func(_ *ssa.BasicBlock, _ int, x ssa.Instruction) {
						if mc, ok := x.(*ssa.MakeClosure); ok && mc.Fn == fn {
							for bi, fvx := range fn.FreeVars {
								if fvx == fv && bi < len(mc.Bindings) {
									bound = mc.Bindings[bi]
								}
							}
						}
					})
					if _, isParam := bound.(*ssa.Parameter); isParam {
						return // the enclosing function's forwarded parameter
					}
					if al, ok := bound.(*ssa.Alloc); ok {
						for _, r := range core.Referrers(al) {
							if st, ok := r.(*ssa.Store); ok && st.Addr == ssa.Value(al) {
								if _, isParam := st.Val.(*ssa.Parameter); isParam {
									return
								}
								arg = st.Val
							}
						}
					} else if bound != nil {
						arg = bound
					}
				}
			}
			var fields []string
			core.BackSlice(arg, func(x ssa.Value) bool {
				if n, f, _, ok := core.FieldRef(x); ok && n != nil && n.Obj().Name() == "VectorSelector" {
					fields = append(fields, f)
				}
				return true
			})
			switch {
			case contains(fields, "OriginalOffset"):
				obs = append(obs, core.Ob(rule, key, p.Pos(ins.Pos()), core.FuncName(fn), core.Violated, "the operator is built with OriginalOffset: the @ modifier, folded into Offset by the logical plan, is ignored at evaluation time"))
			case contains(fields, "Offset"):
				obs = append(obs, core.Ob(rule, key, p.Pos(ins.Pos()), core.FuncName(fn), core.Held, "uses VectorSelector.Offset"))
			default:
				if c, ok := core.ConstInt(arg); ok && c == 0 {
					return
				}
				obs = append(obs, core.Ob(rule, key, p.Pos(ins.Pos()), core.FuncName(fn), core.Undecided, "offset argument does not come from a selector field"))
			}
		})
	}
	// the select range: OriginalOffset and Timestamp, never Offset (which already contains the pin)
	if fn := p.Func("execution", "getTimeRangesForVectorSelector"); fn != nil {
		var fields []string
		// the function and the helpers of the package it is split into
		seenFn := map[*ssa.Function]bool{}
		var collect func(f *ssa.Function, depth int)
		collect = func(f *ssa.Function, depth int) {
			if f == nil || f.Blocks == nil || seenFn[f] || depth > 2 || !p.InRepo(f) {
				return
			}
			seenFn[f] = true
			core.EachInstr(f, func(b *ssa.BasicBlock, i int, ins ssa.Instruction) {
				if v, ok := ins.(ssa.Value); ok {
					if n, fld, _, ok := core.FieldRef(v); ok && n != nil && n.Obj().Name() == "VectorSelector" {
						fields = append(fields, fld)
					}
				}
				if c, ok := ins.(*ssa.Call); ok {
					if callee := c.Call.StaticCallee(); callee != nil && callee.Pkg == f.Pkg {
						collect(callee, depth+1)
					}
				}
			})
		}
		collect(fn, 0)
		key := "execution.getTimeRangesForVectorSelector fields"
		if contains(fields, "OriginalOffset") && contains(fields, "Timestamp") && !contains(fields, "Offset") {
			obs = append(obs, core.Ob(rule, key, p.Pos(fn.Pos()), core.FuncName(fn), core.Held, "range from Timestamp and OriginalOffset"))
		} else {
			obs = append(obs, core.Ob(rule, key, p.Pos(fn.Pos()), core.FuncName(fn), core.Violated, fmt.Sprintf("select range is computed from %v; the reference uses Timestamp and OriginalOffset (using Offset would apply the @ pin twice)", fields)))
		}
	} else {
		obs = append(obs, core.Ob(rule, "execution.getTimeRangesForVectorSelector fields", "-", "", core.Lost, "function not found"))
	}
	return obs
}

func contains(xs []string, s string) bool {
	for _, x := range xs {
		if x == s {
			return true
		}
	}
	return false
}

func ruleIterErr(p *core.Program) []core.Obligation {
	const rule = "R-ITERERR"
	var obs []core.Obligation
	advance := map[string]bool{
		"(*" + pkgStorage + ".MemoizedSeriesIterator).Seek": true, "(*" + pkgStorage + ".MemoizedSeriesIterator).Next": true,
		"(*" + pkgStorage + ".BufferedSeriesIterator).Seek": true, "(*" + pkgStorage + ".BufferedSeriesIterator).Next": true,
	}
	for _, fn := range p.Funcs {
		core.EachInstr(fn, func(b *ssa.BasicBlock, i int, ins ssa.Instruction) {
			call, ok := ins.(*ssa.Call)
			if !ok || !advance[core.CalleeName(&call.Call)] {
				return
			}
			recv := call.Call.Args[0]
			key := fmt.Sprintf("%s advances %s", core.FuncName(fn), strings.TrimPrefix(core.CalleeName(&call.Call), "(*"+pkgStorage+"."))
			// find: If (result == ValNone) ; in its true region: call recv.Err() compared to nil; in that true region: Return with non-nil error
			held := false
			for _, r := range core.Referrers(call) {
				bo, ok := r.(*ssa.BinOp)
				if !ok || bo.Op != token.EQL {
					continue
				}
				other := bo.Y
				if other == ssa.Value(call) {
					other = bo.X
				}
				if c, ok := core.ConstInt(other); !ok || c != 0 { // chunkenc.ValNone == 0
					continue
				}
				for _, rr := range core.Referrers(bo) {
					iff, ok := rr.(*ssa.If)
					if !ok {
						continue
					}
					noneRegion := iff.Block().Succs[0]
					if len(noneRegion.Preds) != 1 {
						continue
					}
					if errReturnedIn(fn, noneRegion, recv) {
						held = true
					}
				}
			}
			if held {
				obs = append(obs, core.Ob(rule, key, p.Pos(ins.Pos()), core.FuncName(fn), core.Held, "ValNone outcome consults Err() and returns it"))
			} else {
				obs = append(obs, core.Ob(rule, key, p.Pos(ins.Pos()), core.FuncName(fn), core.Violated, "after ValNone the iterator's Err() is not consulted and returned: a failing iterator is treated as an exhausted one"))
			}
		})
	}
	return obs
}

// errReturnedIn reports whether, inside the region dominated by region, recv.Err() is called,
// compared with nil, and an error is returned on the non-nil branch.
func errReturnedIn(fn *ssa.Function, region *ssa.BasicBlock, recv ssa.Value) bool {
	for _, b := range fn.Blocks {
		if !core.BlockDominates(region, b) {
			continue
		}
		for _, ins := range b.Instrs {
			call, ok := ins.(*ssa.Call)
			if !ok || call.Call.IsInvoke() || call.Call.StaticCallee() == nil || call.Call.StaticCallee().Name() != "Err" || len(call.Call.Args) == 0 || !core.SameExpr(call.Call.Args[0], recv) {
				continue
			}
			for _, r := range core.Referrers(call) {
				bo, ok := r.(*ssa.BinOp)
				if !ok || bo.Op != token.NEQ {
					continue
				}
				for _, rr := range core.Referrers(bo) {
					iff, ok := rr.(*ssa.If)
					if !ok {
						continue
					}
					t := iff.Block().Succs[0]
					for _, tb := range fn.Blocks {
						if !core.BlockDominates(t, tb) {
							continue
						}
						for _, ti := range tb.Instrs {
							ret, ok := ti.(*ssa.Return)
							if !ok || len(ret.Results) == 0 {
								continue
							}
							last := core.RetResults(ret)[len(ret.Results)-1]
							if !core.IsNilConst(last) {
								return true
							}
						}
					}
				}
			}
		}
	}
	return false
}

func ruleSetErr(p *core.Program) []core.Obligation {
	const rule = "R-SETERR"
	var obs []core.Obligation
	for _, fn := range p.Funcs {
		var nexts []*ssa.Call
		core.EachInstr(fn, func(b *ssa.BasicBlock, i int, ins ssa.Instruction) {
			if call, ok := ins.(*ssa.Call); ok && core.InvokeOf(&call.Call, pkgStorage, "SeriesSet", "Next") {
				nexts = append(nexts, call)
			}
		})
		for _, nx := range nexts {
			set := nx.Call.Value
			key := core.FuncName(fn) + " iterates storage.SeriesSet"
			bad := ""
			nret := 0
			for _, b := range fn.Blocks {
				if b != nx.Block() && !core.Reaches(nx.Block(), b) {
					continue
				}
				for _, ins := range b.Instrs {
					ret, ok := ins.(*ssa.Return)
					if !ok || len(ret.Results) == 0 {
						continue
					}
					nret++
					last := core.RetResults(ret)[len(ret.Results)-1]
					fromErr := false
					core.BackSlice(last, func(x ssa.Value) bool {
						if c, ok := x.(*ssa.Call); ok && core.InvokeOf(&c.Call, pkgStorage, "SeriesSet", "Err") && c.Call.Value == set {
							fromErr = true
						}
						return true
					})
					if !fromErr {
						bad = p.Pos(ret.Pos())
					}
				}
			}
			if bad != "" || nret == 0 {
				obs = append(obs, core.Ob(rule, key, p.Pos(nx.Pos()), core.FuncName(fn), core.Violated, "a return after the iteration ("+bad+") does not return the set's Err(): a failing series set yields a partial series list as success"))
			} else {
				obs = append(obs, core.Ob(rule, key, p.Pos(nx.Pos()), core.FuncName(fn), core.Held, "every return after the loop returns set.Err()"))
			}
		}
	}
	return obs
}

func ruleQuerier(p *core.Program) []core.Obligation {
	const rule = "R-QUERIER"
	var obs []core.Obligation
	for _, fn := range p.Funcs {
		core.EachInstr(fn, func(b *ssa.BasicBlock, i int, ins ssa.Instruction) {
			call, ok := ins.(*ssa.Call)
			if !ok || !core.InvokeOf(&call.Call, pkgStorage, "Queryable", "Querier") {
				return
			}
			key := core.FuncName(fn) + " opens a storage querier"
			var q, errv ssa.Value
			for _, r := range core.Referrers(call) {
				if ex, ok := r.(*ssa.Extract); ok {
					if ex.Index == 0 {
						q = ex
					} else {
						errv = ex
					}
				}
			}
			if q == nil || errv == nil {
				obs = append(obs, core.Ob(rule, key, p.Pos(ins.Pos()), core.FuncName(fn), core.Undecided, "result of Querier() is not destructured"))
				return
			}
			// the error check: If (err != nil) in the block of the call; the ok-successor must begin (before any other call) with defer q.Close()
			iff := core.IfOf(b)
			var okSucc *ssa.BasicBlock
			if iff != nil {
				if bo, ok := iff.Cond.(*ssa.BinOp); ok && (bo.X == errv || bo.Y == errv) {
					if bo.Op == token.NEQ {
						okSucc = b.Succs[1]
					} else if bo.Op == token.EQL {
						okSucc = b.Succs[0]
					}
				}
			}
			if okSucc == nil {
				obs = append(obs, core.Ob(rule, key, p.Pos(ins.Pos()), core.FuncName(fn), core.Violated, "the error of Querier() is not checked immediately"))
				return
			}
			deferred := false
			for _, x := range okSucc.Instrs {
				if d, ok := x.(*ssa.Defer); ok && d.Call.IsInvoke() && d.Call.Method.Name() == "Close" && d.Call.Value == q {
					deferred = true
					break
				}
				if c := core.CallCommon(x); c != nil {
					break // another call before the defer: a panic there would leak the querier
				}
			}
			// Close anywhere else
			closes := 0
			for _, r := range core.Referrers(q) {
				if c := core.CallCommon(r); c != nil && c.IsInvoke() && c.Method.Name() == "Close" && c.Value == q {
					closes++
				}
			}
			switch {
			case !deferred:
				obs = append(obs, core.Ob(rule, key, p.Pos(ins.Pos()), core.FuncName(fn), core.Violated, "no 'defer q.Close()' directly after the error check: the querier leaks on an error, panic or early return"))
			case closes != 1:
				obs = append(obs, core.Ob(rule, key, p.Pos(ins.Pos()), core.FuncName(fn), core.Violated, fmt.Sprintf("Close is called %d times on the querier", closes)))
			default:
				obs = append(obs, core.Ob(rule, key, p.Pos(ins.Pos()), core.FuncName(fn), core.Held, "closed exactly once by a defer placed right after the error check"))
			}
		})
	}
	// nothing is opened at query creation
	for _, entry := range []string{"compatibilityEngine.NewInstantQuery", "compatibilityEngine.NewRangeQuery"} {
		fn := p.Func("engine", entry)
		key := "engine." + entry + " opens no querier"
		if fn == nil {
			obs = append(obs, core.Ob(rule, key, "-", "", core.Lost, "entry not found"))
			continue
		}
		reach := syncReach(p, fn, nil)
		var hit string
		for f := range reach {
			core.EachInstr(f, func(b *ssa.BasicBlock, i int, ins ssa.Instruction) {
				cc := core.CallCommon(ins)
				if cc != nil && (core.InvokeOf(cc, pkgStorage, "Queryable", "Querier") || core.InvokeOf(cc, pkgStorage, "Querier", "Select")) {
					hit = core.FuncName(f) + " at " + p.Pos(ins.Pos())
				}
			})
		}
		if hit != "" {
			obs = append(obs, core.Ob(rule, key, p.Pos(fn.Pos()), core.FuncName(fn), core.Violated, "query creation reaches a storage access in "+hit+": a query that is created but never executed opens a querier"))
		} else {
			obs = append(obs, core.Ob(rule, key, p.Pos(fn.Pos()), core.FuncName(fn), core.Held, fmt.Sprintf("no Querier()/Select() among the %d repo functions reachable from creation", len(reach))))
		}
	}
	return obs
}

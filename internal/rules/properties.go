package rules

func init() {
	property(&Property{ID: "C02", Level: "other",
		Rules:       []string{"R-STALE", "R-LOOKBACK", "R-SHARD", "R-ATOFFSET", "R-ITERERR", "R-ZEROSTEP", "R-SELKEY", "R-REFPORT-SELECT", "R-CURSORRESET", "R-LOOKBACKASIS"},
		Scope:       map[string][]string{"R-CURSORRESET": {"vectorSelector"}, "R-ITERERR": {"MemoizedSeriesIterator"}, "R-STALE": {"instant-vector sample", "emits iterator sample"}, "R-ZEROSTEP": {"vectorSelector"}},
		Explanation: "Structural necessary conditions of instant-vector selection, decided for every path of the current source: no iterator sample reaches an emission without passing the staleness test; the per-query lookback delta reaches the plan; shard indices 0..n-1 are each instantiated once, n>=1, and merged by one coalesce; selector operators are built with the @-folded Offset while the select range uses Timestamp/OriginalOffset; a failing Seek is told apart from an exhausted iterator; step cursors cannot stall on instant queries.",
		NotDecided: []string{
			"not decided: the direction of the age comparison (lookback-1/lookback/lookback+1 ms: R-REFPORT-SELECT sees that the reference's two timestamp comparisons are there, not which operand is the larger one), the arithmetic that folds @ into an offset, the slicing arithmetic of seriesShard and the re-basing sums of sample IDs (value-level)",
		}})
	property(&Property{ID: "C03", Level: "other",
		Rules:       []string{"R-STALE", "R-TRUNCDIV", "R-KERNELBOUNDS", "R-SENTINEL", "R-ITERERR", "R-SLABCAP", "R-REFPORT-RANGE", "R-LABELPOS", "R-CURSORRESET"},
		Scope:       map[string][]string{"R-CURSORRESET": {"matrixSelector"}, "R-ITERERR": {"BufferedSeriesIterator"}, "R-STALE": {"range-vector sample", "emits iterator sample"}, "R-SENTINEL": {"matrixSelector"}},
		Explanation: "Structural necessary conditions of range-function evaluation: no stale sample enters a window (buffered and sought samples); per-second division uses the untruncated range; every window kernel guards its indexing for 0/1-sample windows (presence rule of irate/idelta/rate-like kernels >= 2 points); the matrix call site honours the 'no output' sentinel; iterator failures surface.",
		NotDecided: []string{
			"not decided: window maintenance across steps (previousPoints overlap reuse), the direction of edge comparisons between two variables, the order in which a kernel combines its operands, additions/subtractions (value-level). R-REFPORT-RANGE compares a decision signature that is invariant under renaming, reordering, helper extraction and if/else inversion; it would report a rewrite that replaces a comparison or an operation by a differently shaped equivalent one",
		}})
	property(&Property{ID: "C04", Level: "other",
		Rules:       []string{"R-ACCRESET", "R-INTCONV", "R-SAMPLE0", "R-ONEPERSTEP", "R-PAIRING", "R-SORTEDNAMES", "R-TABLETS", "R-AGGNAME", "R-SHORTCUT", "R-ACCNONEMPTY", "R-ALLOCSIZE", "R-BATCHIDX", "R-VALIDEVERY", "R-REFPORT-AGG", "R-FILLRANGE", "R-COPYWRITE", "R-SCALAREND", "R-STEPEVERY", "R-REFERRORS", "R-NANSORT", "R-SENDEVERY", "R-EMPTYBY", "R-STRICTCMP"},
		Scope:       map[string][]string{"R-SENDEVERY": {"execution/aggregate"}, "R-REFERRORS": {"execution/aggregate"}, "R-STEPEVERY": {"execution/aggregate"}, "R-SCALAREND": {"ggregate"}, "R-COPYWRITE": {"execution/aggregate"}, "R-FILLRANGE": {"execution/aggregate"}, "R-BATCHIDX": {"execution/aggregate"}, "R-PAIRING": {"execution/aggregate", "model.VectorPool"}, "R-SAMPLE0": {"execution/aggregate"}, "R-SHORTCUT": {"execution/aggregate"}, "R-SORTEDNAMES": {"execution/aggregate"}, "R-ONEPERSTEP": {"execution/aggregate"}},
		Explanation: "Structural necessary conditions of aggregation: every accumulator is completely reset per step (tables are reused for every batch); the k/quantile parameter is NaN/range-tested before it is used as an integer; a parameter absent at a step is not indexed; one step vector per step; IDs and values are written in pairs; the grouping names handed to the label hashes are the sorted slice. An empty-grouping short cut depends on the by/without flag; the ungrouped sum/count/group accumulators decide like the reference arm. Sample comparators are strict comparisons.",
		NotDecided: []string{
			"not decided: the group keys/labels beyond the structural clauses, the reduction values of avg/stddev/stdvar (different algorithms from the reference arm, not compared), tie handling (value-level)",
		}})
	property(&Property{ID: "C05", Level: "other",
		Rules:       []string{"R-BOOLNAME", "R-LABELBUILD", "R-SORTEDNAMES", "R-LABELFRESH", "R-DUPBOOK", "R-SHORTCUT", "R-BATCHIDX", "R-OPTABLE", "R-REFLABELS", "R-COPYWRITE", "R-SCALAREND", "R-STEPEVERY", "R-DROPNAMESET", "R-REFERRORS", "R-REFPORT-BINARY"},
		Scope:       map[string][]string{"R-REFERRORS": {"execution/binary"}, "R-STEPEVERY": {"execution/binary"}, "R-SCALAREND": {"scalarOperator"}, "R-COPYWRITE": {"execution/binary"}, "R-BATCHIDX": {"execution/binary"}, "R-SHORTCUT": {"execution/binary"}, "R-SORTEDNAMES": {"execution/binary"}},
		Explanation: "Structural necessary conditions of binary operators: both operators decide about dropping the metric name from the operator type and the bool modifier; result label sets are never grown by raw appends; matching label names handed to the hashes are sorted; label sets are edited in place only on fresh copies (the operands may be the same pooled selector); the duplicate-match bookkeeping of a step is recorded for every matched sample before the comparison filter can skip it. The per-sample loop of vector-scalar operations makes the decisions of the reference's VectorscalarBinop.",
		NotDecided: []string{
			"not decided: which pairs match, the values beyond 'each table entry applies the reference operation to (left, right)', the step at which an ambiguous match is reported (value-level); an operator missing from the operation tables falls back correctly and is covered by C08",
		}})
	property(&Property{ID: "C06", Level: "other",
		Rules:       []string{"R-SENTINEL", "R-POINTFIELDS", "R-PAIRING", "R-ZEROSTEP", "R-SAMPLE0", "R-STEPBOUND", "R-EMPTYSERIES", "R-POINT0", "R-TABLETS", "R-OUTALIAS", "R-HASHSAME", "R-PULLALL", "R-TRUNCDIV", "R-STEPTS", "R-BATCHIDX", "R-REFPORT-INSTANT", "R-OPTABLE", "R-LABELPOS", "R-FILLRANGE", "R-PINNEDPLAN", "R-COPYWRITE", "R-SCALAREND", "R-STEPEVERY", "R-SENDEVERY", "R-PUTONCE", "R-STALEGUARD", "R-ONCEPERITER", "R-BUFRESET"},
		Scope:       map[string][]string{"R-SENDEVERY": {"execution/unary"}, "R-PUTONCE": {"execution/function", "execution/unary", "scalarOperator"}, "R-STEPEVERY": {"execution/function", "step_invariant", "scalarOperator", "numberLiteralSelector"}, "R-SCALAREND": {"scalarOperator"}, "R-COPYWRITE": {"execution/function", "execution/unary", "execution/step_invariant"}, "R-FILLRANGE": {"execution/function"}, "R-BATCHIDX": {"execution/function", "execution/unary", "execution/binary.scalarOperator"}, "R-PAIRING": {"execution/function", "numberLiteralSelector", "step_invariant", "execution/unary", "model.VectorPool"}, "R-SAMPLE0": {"execution/function", "execution/binary.scalarOperator"}, "R-SENTINEL": {"functionOperator", "noArgFunctionOperator"}, "R-STEPTS": {"execution/function", "numberLiteralSelector", "step_invariant", "scalarOperator"}, "R-PULLALL": {"functionOperator", "unaryNegation", "stepInvariantOperator", "scalarOperator"}, "R-STEPBOUND": {"numberLiteralSelector", "noArgFunctionOperator", "stepInvariantOperator"}, "R-EMPTYSERIES": {"functionOperator", "noArgFunctionOperator", "numberLiteralSelector", "histogramOperator", "unaryNegation", "stepInvariantOperator", "scalarOperator"}, "R-ZEROSTEP": {"numberLiteralSelector", "noArgFunctionOperator", "stepInvariantOperator"}, "R-OPTABLE": {"operations["}},
		Explanation: "Structural necessary conditions of instant functions and scalars: the instant-function call site drops samples its kernel declares absent; every Point field a kernel reads is stored by the call site; IDs/values are written in pairs (time(), scalar()); generator operators cannot stall on a zero step and never emit past the window end; scalar operands are indexed only behind a length test. Per-batch buffers are emptied per batch; one sample per iteration and path.",
		NotDecided: []string{
			"not decided: function values beyond the decision signature (e.g. clamp with a NaN bound: max<min and !(min<=max) have the same signature), alignment of scalar operands whose stream is shorter but not empty, replication of @-pinned vectors (value-level)",
		}})
	property(&Property{ID: "C08", Level: "other",
		Rules:       []string{"R-VOCAB", "R-ERRPROP", "R-NODECOPY", "R-VALUESWITCH", "R-CREATETIME", "R-WINDOWARGS"},
		Explanation: "For the complete vocabulary of the pinned parser (every key of parser.Functions, every aggregation and binary operator token, every concrete Expr type, read from the module's source on every run): each item is either handled by a case/table entry of plan construction or reaches a branch that returns an error built from a sentinel of execution/parse; errors created during construction are sentinel-built, propagate unchanged and are checked before results are used; every Expr-typed child of a supported node is planned; unsupported-ness is decided in the construction tree (not in Next/Series); triggerFallback tests every sentinel; the query counter is bumped exactly once with the label of the path taken; the fallback call receives the caller's own arguments. Query constructors of other engines run at query creation and receive the caller's window unchanged.",
		NotDecided: []string{
			"not decided: that natively evaluated constructs return the reference's results (C01)",
			"trusted: the induction over the AST that combines the obligations, the parser's type checking of argument kinds",
		}})
	property(&Property{ID: "C09", Level: "other",
		Rules:       []string{"R-SLOTPTR", "R-LABELFRESH", "R-MATCHEQ", "R-ATOFFSET", "R-NODECOPY", "R-MEMOKEY", "R-MATCHPOS", "R-FILTERALL", "R-MATCHGROW", "R-DROPEXACT", "R-ONFLAG", "R-FOREIGNAPPEND", "R-SORTEDNAMES", "R-SELFCALL"},
		Scope:       map[string][]string{"R-SELFCALL": {"logicalplan."}, "R-SORTEDNAMES": {"execution/storage"}},
		Explanation: "Structural necessary conditions of the logical optimizers: every traversal hands out pointers to real slots of the tree, so a replacement (made after in-place edits of the replaced node) lands in the tree in every syntactic position; matcher slices are edited in place only on fresh copies; the subset test that licenses replacing a selector compares name, type and value of the matchers. Name lists handed to the sorted-names label APIs by the merged-select filter are sorted values. Traversals pass the node as the parent of its child slot; recursive walkers make progress.",
		NotDecided: []string{
			"not decided: that the rewrites preserve semantics in general; decided are the clauses whose violation produced the defects found so far: every matcher is applied with the value looked up by name, a selector's matcher list is only grown or taken over whole, deletion by label name is reserved for the metric name, matchers are compared by (name, type, value), no positional access",
		}})
	property(&Property{ID: "C10", Level: "other",
		Rules:       []string{"R-SLOTPTR", "R-DISTTABLE", "R-REMOTELOOKBACK", "R-SHARD", "R-PUSHDOWN", "R-NODECOPY", "R-EXPRORIGIN", "R-CORECOUNT", "R-ONEBATCHSIZE", "R-VALUESWITCH", "R-REMOTETEXT", "R-WINDOWARGS", "R-DISTLAST", "R-SELFCALL", "R-LOOKBACKASIS"},
		Scope:       map[string][]string{"R-SELFCALL": {"logicalplan."}},
		Explanation: "Structural necessary conditions of distributed execution: push-down rewrites land in the tree in every position; only algebraically distributive aggregations are pushed, count is re-aggregated with sum; remote results are read by exact timestamp (no second lookback); the remote reader is a single complete shard; the bottom-up traversal stops (returns true) for every node kind other than the distributive ones it recurses into, so nothing else is pushed down whole. The text of a remote sub-query is rendered after node types of other optimizers were converted; the remote-engine adapter hands the window on unchanged. The distribution optimizer runs last; selectors store the look-back of their options as it is.",
		NotDecided: []string{
			"not decided: that no selector is left outside a remote execution for every tree shape; commutation with the union for all data (value-level)",
		}})
	property(&Property{ID: "C11", Level: "other",
		Rules:       []string{"R-SHARD", "R-LINEAR", "R-GOSHARED", "R-SHARDCOPY", "R-SLABCAP", "R-PUTORDER", "R-CORECOUNT", "R-POOLLINEAR", "R-CURSORRESET", "R-NANSORT", "R-POOLWRITE", "R-IDOFFSET", "R-SELFCALL"},
		Scope:       map[string][]string{"R-SELFCALL": {"hands out one batch"}},
		Explanation: "Structural necessary conditions of determinism: no shard is lost or duplicated for any shard count; no operator is consumed by two parents; every variable shared with a goroutine is written index-privately, under a mutex that covers all its accesses, or before a channel/WaitGroup hand-off; shard slices handed to operators are private copies of the shared series list. Series lists are written (element stores, appends) only when allocated here or while the owner builds its own list, and are handed out as copies; pool Get/Put methods write no pool field.",
		NotDecided: []string{
			"not decided: slicing arithmetic, arrival-order dependent tie-breaking, float summation order, NaN ordering (value-/schedule-level)",
		}})
	property(&Property{ID: "C12", Level: "other",
		Rules:       []string{"R-GLOBALS", "R-ENGINEWO", "R-POOLSCOPE", "R-APIFIELDSYNC", "R-GOSHARED", "R-LINEAR", "R-LABELFRESH", "R-SHARDCOPY", "R-PUTORDER", "R-POOLLINEAR", "R-PUTONCE", "R-GOPUBLISH", "R-ENGINEOBJ", "R-POOLWRITE"},
		Explanation: "Structural necessary conditions of isolation: package-level state and engine fields are never written after construction; pools and select caches are per plan; fields shared between Exec and Cancel/Close are mutex-protected; intra-query shared writes are synchronised; storage-owned label sets and the shared series list are never edited in place. A goroutine stores to shared fields before its first release; an engine holds no concurrency-unsafe standard-library object outside a mutex; pool Get/Put methods write no pool field.",
		NotDecided: []string{
			"not decided: race freedom inside dependencies and the storage; aliasing the rules do not model",
		}})
	property(&Property{ID: "C13", Level: "other",
		Rules:       []string{"R-PANICDOMAIN", "R-WRAP", "R-RECOVERTOTAL", "R-INITBEFOREUSE", "R-INTCONV", "R-SAMPLE0", "R-KERNELBOUNDS", "R-DEFERORDER", "R-POINT0", "R-ACCNONEMPTY", "R-ALLOCSIZE", "R-QUERYCLOSE", "R-BATCHIDX", "R-LOCKDEFER", "R-STALEGUARD", "R-WRAPRET", "R-NILFIELD", "R-NOREPANIC", "R-DISTLAST", "R-SELFCALL"},
		Explanation: "Structural necessary conditions of crash containment: the API entry and every goroutine that can reach a user-supplied callback is a recovered panic domain; every recovered value is reported; the recovering defer runs before the defer that closes the channel it reports on; no operator state is used before its once-guarded initialiser; run-time floats are tested before integer conversion; scalar operands and windows are indexed behind length tests. The exchange constructors always return their own (recovering) operator; optional operator fields are used only behind their nil test. A recovered value is never raised again; recursive tree walkers make progress.",
		NotDecided: []string{
			"not decided: fatal runtime errors recover cannot catch (concurrent map writes, stack exhaustion), out-of-memory; panics on worker goroutines caused by defects inside the aggregation tables themselves (no user callback is reachable there)",
		}})
	property(&Property{ID: "C14", Level: "other",
		Rules:       []string{"R-LOSTCANCEL", "R-APIFIELDSYNC", "R-ZEROSTEP", "R-CANCELEARLY", "R-CHANCAP", "R-WORKERCLOSE", "R-CTXDERIVED", "R-QUERYCLOSE", "R-LOCKDEFER", "R-CANCELLOCK", "R-RELEASEFN", "R-DONEPARAM", "R-SENDEVERY", "R-CTXEXIT"},
		Explanation: "Structural necessary conditions of cancellation: the per-execution context is cancelled on every return; the cancel function is published to Cancel/Close (under the mutex) before Exec makes its first call into the plan; step cursors terminate on instant queries; every error channel a goroutine sends on without a select has capacity for all its senders, so a sender never blocks after its receiver returned early. An error channel fed by goroutines started in a loop has room for all of them. Where the context is found done, every return carries the context's error.",
		NotDecided: []string{
			"not decided: 'within bounded time'; storage callbacks that ignore the context; that the context's error rather than a value is returned on the last batch; full deadlock freedom of the worker protocol (R-CHAN of the design was withdrawn, see DESIGN.md)",
		}})
	property(&Property{ID: "C15", Level: "other",
		Rules:       []string{"R-ITERERR", "R-SETERR", "R-ERRPROP", "R-ERRSEND", "R-ERRFIRST", "R-ERRIDENT", "R-ERRKEPT", "R-ERRBEFORE"},
		Explanation: "Structural necessary conditions of error surfacing: a failing iterator/series set is distinguished from an exhausted one at every advance site; an error assigned inside a once/closure is assigned to the variable the enclosing function returns (no shadowing declaration); every error returned by a child operator or helper in execution/... is tested and returned before the other results are used. The error of a call is looked at before any return of the function is reachable.",
		NotDecided: []string{
			"not decided: wrapping fidelity of the final error; the once-guarded loaders do not latch their error (no plan was found in which that yields a successful result)",
		}})
	property(&Property{ID: "C16", Level: "other",
		Rules:       []string{"R-HINTXFER", "R-HINTRANGE", "R-SELKEY", "R-NODECOPY", "R-MEMOKEY", "R-REFPORT-HINTS", "R-SORTCOPY", "R-HINTSTEP", "R-SELECTMATCHERS"},
		Explanation: "Structural necessary conditions of select hints: per node kind the Func/Grouping/By hints are transferred to the children exactly as the reference derives them from the path (shape of the pinned extractFuncFromPath/extractGroupsFromPath re-read on every run); the querier range and hinted range are the same values from one range computation; the select-cache key covers every select parameter that can differ between two selects (range start and end, step, function, grouping, by). The step hint is written once; the matcher list reaches Select unchanged.",
		NotDecided: []string{
			"not decided: the values of the start/end arithmetic beyond 'only the reference's kinds of integer operations'; sufficiency of the range under optimizer rewrites (value-level)",
		}})
	property(&Property{ID: "C17", Level: "other",
		Rules:       []string{"R-QUERIER", "R-LABELFRESH", "R-QUERYCLOSE", "R-JOIN", "R-WRAPRET", "R-NOREPANIC"},
		Explanation: "Structural necessary conditions of storage ownership: every querier is closed exactly once by an unconditional defer placed right after the error check; nothing is opened at query creation; label sets are edited in place only on fresh copies; every goroutine that can reach the storage is joined by its spawner on every path to a return, so that no select (and no open querier) outlives Exec. The exchange constructors always return their own operator (the boundary the join and recover arguments rely on).",
		NotDecided: []string{
			"not decided: sort.Sort on uncopied (already sorted) storage labels performs no writes - assumed; closing of remote queries that are created but never executed; R-JOIN decides that each spawner waits for its storage-reaching goroutine on every path, not that a single receive from the pull goroutine's buffer means that goroutine has finished",
		}})
	property(&Property{ID: "C18", Level: "other",
		Rules:       []string{"R-INITBEFOREUSE", "R-PAIRING", "R-ONEPERSTEP", "R-STALE", "R-LINEAR", "R-STEPBOUND", "R-SHARDCOPY", "R-TSTAMP", "R-EMPTYSERIES", "R-TABLETS", "R-OUTALIAS", "R-PULLALL", "R-PUTORDER", "R-ENDSTICKY", "R-STEPTS", "R-ONEBATCHSIZE", "R-CURSORRESET", "R-STEPEVERY", "R-GRIDMILLIS", "R-ONCEPERITER", "R-BUFRESET", "R-IDOFFSET", "R-SELFCALL"},
		Scope:       map[string][]string{"R-SELFCALL": {"hands out one batch"}},
		Explanation: "Structural necessary conditions of the stream contract: operators serve batches whether or not Series was called first; IDs and values are written in pairs; one step vector per step; no staleness marker is emitted; one consumer per operator; generator loops are bounded by the window end; shards renumber private copies; a step vector's timestamp comes from the step grid, not from sample data. Arithmetic on the evaluation window goes through truncated milliseconds; a kernel never returns the zero sample next to stamped ones. Next never calls itself; merged sample IDs are translated, not renumbered.",
		NotDecided: []string{
			"not decided: uniqueness and range of sample IDs, monotone step order, 'ended stays ended' (value-level)",
		}})
	property(&Property{ID: "C19", Level: "other",
		Rules:       []string{"R-LABELBUILD", "R-RESULTSHAPE", "R-STALE", "R-TSTAMP", "R-LABELFRESH", "R-HASHSAME", "R-EXPRORIGIN", "R-STEPTS", "R-LABELPOS", "R-ONCEPERITER"},
		Explanation: "Structural necessary conditions of result well-formedness: label sets are not grown by raw appends; the matrix is sorted, empty series pruned, instant samples stamped with the evaluation time; no staleness marker is emitted; kernels stamp their result with the step time; label sets shared through the selector pool are not edited in place. The range result is sorted in the reference's label order.",
		NotDecided: []string{
			"not decided: pairwise distinct label sets after name dropping, timestamps on the grid for every operator, overflow/denormal values (value-level)",
		}})
	property(&Property{ID: "C20", Level: "other",
		Rules:       []string{"R-ENGINEWO", "R-GLOBALS", "R-POOLSCOPE", "R-FOREIGNAPPEND", "R-USEAFTERPUT", "R-LABELFRESH", "R-RESULTCOPY", "R-OUTALIAS", "R-PUTORDER", "R-NODECOPY", "R-RELEASEFN", "R-PUTONCE", "R-ENGINEOBJ", "R-CTORSNAPSHOT"},
		Explanation: "Structural necessary conditions of statelessness: an engine holds nothing a query can write; no kept append onto a caller's or the package's slice; recycled buffers are not read again; storage-owned label sets (which returned results alias) are never edited in place; Exec copies sample values out of pooled step vectors (no pooled slice type is reachable from promql.Result). Engine constructors do not consult the providers they are handed; an engine holds no concurrency-unsafe object outside a mutex.",
		NotDecided: []string{
			"not decided: equality with a fresh engine after data changes (needs running); the storage's own caches",
		}})
}

package rules

import (
	"fmt"
	"go/token"
	"go/types"
	"sort"
	"strings"

	"golang.org/x/tools/go/ssa"

	"verif/internal/core"
)

// Rules written after the second precision round.

func init() {
	register(&Rule{ID: "R-GOPUBLISH", Min: 6, Run: ruleGoPublish,
		Doc: "in the code of a goroutine (the function of the go statement and the repository functions it calls statically), a plain store to a field of an object the goroutine was handed (receiver, parameter, captured variable) that functions outside the goroutine's code also access happens before the goroutine's first release operation (WaitGroup.Done, a call of a func() it was handed, a channel send or close) or under a mutex: once the goroutine has released, its spawner and the other users of the object run concurrently with it"})

	mutant(Mutant{Rule: "R-GOPUBLISH", Name: "context-stored-after-done", File: "worker/worker.go",
		Old: "\tw.ctx = ctx\n\tdone()\n", New: "\tdone()\n\tw.ctx = ctx\n", Expect: "start"})
	mutant(Mutant{Rule: "R-GOPUBLISH", Name: "done-in-wrapper-before-start", File: "worker/worker.go",
		Old: "\t\tgo w.start(wg.Done, ctx)\n", New: "\t\tgo func(w *Worker) {\n\t\t\twg.Done()\n\t\t\tw.start(func() {}, ctx)\n\t\t}(w)\n", Expect: "Start"})
}

// isReleaseInstr: a non-deferred operation after which another goroutine may proceed.
func isReleaseInstr(ins ssa.Instruction) bool {
	switch x := ins.(type) {
	case *ssa.Send:
		return true
	case *ssa.Select:
		for _, st := range x.States {
			if st.Dir == types.SendOnly {
				return true
			}
		}
	case *ssa.Call:
		n := core.CalleeName(&x.Call)
		if n == "(*sync.WaitGroup).Done" || n == "builtin.close" {
			return true
		}
		if x.Call.IsInvoke() {
			return false
		}
		// a call of a func() value the goroutine was handed: go w.start(wg.Done, ctx)
		v := x.Call.Value
		if u, ok := v.(*ssa.UnOp); ok && u.Op == token.MUL {
			v = u.X
		}
		switch v.(type) {
		case *ssa.Parameter, *ssa.FreeVar:
			if sig, ok := v.Type().Underlying().(*types.Signature); ok && sig.Params().Len() == 0 && sig.Results().Len() == 0 {
				return true
			}
			if pt, ok := v.Type().Underlying().(*types.Pointer); ok {
				if sig, ok := pt.Elem().Underlying().(*types.Signature); ok && sig.Params().Len() == 0 && sig.Results().Len() == 0 {
					return true
				}
			}
		}
	}
	return false
}

// afterSomeRelease: a release operation of fn can execute before ins.
func afterSomeRelease(fn *ssa.Function, ins ssa.Instruction) bool {
	found := false
	core.EachInstr(fn, func(b *ssa.BasicBlock, i int, x ssa.Instruction) {
		if found || !isReleaseInstr(x) {
			return
		}
		if b == ins.Block() && i < core.InstrIndex(ins) {
			found = true
			return
		}
		for _, s := range b.Succs {
			if core.Reaches(s, ins.Block()) {
				found = true
				return
			}
		}
	})
	return found
}

// handedRoot: addr is a field (or element) address reached from a parameter or captured variable.
func handedRoot(addr ssa.Value) bool {
	for d := 0; d < 10; d++ {
		switch x := addr.(type) {
		case *ssa.Parameter, *ssa.FreeVar:
			return true
		case *ssa.FieldAddr:
			addr = x.X
		case *ssa.IndexAddr:
			addr = x.X
		case *ssa.UnOp:
			if x.Op != token.MUL {
				return false
			}
			addr = x.X
		default:
			return false
		}
	}
	return false
}

func ruleGoPublish(p *core.Program) []core.Obligation {
	const rule = "R-GOPUBLISH"
	var obs []core.Obligation
	// field -> functions that access it
	access := map[*types.Var]map[*ssa.Function]bool{}
	for _, fn := range p.Funcs {
		f := fn
		core.EachInstr(fn, func(_ *ssa.BasicBlock, _ int, ins ssa.Instruction) {
			var fv *types.Var
			switch x := ins.(type) {
			case *ssa.FieldAddr:
				fv = fieldVarOf(x)
			case *ssa.Field:
				if st, ok := x.X.Type().Underlying().(*types.Struct); ok && x.Field < st.NumFields() {
					fv = st.Field(x.Field)
				}
			}
			if fv != nil {
				if access[fv] == nil {
					access[fv] = map[*ssa.Function]bool{}
				}
				access[fv][f] = true
			}
		})
	}
	for _, fn := range p.Funcs {
		spawner := fn
		k := 0
		core.EachInstr(fn, func(b *ssa.BasicBlock, i int, ins ssa.Instruction) {
			g, ok := ins.(*ssa.Go)
			if !ok {
				return
			}
			var entry *ssa.Function
			if mc, ok := g.Call.Value.(*ssa.MakeClosure); ok {
				entry, _ = mc.Fn.(*ssa.Function)
			} else {
				entry = g.Call.StaticCallee()
			}
			if entry == nil || entry.Blocks == nil || !p.InRepo(entry) {
				return
			}
			k++
			key := fmt.Sprintf("goroutine %s started by %s #%d publishes before it releases", core.FuncName(entry), core.FuncName(spawner), k)
			// the goroutine's code
			type item struct {
				fn    *ssa.Function
				after bool
				depth int
			}
			code := map[*ssa.Function]bool{}
			var order []item
			var collect func(f *ssa.Function, after bool, depth int)
			collect = func(f *ssa.Function, after bool, depth int) {
				if depth > 3 || f == nil || f.Blocks == nil || !p.InRepo(f) {
					return
				}
				for _, it := range order {
					if it.fn == f && (it.after || !after) {
						return
					}
				}
				code[f] = true
				order = append(order, item{f, after, depth})
				core.EachInstr(f, func(_ *ssa.BasicBlock, _ int, x ssa.Instruction) {
					c, ok := x.(*ssa.Call)
					if !ok {
						return
					}
					callee := c.Call.StaticCallee()
					if mc, ok := c.Call.Value.(*ssa.MakeClosure); ok {
						callee, _ = mc.Fn.(*ssa.Function)
					}
					if callee == nil {
						return
					}
					collect(callee, after || afterSomeRelease(f, x), depth+1)
				})
			}
			collect(entry, false, 0)
			var bad []string
			stores := 0
			for _, it := range order {
				f := it.fn
				core.EachInstr(f, func(_ *ssa.BasicBlock, _ int, x ssa.Instruction) {
					st, ok := x.(*ssa.Store)
					if !ok {
						return
					}
					fa, ok := st.Addr.(*ssa.FieldAddr)
					if !ok || !handedRoot(fa) {
						return
					}
					fv := fieldVarOf(fa)
					if fv == nil {
						return
					}
					outside := ""
					var names []string
					for af := range access[fv] {
						if !code[af] {
							names = append(names, core.FuncName(af))
						}
					}
					sort.Strings(names)
					if len(names) > 0 {
						outside = names[0]
					}
					if outside == "" {
						return // only the goroutine's own code uses the field
					}
					stores++
					if !(it.after || afterSomeRelease(f, x)) {
						return
					}
					if lockedIn(f, x) {
						return
					}
					bad = append(bad, fmt.Sprintf("%s stores field %s at %s after the goroutine has released (field also used by %s)", core.FuncName(f), fv.Name(), p.Pos(x.Pos()), outside))
				})
			}
			if len(bad) > 0 {
				sort.Strings(bad)
				obs = append(obs, core.Ob(rule, key, p.Pos(g.Pos()), core.FuncName(spawner), core.Violated, strings.Join(bad, "; ")+": the store races with the spawner and with every other user of the object"))
			} else {
				obs = append(obs, core.Ob(rule, key, p.Pos(g.Pos()), core.FuncName(spawner), core.Held, fmt.Sprintf("%d function(s) of goroutine code, %d store(s) to shared fields, all before the first release or under a mutex", len(code), stores)))
			}
		})
	}
	return obs
}

// ---------------------------------------------------------------------------------------------

func init() {
	register(&Rule{ID: "R-CREATETIME", Min: 5, Run: ruleCreateTime,
		Doc: "every call of a query constructor of another engine (an interface call of NewRangeQuery / NewInstantQuery: the remote engines of a distributed plan, the fallback engine, the wrapped engines) executes while the query is being created: its function is reached from execution.New or from a NewRangeQuery / NewInstantQuery method of the repository through direct calls and closures called on the spot only - not from a closure that is stored or handed on, not from an operator's Next/Series. The constructor is what reports an unsupported expression of the sub-query, and C08 requires that decision at creation"})

	mutant(Mutant{Rule: "R-CREATETIME", Name: "remote-query-created-at-exec", File: "execution/execution.go",
		Old:  "\t\tqry, err := e.Engine.NewRangeQuery(&promql.QueryOpts{}, e.Query, opts.Start, opts.End, opts.Step)\n\t\tif err != nil {\n\t\t\treturn nil, err\n\t\t}\n",
		New:  "\t\tvar qry promql.Query = &lazyRemoteQuery{create: func() (promql.Query, error) {\n\t\t\treturn e.Engine.NewRangeQuery(&promql.QueryOpts{}, e.Query, opts.Start, opts.End, opts.Step)\n\t\t}}\n",
		Old2: "func unpackVectorSelector(",
		New2: "type lazyRemoteQuery struct {\n\tpromql.Query\n\tcreate func() (promql.Query, error)\n}\n\nfunc (l *lazyRemoteQuery) Exec(ctx context.Context) *promql.Result {\n\tq, err := l.create()\n\tif err != nil {\n\t\treturn &promql.Result{Err: err}\n\t}\n\tl.Query = q\n\treturn q.Exec(ctx)\n}\n\nfunc (l *lazyRemoteQuery) Close() {\n\tif l.Query != nil {\n\t\tl.Query.Close()\n\t}\n}\n\nfunc unpackVectorSelector(",
		Old3: "import (\n", New3: "import (\n\t\"context\"\n",
		Expect: "newOperator"})
}

// calledOnTheSpot: every use of the closure is a direct call (or defer) in the function that makes it.
func calledOnTheSpot(mc *ssa.MakeClosure) bool {
	refs := core.Referrers(mc)
	if len(refs) == 0 {
		return false
	}
	for _, r := range refs {
		switch x := r.(type) {
		case *ssa.Call:
			if x.Call.Value != mc {
				return false
			}
		case *ssa.Defer:
			if x.Call.Value != mc {
				return false
			}
		default:
			return false
		}
	}
	return true
}

func ruleCreateTime(p *core.Program) []core.Obligation {
	const rule = "R-CREATETIME"
	var obs []core.Obligation
	isCtor := func(n string) bool { return n == "NewRangeQuery" || n == "NewInstantQuery" }
	// creation-time code
	var work []*ssa.Function
	seen := map[*ssa.Function]bool{}
	push := func(f *ssa.Function) {
		if f != nil && f.Blocks != nil && p.InRepo(f) && !seen[f] {
			seen[f] = true
			work = append(work, f)
		}
	}
	push(p.Func("execution", "New"))
	for _, fn := range p.Funcs {
		if fn.Parent() == nil && fn.Signature.Recv() != nil && isCtor(fn.Name()) {
			push(fn)
		}
	}
	for len(work) > 0 {
		f := work[0]
		work = work[1:]
		core.EachInstr(f, func(_ *ssa.BasicBlock, _ int, ins ssa.Instruction) {
			switch x := ins.(type) {
			case *ssa.Call:
				push(x.Call.StaticCallee())
			case *ssa.Defer:
				push(x.Call.StaticCallee())
			case *ssa.MakeClosure:
				if calledOnTheSpot(x) {
					if cf, ok := x.Fn.(*ssa.Function); ok {
						push(cf)
					}
				}
			}
		})
	}
	for _, fn := range p.Funcs {
		k := 0
		f := fn
		core.EachInstr(fn, func(_ *ssa.BasicBlock, _ int, ins ssa.Instruction) {
			cc := core.CallCommon(ins)
			if cc == nil {
				return
			}
			name := ""
			if cc.IsInvoke() {
				name = cc.Method.Name()
			} else if sc := cc.StaticCallee(); sc != nil && sc.Signature.Recv() != nil {
				name = sc.Name()
			}
			if !isCtor(name) {
				return
			}
			k++
			key := fmt.Sprintf("%s call #%d of %s runs at query creation", core.FuncName(f), k, name)
			if seen[f] {
				obs = append(obs, core.Ob(rule, key, p.Pos(ins.Pos()), core.FuncName(f), core.Held, "reached from the creation entry points through direct calls"))
			} else {
				obs = append(obs, core.Ob(rule, key, p.Pos(ins.Pos()), core.FuncName(f), core.Violated, "the function is not reached from execution.New or a NewRangeQuery/NewInstantQuery method through direct calls: the sub-query is created (and an unsupported expression reported) after the query was accepted, too late for the fallback and for rejection at creation"))
			}
		})
	}
	return obs
}

// ---------------------------------------------------------------------------------------------

func init() {
	register(&Rule{ID: "R-GRIDMILLIS", Min: 20, Run: ruleGridMillis,
		Doc: "every use of the evaluation window (query.Options.Start, End, Step) in arithmetic goes through the truncated millisecond value (Time.UnixMilli / timestamp.FromTime, Duration.Milliseconds / division by time.Millisecond) that every operator walks the step grid in; the values are otherwise only copied or handed on. A step count, batch size or bound computed at another granularity (Time.Sub, Duration division, Seconds ...) disagrees with the grid for windows with sub-millisecond parts, and sibling operators then cut their streams into different batches"})

	mutant(Mutant{Rule: "R-GRIDMILLIS", Name: "step-count-from-durations", File: "query/options.go",
		Old: "\ttotalSteps := (o.End.UnixMilli()-o.Start.UnixMilli())/o.Step.Milliseconds() + 1\n", New: "\ttotalSteps := int64(o.End.Sub(o.Start)/o.Step) + 1\n", Expect: "NumSteps"})
	mutant(Mutant{Rule: "R-GRIDMILLIS", Name: "literal-selector-end-in-seconds", File: "execution/scan/literal_selector.go",
		Old: "\t\tmaxt:        opts.End.UnixMilli(),\n", New: "\t\tmaxt:        opts.End.Unix() * 1000,\n", Expect: "NewNumberLiteralSelector"})
}

func ruleGridMillis(p *core.Program) []core.Obligation {
	const rule = "R-GRIDMILLIS"
	var obs []core.Obligation
	const pkgTimestamp = "github.com/prometheus/prometheus/model/timestamp"
	// badUse returns a description of the first use of v (a time.Time or time.Duration taken from the
	// window) that computes at another granularity.
	var badUse func(p *core.Program, v ssa.Value, seen map[ssa.Value]bool, depth int) string
	badUse = func(p *core.Program, v ssa.Value, seen map[ssa.Value]bool, depth int) string {
		if seen[v] || depth > 3 {
			return ""
		}
		seen[v] = true
		for _, r := range core.Referrers(v) {
			switch x := r.(type) {
			case *ssa.Call:
				name := core.CalleeName(&x.Call)
				switch name {
				case "(time.Time).UnixMilli", "(time.Duration).Milliseconds", pkgTimestamp + ".FromTime":
					continue
				}
				if strings.HasPrefix(name, "(time.Time).") || strings.HasPrefix(name, "(time.Duration).") {
					if len(x.Call.Args) > 0 && x.Call.Args[0] == v || len(x.Call.Args) > 1 && x.Call.Args[1] == v {
						return fmt.Sprintf("%s at %s", name, p.Pos(x.Pos()))
					}
				}
				// handed to a function of the repository: its uses of the parameter count
				if callee := x.Call.StaticCallee(); callee != nil && callee.Blocks != nil && p.InRepo(callee) {
					for ai, a := range x.Call.Args {
						if a == v && ai < len(callee.Params) {
							if b := badUse(p, callee.Params[ai], seen, depth+1); b != "" {
								return b
							}
						}
					}
				}
			case *ssa.BinOp:
				if x.Op == token.QUO && x.X == v {
					if c, ok := x.Y.(*ssa.Const); ok && c.Value != nil && c.Value.ExactString() == "1000000" {
						continue // d / time.Millisecond
					}
				}
				return fmt.Sprintf("operator %s at %s", x.Op, p.Pos(x.Pos()))
			case *ssa.Convert, *ssa.ChangeType, *ssa.Phi:
				if b := badUse(p, x.(ssa.Value), seen, depth); b != "" {
					return b
				}
			}
		}
		return ""
	}
	for _, fn := range p.Funcs {
		f := fn
		counts := map[string]int{}
		core.EachInstr(fn, func(_ *ssa.BasicBlock, _ int, ins ssa.Instruction) {
			var fieldVal ssa.Value
			var field string
			switch x := ins.(type) {
			case *ssa.UnOp:
				if x.Op != token.MUL {
					return
				}
				n, fld, _, ok := core.FieldRef(x.X)
				if !ok || n == nil || !core.TypeIs(n, core.Module+"/query", "Options") {
					return
				}
				fieldVal, field = x, fld
			case *ssa.Field:
				n, fld, _, ok := core.FieldRef(x)
				if !ok || n == nil || !core.TypeIs(n, core.Module+"/query", "Options") {
					return
				}
				fieldVal, field = x, fld
			default:
				return
			}
			if field != "Start" && field != "End" && field != "Step" {
				return
			}
			counts[field]++
			key := fmt.Sprintf("%s reads the window's %s #%d in milliseconds", core.FuncName(f), field, counts[field])
			if b := badUse(p, fieldVal, map[ssa.Value]bool{}, 0); b != "" {
				obs = append(obs, core.Ob(rule, key, p.Pos(ins.Pos()), core.FuncName(f), core.Violated, "computed with "+b+" instead of the truncated millisecond value: the result disagrees with the millisecond step grid of the operators when Start/End/Step have sub-millisecond parts"))
			} else {
				obs = append(obs, core.Ob(rule, key, p.Pos(ins.Pos()), core.FuncName(f), core.Held, "converted to milliseconds, copied or handed on"))
			}
		})
	}
	return obs
}

// ---------------------------------------------------------------------------------------------

func init() {
	register(&Rule{ID: "R-REMOTETEXT", Min: 1, Run: ruleRemoteText,
		Doc: "the sub-query of a remote execution travels as text (RemoteExecution.Query = String() of a subtree) and is parsed again by the remote engine. Every node type of the repository that another optimizer can have put into the tree (a type with a PromQLExpr method that is allocated outside the code of the distribution optimizer: logicalplan.FilteredSelector) is converted before the text is rendered: a call that dominates the String() call reaches a type switch / assertion on that type. Such nodes render as text that is not PromQL (filter(...), or a panic inside a range selector), and the distributed engine then fails a query a single engine answers"})

	mutant(Mutant{Rule: "R-REMOTETEXT", Name: "merged-selectors-rendered-as-they-are", File: "logicalplan/distribute.go",
		Old: "\tunmergeSelectors(current)\n", New: "", Expect: "makeSubQueries"})
}

func ruleRemoteText(p *core.Program) []core.Obligation {
	const rule = "R-REMOTETEXT"
	var obs []core.Obligation
	staticReach := func(root *ssa.Function) map[*ssa.Function]bool {
		seen := map[*ssa.Function]bool{}
		var walk func(f *ssa.Function)
		walk = func(f *ssa.Function) {
			if f == nil || f.Blocks == nil || seen[f] || !p.InRepo(f) {
				return
			}
			seen[f] = true
			core.EachInstr(f, func(_ *ssa.BasicBlock, _ int, ins ssa.Instruction) {
				if cc := core.CallCommon(ins); cc != nil {
					walk(cc.StaticCallee())
				}
				if mc, ok := ins.(*ssa.MakeClosure); ok {
					if cf, ok := mc.Fn.(*ssa.Function); ok {
						walk(cf)
					}
				}
			})
		}
		walk(root)
		return seen
	}
	isNodeType := func(t types.Type) *types.Named {
		if pt, ok := t.Underlying().(*types.Pointer); ok {
			t = pt.Elem()
		}
		n, ok := t.(*types.Named)
		if !ok || n.Obj().Pkg() == nil || !strings.HasPrefix(n.Obj().Pkg().Path(), core.Module) {
			return nil
		}
		for _, tt := range []types.Type{n, types.NewPointer(n)} {
			ms := types.NewMethodSet(tt)
			for i := 0; i < ms.Len(); i++ {
				if ms.At(i).Obj().Name() == "PromQLExpr" {
					return n
				}
			}
		}
		return nil
	}
	// the sites: stores into RemoteExecution.Query
	type siteT struct {
		fn    *ssa.Function
		store *ssa.Store
	}
	var sites []siteT
	for _, fn := range p.Funcs {
		f := fn
		core.EachInstr(fn, func(_ *ssa.BasicBlock, _ int, ins ssa.Instruction) {
			st, ok := ins.(*ssa.Store)
			if !ok {
				return
			}
			if n, fld, _, ok := core.FieldRef(st.Addr); ok && n != nil && n.Obj().Name() == "RemoteExecution" && fld == "Query" {
				sites = append(sites, siteT{f, st})
			}
		})
	}
	if len(sites) == 0 {
		return nil
	}
	// the distribution optimizer's own code: what reaches the sites' functions statically
	own := map[*ssa.Function]bool{}
	for _, fn := range p.Funcs {
		if fn.Parent() != nil || fn.Name() != "Optimize" {
			continue
		}
		r := staticReach(fn)
		for _, s := range sites {
			if r[s.fn] {
				for f := range r {
					own[f] = true
				}
			}
		}
	}
	// foreign node types and who creates them
	foreign := map[*types.Named]string{}
	for _, fn := range p.Funcs {
		if own[fn] {
			continue
		}
		f := fn
		core.EachInstr(fn, func(_ *ssa.BasicBlock, _ int, ins ssa.Instruction) {
			if al, ok := ins.(*ssa.Alloc); ok && al.Comment == "complit" { // a composite literal, not a spilled copy
				if n := isNodeType(al.Type().Underlying().(*types.Pointer).Elem()); n != nil {
					if _, dup := foreign[n]; !dup {
						foreign[n] = core.FuncName(f)
					}
				}
			}
		})
	}
	var fnames []*types.Named
	for n := range foreign {
		fnames = append(fnames, n)
	}
	sort.Slice(fnames, func(i, j int) bool { return fnames[i].Obj().Name() < fnames[j].Obj().Name() })
	for k, s := range sites {
		key := fmt.Sprintf("%s #%d renders the remote query text from plain PromQL nodes", core.FuncName(s.fn), k+1)
		// the String() call that produces the text
		var render ssa.Instruction
		core.BackSlice(s.store.Val, func(v ssa.Value) bool {
			if c, ok := v.(*ssa.Call); ok && render == nil {
				name := ""
				if c.Call.IsInvoke() {
					name = c.Call.Method.Name()
				} else if sc := c.Call.StaticCallee(); sc != nil {
					name = sc.Name()
				}
				if name == "String" || name == "Pretty" {
					render = c
				}
			}
			return true
		})
		if render == nil {
			obs = append(obs, core.Ob(rule, key, p.Pos(s.store.Pos()), core.FuncName(s.fn), core.Undecided, "the query text is not the result of a String() call in this function"))
			continue
		}
		handled := map[*types.Named]bool{}
		core.EachInstr(s.fn, func(_ *ssa.BasicBlock, _ int, ins ssa.Instruction) {
			c, ok := ins.(*ssa.Call)
			if !ok || c == render || !core.InstrDominates(c, render) {
				return
			}
			callee := c.Call.StaticCallee()
			if callee == nil || !p.InRepo(callee) {
				return
			}
			for f := range staticReach(callee) {
				core.EachInstr(f, func(_ *ssa.BasicBlock, _ int, x ssa.Instruction) {
					if ta, ok := x.(*ssa.TypeAssert); ok {
						if n := isNodeType(ta.AssertedType); n != nil {
							handled[n] = true
						}
					}
				})
			}
		})
		var missing []string
		for _, n := range fnames {
			if !handled[n] {
				missing = append(missing, fmt.Sprintf("%s (created by %s)", n.Obj().Name(), foreign[n]))
			}
		}
		if len(missing) > 0 {
			obs = append(obs, core.Ob(rule, key, p.Pos(render.Pos()), core.FuncName(s.fn), core.Violated, "rendered with String() although the tree can contain "+strings.Join(missing, ", ")+", which does not render as PromQL: the remote engine rejects the sub-query (or gets a different one) when that optimizer ran before the distribution"))
		} else {
			var hs []string
			for _, n := range fnames {
				hs = append(hs, n.Obj().Name())
			}
			obs = append(obs, core.Ob(rule, key, p.Pos(render.Pos()), core.FuncName(s.fn), core.Held, fmt.Sprintf("node types of other optimizers %v are converted by a call that dominates the rendering", hs)))
		}
	}
	return obs
}

// ---------------------------------------------------------------------------------------------

func init() {
	register(&Rule{ID: "R-ERRBEFORE", Min: 70, Run: ruleErrBefore,
		Doc: "the error of a call into an operator, the storage, a remote engine or one of the repository's own functions is looked at before the function can return without it: on every path from the call to a return, the error is tested (err != nil), returned, sent, stored or passed on first, and the variable it is kept in is not assigned again before that. A return that is reachable before the test (an 'end of stream' check on the other result, a fast path) turns the failure into a clean end of the stream - a partial or empty result that looks like success. (Query creation, where the planner's error drives the fallback decision, is excluded: R-VOCAB)"})

	mutant(Mutant{Rule: "R-ERRBEFORE", Name: "end-of-stream-test-before-error-test", File: "execution/aggregate/hashaggregate.go",
		Old: "\tin, err := a.next.Next(ctx)\n\tif err != nil {\n\t\treturn nil, err\n\t}\n\tif in == nil {\n\t\treturn nil, nil\n\t}\n", New: "\tin, err := a.next.Next(ctx)\n\tif in == nil {\n\t\treturn nil, nil\n\t}\n", Expect: "aggregate"})
	mutant(Mutant{Rule: "R-ERRBEFORE", Name: "unary-error-test-after-nil-test", File: "execution/unary/unary.go",
		Old: "\tif err != nil {\n\t\treturn nil, err\n\t}\n\tif in == nil {\n\t\treturn nil, nil\n\t}\n", New: "\tif in == nil {\n\t\treturn nil, nil\n\t}\n\tif err != nil {\n\t\treturn nil, err\n\t}\n", Expect: "unaryNegation"})
}

func ruleErrBefore(p *core.Program) []core.Obligation {
	const rule = "R-ERRBEFORE"
	var obs []core.Obligation
	errT := types.Universe.Lookup("error").Type()
	for _, fn := range p.Funcs {
		rel := core.Rel(fn.Pkg.Pkg.Path())
		if !(rel == "engine" || rel == "logicalplan" || strings.HasPrefix(rel, "execution") || rel == "worker") {
			continue
		}
		if rel == "engine" && (fn.Name() == "NewInstantQuery" || fn.Name() == "NewRangeQuery") {
			// query creation: the planner's error is the input of the fallback decision (which may be taken
			// by a helper that reports it through a flag); that decision is R-VOCAB's subject (C08)
			continue
		}
		f := fn
		counts := map[string]int{}
		core.EachInstr(fn, func(b *ssa.BasicBlock, i int, ins ssa.Instruction) {
			call, ok := ins.(*ssa.Call)
			if !ok {
				return
			}
			cc := &call.Call
			sig := cc.Signature()
			if sig == nil || sig.Results().Len() < 2 {
				return // a lone error result: R-ERRPROP's subject (there is no other result to return early on)
			}
			errIdx := -1
			for r := 0; r < sig.Results().Len(); r++ {
				if types.Identical(sig.Results().At(r).Type(), errT) {
					errIdx = r
				}
			}
			if errIdx < 0 {
				return
			}
			inScope := false
			name := core.CalleeName(cc)
			if cc.IsInvoke() {
				name = types.TypeString(cc.Value.Type(), nil) + "." + cc.Method.Name()
				if n := core.NamedOf(cc.Value.Type()); n != nil && n.Obj().Pkg() != nil {
					pp := n.Obj().Pkg().Path()
					inScope = strings.HasPrefix(pp, core.Module) || pp == pkgStorage || (pp == pkgPromql && n.Obj().Name() == "Query")
				}
			} else if sf := cc.StaticCallee(); sf != nil {
				inScope = p.InRepo(sf)
			} else if _, isBuiltin := cc.Value.(*ssa.Builtin); !isBuiltin {
				inScope = true
			}
			if !inScope {
				return
			}
			var errVal ssa.Value
			for _, r := range core.Referrers(call) {
				if ex, ok := r.(*ssa.Extract); ok && ex.Index == errIdx {
					errVal = ex
				}
				if _, ok := r.(*ssa.Return); ok {
					return // return f(...): handed on whole
				}
			}
			if errVal == nil {
				return // never extracted: R-ERRPROP reports it
			}
			short := strings.ReplaceAll(name, core.Module+"/", "")
			if k := strings.LastIndex(short, "/"); k >= 0 {
				short = short[k+1:]
			}
			counts[short]++
			key := fmt.Sprintf("%s looks at the error of %s #%d before it can return", core.FuncName(f), short, counts[short])
			// the values the error lives in: the extract, phis it flows into, the cells it is stored in
			derived := map[ssa.Value]bool{errVal: true}
			cells := map[ssa.Value]bool{}
			for changed := true; changed; {
				changed = false
				for v := range derived {
					for _, r := range core.Referrers(v) {
						switch x := r.(type) {
						case *ssa.Phi:
							if !derived[x] {
								derived[x] = true
								changed = true
							}
						case *ssa.Store:
							if al, ok := x.Addr.(*ssa.Alloc); ok && x.Val == v && !cells[al] {
								cells[al] = true
								changed = true
							}
						case *ssa.MakeInterface, *ssa.ChangeInterface:
							if xv := x.(ssa.Value); !derived[xv] {
								derived[xv] = true
								changed = true
							}
						}
					}
				}
			}
			isDerived := func(v ssa.Value) bool {
				if derived[v] {
					return true
				}
				if u, ok := v.(*ssa.UnOp); ok && u.Op == token.MUL && cells[u.X] {
					return true
				}
				return false
			}
			// looks(ins): the instruction tests or consumes the error
			looks := func(ins ssa.Instruction) bool {
				switch x := ins.(type) {
				case *ssa.Phi, *ssa.DebugRef, *ssa.Extract:
					return false
				case *ssa.Store:
					if cells[x.Addr] {
						return false
					}
				case *ssa.UnOp:
					return false // a load of the cell is not yet a look
				case *ssa.MakeClosure:
					return false // capturing the variable is not a look
				}
				for _, op := range ins.Operands(nil) {
					if op != nil && *op != nil && isDerived(*op) {
						return true
					}
				}
				return false
			}
			var bad string
			seen := map[*ssa.BasicBlock]bool{}
			var walk func(blk *ssa.BasicBlock, from int)
			walk = func(blk *ssa.BasicBlock, from int) {
				if bad != "" {
					return
				}
				for _, x := range blk.Instrs[from:] {
					if looks(x) {
						return
					}
					switch y := x.(type) {
					case *ssa.Store:
						if cells[y.Addr] && !isDerived(y.Val) {
							bad = "the variable holding it is assigned again at " + p.Pos(y.Pos()) + " before anything has looked at it"
							return
						}
					case *ssa.Return:
						bad = "the return at " + p.Pos(y.Pos()) + " is reachable before the error has been looked at"
						return
					case *ssa.Panic:
						return
					}
				}
				for _, s := range blk.Succs {
					if !seen[s] {
						seen[s] = true
						walk(s, 0)
					}
				}
			}
			walk(b, i+1)
			if bad != "" {
				obs = append(obs, core.Ob(rule, key, p.Pos(call.Pos()), core.FuncName(f), core.Violated, bad+": a failure of the call ends the stream (or the query) as if nothing had happened"))
			} else {
				obs = append(obs, core.Ob(rule, key, p.Pos(call.Pos()), core.FuncName(f), core.Held, "tested or handed on before every return"))
			}
		})
	}
	return obs
}

// ---------------------------------------------------------------------------------------------

func init() {
	register(&Rule{ID: "R-WRAPRET", Min: 2, Run: ruleWrapRet,
		Doc: "the constructors of the exchange operators (NewConcurrent, NewCoalesce: the operators that move their operands onto goroutines with a reporting recover, that other rules treat as recover and concurrency boundaries - R-WRAP, R-PANICDOMAIN) return an operator of their own package on every path, never one of the operands they were given: a short cut that hands an operand back removes the boundary for that plan shape, and a storage panic below it travels up a goroutine that nobody expects it on"})

	mutant(Mutant{Rule: "R-WRAPRET", Name: "single-operand-short-cut", File: "execution/exchange/coalesce.go",
		Old: "\treturn &coalesceOperator{\n", New: "\tif len(operators) == 1 {\n\t\treturn operators[0]\n\t}\n\treturn &coalesceOperator{\n", Expect: "NewCoalesce"})
}

func ruleWrapRet(p *core.Program) []core.Obligation {
	const rule = "R-WRAPRET"
	var obs []core.Obligation
	sp := p.SSAPkg("execution/exchange")
	if sp == nil {
		return []core.Obligation{core.Ob(rule, "package execution/exchange", "-", "", core.Lost, "not found")}
	}
	isOps := func(t types.Type) bool {
		if isVectorOperatorIface(t) {
			return true
		}
		if sl, ok := t.Underlying().(*types.Slice); ok {
			return isVectorOperatorIface(sl.Elem())
		}
		return false
	}
	for _, fn := range p.Funcs {
		if fn.Pkg != sp || fn.Parent() != nil || fn.Signature.Recv() != nil {
			continue
		}
		res := fn.Signature.Results()
		if res.Len() == 0 || !isVectorOperatorIface(res.At(0).Type()) {
			continue
		}
		takes := false
		for _, prm := range fn.Params {
			if isOps(prm.Type()) {
				takes = true
			}
		}
		if !takes {
			continue
		}
		key := fmt.Sprintf("execution/exchange.%s returns its own operator", fn.Name())
		bad := ""
		core.EachInstr(fn, func(b *ssa.BasicBlock, _ int, ins ssa.Instruction) {
			ret, ok := ins.(*ssa.Return)
			if !ok || b == fn.Recover || len(ret.Results) == 0 {
				return
			}
			for v := range core.PhiClosure(ret.Results[0]) {
				mi, ok := v.(*ssa.MakeInterface)
				if ok {
					if n := core.NamedOf(mi.X.Type()); n != nil && n.Obj().Pkg() == sp.Pkg {
						continue
					}
					if pt, isPtr := mi.X.Type().Underlying().(*types.Pointer); isPtr {
						if n := core.NamedOf(pt.Elem()); n != nil && n.Obj().Pkg() == sp.Pkg {
							continue
						}
					}
				}
				if c, isConst := v.(*ssa.Const); isConst && c.Value == nil {
					continue
				}
				bad = p.Pos(ret.Pos())
			}
		})
		if bad != "" {
			obs = append(obs, core.Ob(rule, key, bad, core.FuncName(fn), core.Violated, "a path returns something other than an operator of package exchange (an operand handed back as it is): for that plan shape the operand runs on the caller's goroutine without the recover and the hand-over the wrapper provides"))
		} else {
			obs = append(obs, core.Ob(rule, key, p.Pos(fn.Pos()), core.FuncName(fn), core.Held, "every return is a freshly built operator of the package"))
		}
	}
	return obs
}

// ---------------------------------------------------------------------------------------------

func init() {
	register(&Rule{ID: "R-NILFIELD", Min: 3, Run: ruleNilField,
		Doc: "a field of an operator (interface or pointer typed) that one of the type's methods compares with nil - the code itself states that it can be nil, e.g. the parameter operator of an aggregation without parameter - is called through, or handed out (returned, appended, passed on), in the other methods only on the non-nil branch of such a test: calling a method on the nil operator, or handing it to code that does (Explain's list of children), panics on a goroutine or in query planning"})

	mutant(Mutant{Rule: "R-NILFIELD", Name: "explain-lists-absent-parameter", File: "execution/aggregate/hashaggregate.go",
		Old: "\tif a.paramOp != nil {\n\t\tops = append(ops, a.paramOp)\n\t}\n", New: "\tops = append(ops, a.paramOp)\n", Expect: "paramOp"})
}

func ruleNilField(p *core.Program) []core.Obligation {
	const rule = "R-NILFIELD"
	var obs []core.Obligation
	type fieldKey struct {
		t *types.Named
		f string
	}
	isNilCmp := func(v ssa.Value) (ssa.Value, bool, bool) { // operand, isNeq, ok
		bo, ok := v.(*ssa.BinOp)
		if !ok || (bo.Op != token.EQL && bo.Op != token.NEQ) {
			return nil, false, false
		}
		if core.IsNilConst(bo.Y) {
			return bo.X, bo.Op == token.NEQ, true
		}
		if core.IsNilConst(bo.X) {
			return bo.Y, bo.Op == token.NEQ, true
		}
		return nil, false, false
	}
	fieldOfLoad := func(v ssa.Value) (fieldKey, ssa.Value, bool) {
		u, ok := v.(*ssa.UnOp)
		if !ok || u.Op != token.MUL {
			return fieldKey{}, nil, false
		}
		n, f, base, ok := core.FieldRef(u.X)
		if !ok || n == nil || n.Obj().Pkg() == nil || !strings.HasPrefix(n.Obj().Pkg().Path(), core.Module+"/execution") {
			return fieldKey{}, nil, false
		}
		switch u.Type().Underlying().(type) {
		case *types.Interface, *types.Pointer:
		default:
			return fieldKey{}, nil, false
		}
		return fieldKey{n, f}, base, true
	}
	// fields the code itself tests for nil
	maybeNil := map[fieldKey]bool{}
	for _, fn := range p.Funcs {
		core.EachInstr(fn, func(_ *ssa.BasicBlock, _ int, ins ssa.Instruction) {
			if v, ok := ins.(ssa.Value); ok {
				if x, _, ok := isNilCmp(v); ok {
					if k, _, ok := fieldOfLoad(x); ok {
						maybeNil[k] = true
					}
				}
			}
		})
	}
	for _, fn := range p.Funcs {
		recv := recvNamed(fn)
		if recv == nil {
			if fn.Parent() == nil {
				continue
			}
		}
		f := fn
		counts := map[string]int{}
		core.EachInstr(fn, func(b *ssa.BasicBlock, _ int, ins ssa.Instruction) {
			ld, ok := ins.(*ssa.UnOp)
			if !ok {
				return
			}
			k, base, ok := fieldOfLoad(ld)
			if !ok || !maybeNil[k] {
				return
			}
			// how the loaded value is used: called through / dereferenced, or - for an operator - handed to code
			// that will call it. (Handing on a possibly-nil error or pointer is ordinary.)
			if types.Identical(ld.Type(), types.Universe.Lookup("error").Type()) {
				return
			}
			isOp := isVectorOperatorIface(ld.Type())
			use := ""
			var at ssa.Instruction
			for _, r := range core.Referrers(ld) {
				if !isOp {
					switch r.(type) {
					case *ssa.Store, *ssa.Return:
						continue
					case *ssa.Call:
						if c := r.(*ssa.Call); !(c.Call.IsInvoke() && c.Call.Value == ssa.Value(ld)) {
							continue
						}
					}
				}
				switch x := r.(type) {
				case *ssa.Call:
					if x.Call.IsInvoke() && x.Call.Value == ssa.Value(ld) {
						use, at = "a method is called on it", x
					} else {
						for _, a := range x.Call.Args {
							if a == ssa.Value(ld) {
								use, at = "it is passed on", x
							}
						}
					}
				case *ssa.Store:
					if x.Val == ssa.Value(ld) {
						use, at = "it is handed out (stored into a list or record)", x
					}
				case *ssa.Return:
					use, at = "it is returned", x
				case *ssa.UnOp:
					if x.Op == token.MUL {
						use, at = "it is dereferenced", x
					}
				case *ssa.FieldAddr:
					use, at = "a field is read through it", x
				}
			}
			if use == "" {
				return
			}
			name := k.t.Obj().Name() + "." + k.f
			counts[name]++
			key := fmt.Sprintf("%s uses the optional field %s #%d only where it is not nil", core.FuncName(f), name, counts[name])
			// guardedAt: at lies on the non-nil branch of a test of the field (of the object base) in g; a helper
			// method of the type is guarded when every one of its call sites is
			var guardedAt func(g *ssa.Function, at ssa.Instruction, base ssa.Value, depth int) bool
			guardedAt = func(g *ssa.Function, at ssa.Instruction, base ssa.Value, depth int) bool {
				for _, gb := range g.Blocks {
					iff := core.IfOf(gb)
					if iff == nil {
						continue
					}
					x, isNeq, ok := isNilCmp(iff.Cond)
					if !ok {
						continue
					}
					gk, gbase, ok := fieldOfLoad(x)
					if !ok || gk != k || !core.SameExpr(gbase, base) {
						continue
					}
					succ := 1
					if isNeq {
						succ = 0
					}
					if core.BranchDominates(gb, succ, at.Block()) {
						return true
					}
				}
				if depth >= 2 || g.Parent() != nil || token.IsExported(g.Name()) || len(g.Params) == 0 || base != ssa.Value(g.Params[0]) {
					return false
				}
				sites := 0
				for _, caller := range p.Funcs {
					okAll := true
					core.EachInstr(caller, func(_ *ssa.BasicBlock, _ int, x ssa.Instruction) {
						c, isCall := x.(*ssa.Call)
						if !isCall || c.Call.StaticCallee() != g || len(c.Call.Args) == 0 {
							return
						}
						sites++
						if !guardedAt(caller, c, c.Call.Args[0], depth+1) {
							okAll = false
						}
					})
					if !okAll {
						return false
					}
				}
				return sites > 0
			}
			guarded := guardedAt(f, at, base, 0)
			if guarded {
				obs = append(obs, core.Ob(rule, key, p.Pos(at.Pos()), core.FuncName(f), core.Held, "on the non-nil branch of a test of the field"))
			} else {
				obs = append(obs, core.Ob(rule, key, p.Pos(at.Pos()), core.FuncName(f), core.Violated, use+" without a nil test, although other code of the type tests this field for nil (it is absent for some plans): a nil operator is called, or listed as a child and called by whoever walks the list"))
			}
		})
	}
	return obs
}

// ---------------------------------------------------------------------------------------------

func init() {
	register(&Rule{ID: "R-EMPTYBY", Min: 1, Run: ruleEmptyBy,
		Doc: "in an aggregation operator (a type with a by/without flag and a grouping label list) a branch that is taken because the label list is empty is only taken when the flag says 'by': by () puts every sample into one group, without () keeps every label set apart - an empty-list short cut that does not look at the flag collapses all series of a without () aggregation into one"})

	mutant(Mutant{Rule: "R-EMPTYBY", Name: "empty-list-short-cut-ignores-without", File: "execution/aggregate/hashaggregate.go",
		Old: "\tif a.by && len(a.labels) == 0 {\n", New: "\tif len(a.labels) == 0 {\n", Expect: "initializeTables"})
}

func ruleEmptyBy(p *core.Program) []core.Obligation {
	const rule = "R-EMPTYBY"
	var obs []core.Obligation
	// operator types with a bool field "by" and a []string field "labels"
	isGrouping := func(n *types.Named) bool {
		st, ok := n.Underlying().(*types.Struct)
		if !ok {
			return false
		}
		hasBy, hasLabels := false, false
		for i := 0; i < st.NumFields(); i++ {
			f := st.Field(i)
			if f.Name() == "by" && types.Identical(f.Type(), types.Typ[types.Bool]) {
				hasBy = true
			}
			if f.Name() == "labels" {
				if sl, ok := f.Type().Underlying().(*types.Slice); ok && types.Identical(sl.Elem(), types.Typ[types.String]) {
					hasLabels = true
				}
			}
		}
		return hasBy && hasLabels
	}
	loadOf := func(v ssa.Value, field string) (*types.Named, ssa.Value, bool) {
		u, ok := v.(*ssa.UnOp)
		if !ok || u.Op != token.MUL {
			return nil, nil, false
		}
		n, f, base, ok := core.FieldRef(u.X)
		if !ok || n == nil || f != field || !isGrouping(n) {
			return nil, nil, false
		}
		return n, base, true
	}
	for _, fn := range p.Funcs {
		if !hasPrefixRel(fn, "execution") {
			continue
		}
		f := fn
		k := 0
		for _, b := range fn.Blocks {
			iff := core.IfOf(b)
			if iff == nil {
				continue
			}
			bo, ok := iff.Cond.(*ssa.BinOp)
			if !ok {
				continue
			}
			// len(x.labels) == 0 / != 0 / > 0 / < 1
			var lenCall *ssa.Call
			emptySucc := -1
			if c, ok := bo.X.(*ssa.Call); ok {
				if bi, ok := c.Call.Value.(*ssa.Builtin); ok && bi.Name() == "len" {
					if n, isInt := core.ConstInt(bo.Y); isInt {
						switch {
						case bo.Op == token.EQL && n == 0, bo.Op == token.LSS && n == 1, bo.Op == token.LEQ && n == 0:
							lenCall, emptySucc = c, 0
						case bo.Op == token.NEQ && n == 0, bo.Op == token.GTR && n == 0, bo.Op == token.GEQ && n == 1:
							lenCall, emptySucc = c, 1
						}
					}
				}
			}
			if lenCall == nil {
				continue
			}
			n, base, ok := loadOf(lenCall.Call.Args[0], "labels")
			if !ok {
				continue
			}
			k++
			key := fmt.Sprintf("%s empty-grouping branch #%d also depends on %s.by", core.FuncName(f), k, n.Obj().Name())
			target := b.Succs[emptySucc]
			ok2 := false
			for _, gb := range f.Blocks {
				gi := core.IfOf(gb)
				if gi == nil {
					continue
				}
				cond, neg := core.StripNot(gi.Cond)
				gn, gbase, isBy := loadOf(cond, "by")
				if !isBy || gn != n || !core.SameExpr(gbase, base) {
					continue
				}
				succ := 0
				if neg {
					succ = 1
				}
				if core.BranchDominates(gb, succ, target) || core.BranchDominates(gb, succ, b) {
					ok2 = true
				}
			}
			if ok2 {
				obs = append(obs, core.Ob(rule, key, p.Pos(iff.Pos()), core.FuncName(f), core.Held, "taken only on the 'by' branch of the flag"))
			} else {
				obs = append(obs, core.Ob(rule, key, p.Pos(lenCall.Pos()), core.FuncName(f), core.Violated, "the branch for an empty grouping list is taken whatever the by/without flag says: a 'without ()' aggregation (every label set its own group) is treated like 'by ()' (one group)"))
			}
		}
	}
	return obs
}

// ---------------------------------------------------------------------------------------------

func init() {
	register(&Rule{ID: "R-ENGINEOBJ", Min: 8, Run: ruleEngineObj,
		Doc: "an engine (a type of package engine that creates queries: it is shared by every query created on it, concurrently) holds no object of a standard-library type that is documented as not safe for concurrent use (bufio, bytes.Buffer, strings.Builder, math/rand.Rand, container/*, text/tabwriter, encoding and compress writers) and no map it updates, unless every use outside the constructor is between Lock and Unlock of a mutex. Such an object is engine-wide mutable state: queries created or executed at the same time race on it, and the output of one query is mixed with another's"})
	register(&Rule{ID: "R-CTORSNAPSHOT", Min: 2, Run: ruleCtorSnapshot,
		Doc: "a constructor of an engine does not call into the providers it is handed (api.RemoteEndpoints, storage.Queryable: interfaces whose answer can change between queries): they are consulted when a query is planned or executed. A constructor that resolves them once keeps a snapshot across queries - remote engines that join later are silently left out of every query"})

	mutant(Mutant{Rule: "R-ENGINEOBJ", Name: "engine-wide-buffered-debug-writer", File: "engine/engine.go",
		Old: "\tdebugWriter io.Writer\n", New: "\tdebugWriter *bufio.Writer\n",
		Old2: "\t\tdebugWriter:       opts.DebugWriter,\n", New2: "\t\tdebugWriter:       bufio.NewWriter(opts.DebugWriter),\n",
		Old3: "import (\n", New3: "import (\n\t\"bufio\"\n", Expect: "debugWriter"})
	mutant(Mutant{Rule: "R-CTORSNAPSHOT", Name: "remote-engines-resolved-at-construction", File: "engine/engine.go",
		Old: "\toptimizers := make([]logicalplan.Optimizer, 0, len(opts.LogicalOptimizers)+1)\n", New: "\tendpoints = api.NewStaticEndpoints(endpoints.Engines())\n\toptimizers := make([]logicalplan.Optimizer, 0, len(opts.LogicalOptimizers)+1)\n", Expect: "NewDistributedEngine"})
}

var unsafeStdPkgs = map[string]bool{
	"bufio": true, "bytes": true, "strings": true, "math/rand": true, "container/heap": true, "container/list": true,
	"container/ring": true, "text/tabwriter": true, "encoding/json": true, "encoding/csv": true, "encoding/gob": true,
	"compress/gzip": true, "compress/flate": true, "compress/zlib": true, "hash/fnv": true, "github.com/cespare/xxhash/v2": true,
}

// engineTypes: the struct types of package engine that create queries.
func engineTypes(p *core.Program) []*types.Named {
	pk := p.Pkg("engine")
	if pk == nil {
		return nil
	}
	var out []*types.Named
	sc := pk.Types.Scope()
	for _, name := range sc.Names() {
		tn, ok := sc.Lookup(name).(*types.TypeName)
		if !ok {
			continue
		}
		n, ok := tn.Type().(*types.Named)
		if !ok {
			continue
		}
		if _, isStruct := n.Underlying().(*types.Struct); !isStruct {
			continue
		}
		for _, t := range []types.Type{n, types.NewPointer(n)} {
			ms := types.NewMethodSet(t)
			if ms.Lookup(pk.Types, "NewRangeQuery") != nil {
				out = append(out, n)
				break
			}
		}
	}
	return out
}

func ruleEngineObj(p *core.Program) []core.Obligation {
	const rule = "R-ENGINEOBJ"
	var obs []core.Obligation
	ets := engineTypes(p)
	if len(ets) == 0 {
		return []core.Obligation{core.Ob(rule, "engine types", "-", "", core.Lost, "no type of package engine has a NewRangeQuery method")}
	}
	unsafeType := func(t types.Type) string {
		if pt, ok := t.Underlying().(*types.Pointer); ok {
			t = pt.Elem()
		}
		if _, isMap := t.Underlying().(*types.Map); isMap {
			return "map"
		}
		if n, ok := t.(*types.Named); ok && n.Obj().Pkg() != nil && unsafeStdPkgs[n.Obj().Pkg().Path()] {
			if _, isIface := n.Underlying().(*types.Interface); !isIface {
				return n.Obj().Pkg().Path() + "." + n.Obj().Name()
			}
		}
		return ""
	}
	for _, et := range ets {
		st := et.Underlying().(*types.Struct)
		for i := 0; i < st.NumFields(); i++ {
			fld := st.Field(i)
			kind := unsafeType(fld.Type())
			key := fmt.Sprintf("engine.%s.%s is safe to share between queries", et.Obj().Name(), fld.Name())
			if kind == "" {
				obs = append(obs, core.Ob(rule, key, p.Pos(fld.Pos()), "", core.Held, "not a type known to be unsafe for concurrent use: "+types.TypeString(fld.Type(), func(pk *types.Package) string { return pk.Name() })))
				continue
			}
			// every use of the field outside constructors is under a mutex (a map: every update)
			bad := ""
			for _, fn := range p.Funcs {
				if core.Rel(fn.Pkg.Pkg.Path()) != "engine" || (fn.Signature.Recv() == nil && fn.Parent() == nil) {
					continue // constructors (plain functions) build the engine before it is shared
				}
				f := fn
				core.EachInstr(fn, func(_ *ssa.BasicBlock, _ int, ins ssa.Instruction) {
					ld, ok := ins.(*ssa.UnOp)
					if !ok || ld.Op != token.MUL || bad != "" {
						return
					}
					n, fname, _, ok := core.FieldRef(ld.X)
					if !ok || n != et || fname != fld.Name() {
						return
					}
					for _, r := range core.Referrers(ld) {
						switch x := r.(type) {
						case *ssa.BinOp:
							continue // compared with nil
						case *ssa.Lookup, *ssa.Range:
							if kind == "map" {
								continue // reading a map that is never updated is safe
							}
						case *ssa.MapUpdate:
							_ = x
						default:
							if kind == "map" {
								if _, isCall := r.(*ssa.Call); !isCall {
									continue
								}
							}
						}
						if !lockedIn(f, r) {
							bad = fmt.Sprintf("%s uses it at %s outside a mutex", core.FuncName(f), p.Pos(r.Pos()))
						}
					}
				})
			}
			if bad != "" {
				obs = append(obs, core.Ob(rule, key, p.Pos(fld.Pos()), "", core.Violated, "the field holds a "+kind+", which is not safe for concurrent use, and "+bad+": queries created or run concurrently on one engine race on it"))
			} else {
				obs = append(obs, core.Ob(rule, key, p.Pos(fld.Pos()), "", core.Held, "a "+kind+", every use outside the constructors is under a mutex"))
			}
		}
	}
	return obs
}

func ruleCtorSnapshot(p *core.Program) []core.Obligation {
	const rule = "R-CTORSNAPSHOT"
	var obs []core.Obligation
	isProvider := func(t types.Type) bool {
		n := core.NamedOf(t)
		if n == nil || n.Obj().Pkg() == nil {
			return false
		}
		if _, isIface := n.Underlying().(*types.Interface); !isIface {
			return false
		}
		pp := n.Obj().Pkg().Path()
		return pp == core.Module+"/api" || (pp == pkgStorage && n.Obj().Name() == "Queryable")
	}
	for _, fn := range p.Funcs {
		if core.Rel(fn.Pkg.Pkg.Path()) != "engine" || fn.Signature.Recv() != nil || fn.Parent() != nil || !strings.HasPrefix(fn.Name(), "New") {
			continue
		}
		var provs []*ssa.Parameter
		for _, prm := range fn.Params {
			if isProvider(prm.Type()) {
				provs = append(provs, prm)
			}
		}
		if len(provs) == 0 {
			continue
		}
		key := fmt.Sprintf("engine.%s does not consult the providers it is handed", fn.Name())
		bad := ""
		core.EachInstr(fn, func(_ *ssa.BasicBlock, _ int, ins ssa.Instruction) {
			cc := core.CallCommon(ins)
			if cc == nil || !cc.IsInvoke() || bad != "" {
				return
			}
			core.BackSlice(cc.Value, func(v ssa.Value) bool {
				for _, prm := range provs {
					if v == ssa.Value(prm) {
						bad = fmt.Sprintf("%s.%s is called at %s", prm.Name(), cc.Method.Name(), p.Pos(ins.Pos()))
					}
				}
				return true
			})
		})
		if bad != "" {
			obs = append(obs, core.Ob(rule, key, p.Pos(fn.Pos()), core.FuncName(fn), core.Violated, bad+" while the engine is constructed: the answer is kept for every later query, although the provider's answer can change (remote engines join and leave)"))
		} else {
			obs = append(obs, core.Ob(rule, key, p.Pos(fn.Pos()), core.FuncName(fn), core.Held, "the providers are only stored"))
		}
	}
	return obs
}

// ---------------------------------------------------------------------------------------------

func init() {
	register(&Rule{ID: "R-WINDOWARGS", Min: 10, Run: ruleWindowArgs,
		Doc: "the query-creating methods of package engine (NewInstantQuery / NewRangeQuery of the engine, of the adapter for remote engines and of the distributed engine) hand the evaluation window on exactly as they received it: every time.Time argument, and every step/interval argument, of a call they make is one of the method's own parameters. The distributed engine reads the results of remote engines by exact timestamp, and the fallback engine must evaluate the caller's window: a rounded, truncated or aligned start, end or step shifts one grid against the other"})

	mutant(Mutant{Rule: "R-WINDOWARGS", Name: "remote-start-aligned-to-step", File: "engine/engine.go",
		Old: "\treturn l.engine.NewRangeQuery(l.q, opts, qs, start, end, interval)\n", New: "\tstart = start.Truncate(interval)\n\treturn l.engine.NewRangeQuery(l.q, opts, qs, start, end, interval)\n", Expect: "localEngine"})
}

func ruleWindowArgs(p *core.Program) []core.Obligation {
	const rule = "R-WINDOWARGS"
	var obs []core.Obligation
	isTime := func(t types.Type) bool { return core.TypeIs(t, "time", "Time") }
	isDur := func(t types.Type) bool { return core.TypeIs(t, "time", "Duration") }
	for _, fn := range p.Funcs {
		if core.Rel(fn.Pkg.Pkg.Path()) != "engine" || fn.Parent() != nil || fn.Signature.Recv() == nil {
			continue
		}
		if fn.Name() != "NewInstantQuery" && fn.Name() != "NewRangeQuery" {
			continue
		}
		f := fn
		k := 0
		core.EachInstr(fn, func(_ *ssa.BasicBlock, _ int, ins ssa.Instruction) {
			call, ok := ins.(*ssa.Call)
			if !ok {
				return
			}
			sig := call.Call.Signature()
			if sig == nil {
				return
			}
			args := call.Call.Args
			off := 0
			if !call.Call.IsInvoke() && sig.Recv() != nil {
				off = 1 // the receiver is the first argument of a static method call
			}
			var bad []string
			n := 0
			for i := 0; i < sig.Params().Len() && i+off < len(args); i++ {
				prm := sig.Params().At(i)
				a := args[i+off]
				window := isTime(prm.Type()) && isTime(a.Type())
				if isDur(prm.Type()) {
					switch prm.Name() {
					case "step", "interval":
						window = true
					}
				}
				if !window {
					continue
				}
				n++
				if _, isConst := a.(*ssa.Const); isConst {
					continue // the step 0 of an instant query
				}
				if _, isParam := a.(*ssa.Parameter); !isParam {
					bad = append(bad, prm.Name())
				}
			}
			if n == 0 {
				return
			}
			name := core.CalleeName(&call.Call)
			if call.Call.IsInvoke() {
				name = call.Call.Method.Name()
			}
			name = strings.ReplaceAll(name, core.Module+"/", "")
			k++
			key := fmt.Sprintf("%s hands its window on unchanged #%d (%s)", core.FuncName(f), k, name)
			if len(bad) > 0 {
				obs = append(obs, core.Ob(rule, key, p.Pos(call.Pos()), core.FuncName(f), core.Violated, fmt.Sprintf("the argument(s) %v are computed, not the method's own parameters: the callee evaluates a window other than the caller's (steps on another grid, another end)", bad)))
			} else {
				obs = append(obs, core.Ob(rule, key, p.Pos(call.Pos()), core.FuncName(f), core.Held, fmt.Sprintf("%d window argument(s), all parameters of the method", n)))
			}
		})
	}
	return obs
}

// ---------------------------------------------------------------------------------------------

func init() {
	register(&Rule{ID: "R-POOLWRITE", Min: 4, Run: rulePoolWrite,
		Doc: "the methods through which a pool (a type holding sync.Pool fields: model.VectorPool) is used during evaluation - everything but its constructor and its Set... configuration methods - do not store into the pool's own fields outside a mutex: batches are taken from a pool on one goroutine (workers, shard pullers) and handed back on another (the consumer, Exec), so a plain field written in Get.../Put... races with the sync.Pool New closures and the other side's calls that read it"})

	mutant(Mutant{Rule: "R-POOLWRITE", Name: "adaptive-size-hint-written-on-put", File: "execution/model/pool.go",
		Old: "\tv.SampleIDs = v.SampleIDs[:0]\n", New: "\tif cap(v.Samples) > p.stepSize {\n\t\tp.stepSize = cap(v.Samples)\n\t}\n\tv.SampleIDs = v.SampleIDs[:0]\n", Expect: "PutStepVector"})
}

func rulePoolWrite(p *core.Program) []core.Obligation {
	const rule = "R-POOLWRITE"
	var obs []core.Obligation
	isPoolType := func(n *types.Named) bool {
		st, ok := n.Underlying().(*types.Struct)
		if !ok || n.Obj().Pkg() == nil || !strings.HasPrefix(n.Obj().Pkg().Path(), core.Module) {
			return false
		}
		for i := 0; i < st.NumFields(); i++ {
			if core.TypeIs(st.Field(i).Type(), "sync", "Pool") {
				return true
			}
		}
		return false
	}
	for _, fn := range p.Funcs {
		recv := recvNamed(fn)
		if recv == nil || fn.Parent() != nil || !isPoolType(recv) || strings.HasPrefix(fn.Name(), "Set") {
			continue
		}
		f := fn
		key := fmt.Sprintf("%s.%s does not write the pool's fields", recv.Obj().Name(), fn.Name())
		bad := ""
		core.EachInstr(fn, func(_ *ssa.BasicBlock, _ int, ins ssa.Instruction) {
			st, ok := ins.(*ssa.Store)
			if !ok || bad != "" {
				return
			}
			fa, ok := st.Addr.(*ssa.FieldAddr)
			if !ok || len(f.Params) == 0 || fa.X != ssa.Value(f.Params[0]) {
				return
			}
			if lockedIn(f, st) {
				return
			}
			_, name, _, _ := core.FieldRef(fa)
			bad = fmt.Sprintf("stores into %s at %s", name, p.Pos(st.Pos()))
		})
		if bad != "" {
			obs = append(obs, core.Ob(rule, key, p.Pos(fn.Pos()), core.FuncName(fn), core.Violated, bad+" without a mutex: the method is called from the goroutine that produces batches and from the one that hands them back, and the field is read by the pool's New closures on either"))
		} else {
			obs = append(obs, core.Ob(rule, key, p.Pos(fn.Pos()), core.FuncName(fn), core.Held, "no plain store into a field of the pool"))
		}
	}
	return obs
}

// ---------------------------------------------------------------------------------------------

func init() {
	register(&Rule{ID: "R-NOREPANIC", Min: 3, Run: ruleNoRepanic,
		Doc: "a value obtained from recover() ends as an error: it never reaches a panic() again - neither in the handler nor, carried through a captured variable, in the function that started the goroutine. The plan's panic containment is built from the places that recover (R-PANICDOMAIN, R-JOIN assume that what lies below a recovering operator returns); a re-raised panic unwinds frames that wait for goroutines, past their joins, or - on a goroutine - ends the process"})

	mutant(Mutant{Rule: "R-NOREPANIC", Name: "shard-panic-raised-again-on-the-caller", File: "execution/exchange/coalesce.go",
		Old:  "\t\t\t\tswitch err := e.(type) {\n\t\t\t\tcase error:\n\t\t\t\t\terrChan <- errors.Wrapf(err, \"unexpected error\")\n\t\t\t\tdefault:\n\t\t\t\t\terrChan <- errors.Newf(\"unexpected error: %v\", e)\n\t\t\t\t}\n",
		New:  "\t\t\t\tmu.Lock()\n\t\t\t\tpanicked = e\n\t\t\t\tmu.Unlock()\n\t\t\t\t_ = errors.Newf\n",
		Old2: "\tvar numSeries uint64\n", New2: "\tvar numSeries uint64\n\tvar panicked any\n",
		Old3: "\twg.Wait()\n\tclose(errChan)\n\tif err := errChan.getError(); err != nil {\n\t\treturn err\n\t}\n\n\tvar offset uint64\n", New3: "\twg.Wait()\n\tclose(errChan)\n\tif panicked != nil {\n\t\tpanic(panicked)\n\t}\n\tif err := errChan.getError(); err != nil {\n\t\treturn err\n\t}\n\n\tvar offset uint64\n",
		Expect: "loadSeries"})
}

func ruleNoRepanic(p *core.Program) []core.Obligation {
	const rule = "R-NOREPANIC"
	var obs []core.Obligation
	for _, fn := range p.Funcs {
		f := fn
		core.EachInstr(fn, func(_ *ssa.BasicBlock, _ int, ins ssa.Instruction) {
			rc, ok := ins.(*ssa.Call)
			if !ok {
				return
			}
			if bi, ok := rc.Call.Value.(*ssa.Builtin); !ok || bi.Name() != "recover" {
				return
			}
			key := core.FuncName(f) + " recovered value is not raised again"
			// forward taint: values derived from the recovered value, the cells they are stored in (locals and
			// captured variables, mapped to the variable of the enclosing function), loads of those cells
			tainted := map[ssa.Value]bool{rc: true}
			cells := map[ssa.Value]bool{}
			// all functions of the family: the outermost enclosing function and its closures
			root := f
			for root.Parent() != nil {
				root = root.Parent()
			}
			var family []*ssa.Function
			var walk func(x *ssa.Function)
			walk = func(x *ssa.Function) {
				family = append(family, x)
				for _, a := range x.AnonFuncs {
					walk(a)
				}
			}
			walk(root)
			// free variable -> the value it is bound to in the function that makes the closure
			bound := map[*ssa.FreeVar]ssa.Value{}
			for _, g := range family {
				core.EachInstr(g, func(_ *ssa.BasicBlock, _ int, x ssa.Instruction) {
					if mc, ok := x.(*ssa.MakeClosure); ok {
						if cf, ok := mc.Fn.(*ssa.Function); ok {
							for i, b := range mc.Bindings {
								if i < len(cf.FreeVars) {
									bound[cf.FreeVars[i]] = b
								}
							}
						}
					}
				})
			}
			cellOf := func(addr ssa.Value) ssa.Value {
				for d := 0; d < 6; d++ {
					if fv, ok := addr.(*ssa.FreeVar); ok {
						b, ok := bound[fv]
						if !ok {
							return fv
						}
						addr = b
						continue
					}
					return addr
				}
				return addr
			}
			var bad ssa.Instruction
			for changed := true; changed; {
				changed = false
				for _, g := range family {
					core.EachInstr(g, func(_ *ssa.BasicBlock, _ int, x ssa.Instruction) {
						switch y := x.(type) {
						case *ssa.Store:
							if tainted[y.Val] {
								c := cellOf(y.Addr)
								if !cells[c] {
									cells[c] = true
									changed = true
								}
							}
						case *ssa.UnOp:
							if y.Op == token.MUL && cells[cellOf(y.X)] && !tainted[y] {
								tainted[y] = true
								changed = true
							}
						case *ssa.Phi:
							for _, e := range y.Edges {
								if tainted[e] && !tainted[y] {
									tainted[y] = true
									changed = true
								}
							}
						case *ssa.MakeInterface:
							if tainted[y.X] && !tainted[y] {
								tainted[y] = true
								changed = true
							}
						case *ssa.ChangeInterface:
							if tainted[y.X] && !tainted[y] {
								tainted[y] = true
								changed = true
							}
						case *ssa.Panic:
							if tainted[y.X] && bad == nil {
								bad = y
							}
						}
					})
				}
			}
			if bad != nil {
				obs = append(obs, core.Ob(rule, key, p.Pos(rc.Pos()), core.FuncName(f), core.Violated, "the recovered value reaches panic() at "+p.Pos(bad.Pos())+" in "+core.FuncName(bad.Parent())+": the panic continues on that goroutine - past frames that were going to wait for other goroutines, or to the end of the process"))
			} else {
				obs = append(obs, core.Ob(rule, key, p.Pos(rc.Pos()), core.FuncName(f), core.Held, "converted, never passed to panic()"))
			}
		})
	}
	return obs
}

// ---------------------------------------------------------------------------------------------

func init() {
	register(&Rule{ID: "R-DISTLAST", Min: 1, Run: ruleDistLast,
		Doc: "where an engine's optimizer list is assembled, the distribution optimizer is appended after everything else: it is the only element of the last append. It replaces subtrees by node types of the repository (Coalesce, RemoteExecution) that the other optimizers do not know - they walk the plan with parser.Inspect / parser.Children, which panic on an unknown node type, in query planning, outside every recover"})

	mutant(Mutant{Rule: "R-DISTLAST", Name: "plan-distributed-before-the-other-optimizers", File: "engine/engine.go",
		Old: "\toptimizers = append(optimizers, opts.LogicalOptimizers...)\n\topts.LogicalOptimizers = append(optimizers, logicalplan.DistributedExecutionOptimizer{Endpoints: endpoints})\n",
		New: "\toptimizers = append(optimizers, logicalplan.DistributedExecutionOptimizer{Endpoints: endpoints})\n\topts.LogicalOptimizers = append(optimizers, opts.LogicalOptimizers...)\n", Expect: "NewDistributedEngine"})
}

func ruleDistLast(p *core.Program) []core.Obligation {
	const rule = "R-DISTLAST"
	var obs []core.Obligation
	isDist := func(t types.Type) bool {
		return core.TypeIs(t, core.Module+"/logicalplan", "DistributedExecutionOptimizer")
	}
	for _, fn := range p.Funcs {
		if !p.InRepo(fn) {
			continue
		}
		f := fn
		k := 0
		core.EachInstr(fn, func(_ *ssa.BasicBlock, _ int, ins ssa.Instruction) {
			mi, ok := ins.(*ssa.MakeInterface)
			if !ok || !isDist(mi.X.Type()) {
				return
			}
			if !core.TypeIs(mi.Type(), core.Module+"/logicalplan", "Optimizer") {
				return
			}
			k++
			key := fmt.Sprintf("%s puts the distribution optimizer last #%d", core.FuncName(f), k)
			// the value is stored into the variadic array of an append, as its only element, and nothing is
			// appended to the result afterwards; a helper that is handed the value (withOptimizer(list, last))
			// is examined the same way, and what it returns is followed in the caller
			bad := ""
			var appendedBehind func(g *ssa.Function, v ssa.Value, seen map[ssa.Value]bool)
			appendedBehind = func(g *ssa.Function, v ssa.Value, seen map[ssa.Value]bool) {
				if seen[v] {
					return
				}
				seen[v] = true
				for _, r := range core.Referrers(v) {
					switch x := r.(type) {
					case *ssa.Call:
						if bi, ok := x.Call.Value.(*ssa.Builtin); ok && bi.Name() == "append" && x.Call.Args[0] == v {
							bad = "followed by another append at " + p.Pos(x.Pos())
						}
					case *ssa.Phi:
						appendedBehind(g, x, seen)
					case *ssa.Store:
						if al, ok := x.Addr.(*ssa.Alloc); ok && x.Val == v {
							for _, lr := range core.Referrers(al) {
								if ld, ok := lr.(*ssa.UnOp); ok && ld.Op == token.MUL && core.InstrDominates(x, ld) {
									appendedBehind(g, ld, seen)
								}
							}
						}
					}
				}
			}
			var placed func(g *ssa.Function, v ssa.Value, depth int) bool
			placed = func(g *ssa.Function, v ssa.Value, depth int) bool {
				found := false
				for _, r := range core.Referrers(v) {
					switch x := r.(type) {
					case *ssa.Store:
						ia, ok := x.Addr.(*ssa.IndexAddr)
						if !ok {
							bad = "stored somewhere other than an append's argument list"
							continue
						}
						arr, ok := ia.X.(*ssa.Alloc)
						if !ok {
							bad = "stored into an existing list"
							continue
						}
						if at, ok := arr.Type().Underlying().(*types.Pointer).Elem().Underlying().(*types.Array); !ok || at.Len() != 1 {
							bad = "one of several elements appended or listed together (its position is not the end by construction)"
							continue
						}
						for _, rr := range core.Referrers(arr) {
							sl, ok := rr.(*ssa.Slice)
							if !ok {
								continue
							}
							for _, r3 := range core.Referrers(sl) {
								c, ok := r3.(*ssa.Call)
								if !ok {
									continue
								}
								if bi, ok := c.Call.Value.(*ssa.Builtin); ok && bi.Name() == "append" && len(c.Call.Args) == 2 && c.Call.Args[1] == ssa.Value(sl) {
									found = true
									appendedBehind(g, c, map[ssa.Value]bool{})
									// the helper hands the list back: followed at its call sites
									if g != f {
										for _, caller := range p.Funcs {
											core.EachInstr(caller, func(_ *ssa.BasicBlock, _ int, y ssa.Instruction) {
												if cc, ok := y.(*ssa.Call); ok && cc.Call.StaticCallee() == g {
													appendedBehind(caller, cc, map[ssa.Value]bool{})
												}
											})
										}
									}
								}
							}
						}
					case *ssa.Call:
						h := x.Call.StaticCallee()
						if h == nil || h.Blocks == nil || !p.InRepo(h) || depth >= 2 {
							continue
						}
						for ai, a := range x.Call.Args {
							if a == v && ai < len(h.Params) {
								if placed(h, h.Params[ai], depth+1) {
									found = true
								}
							}
						}
					}
				}
				return found
			}
			if !placed(f, mi, 0) && bad == "" {
				bad = "not appended to an optimizer list here"
			}
			if bad != "" {
				obs = append(obs, core.Ob(rule, key, p.Pos(mi.Pos()), core.FuncName(f), core.Violated, "the distribution optimizer is "+bad+": an optimizer that runs after it meets Coalesce/RemoteExecution nodes, which the parser's tree walkers reject with a panic while the query is planned"))
			} else {
				obs = append(obs, core.Ob(rule, key, p.Pos(mi.Pos()), core.FuncName(f), core.Held, "the only element of the last append onto the list"))
			}
		})
	}
	return obs
}

// ---------------------------------------------------------------------------------------------

func init() {
	register(&Rule{ID: "R-SELFCALL", Min: 30, Run: ruleSelfCall,
		Doc: "a function (without receiver) that calls itself passes something other than its own parameters, or has replaced what a pointer parameter points to first: otherwise the call never terminates (the tree walkers of the planner recurse into a child slot, &node.Expr - passing the node's own slot again exhausts the stack, a fatal error no recover handler can stop). And the Next method of an operator never calls itself: one call hands out exactly the next batch"})
	mutant(Mutant{Rule: "R-SELFCALL", Name: "empty-batch-skipped-by-recursion", File: "execution/scan/matrix_selector.go",
		Old: "\to.currentStep += o.step * int64(o.numSteps)\n\n\treturn vectors, nil\n}\n\nfunc (o *matrixSelector) loadSeries", New: "\to.currentStep += o.step * int64(o.numSteps)\n\tempty := len(vectors) > 0\n\tfor i := range vectors {\n\t\tif len(vectors[i].Samples) > 0 {\n\t\t\tempty = false\n\t\t}\n\t}\n\tif empty {\n\t\treturn o.Next(ctx)\n\t}\n\n\treturn vectors, nil\n}\n\nfunc (o *matrixSelector) loadSeries", Expect: "matrixSelector.Next"})

	mutant(Mutant{Rule: "R-SELFCALL", Name: "recursion-on-the-same-node", File: "logicalplan/distribute.go",
		Old: "\tcase *parser.ParenExpr:\n\t\tunmergeSelectors(&node.Expr)\n", New: "\tcase *parser.ParenExpr:\n\t\tunmergeSelectors(expr)\n", Expect: "unmergeSelectors"})
}

func ruleSelfCall(p *core.Program) []core.Obligation {
	const rule = "R-SELFCALL"
	var obs []core.Obligation
	for _, fn := range p.Funcs {
		if !p.InRepo(fn) || len(fn.Params) == 0 {
			continue
		}
		f := fn
		k := 0
		isNext := fn.Parent() == nil && fn.Name() == "Next" && isOperatorMethod(fn)
		selfCalls := 0
		core.EachInstr(fn, func(_ *ssa.BasicBlock, _ int, ins ssa.Instruction) {
			c, ok := ins.(*ssa.Call)
			if !ok || c.Call.StaticCallee() != f || len(c.Call.Args) != len(f.Params) {
				return
			}
			selfCalls++
			if f.Signature.Recv() != nil {
				return // a method may have changed its receiver's state: progress is not visible in the arguments
			}
			k++
			key := fmt.Sprintf("%s recursive call #%d makes progress", core.FuncName(f), k)
			same := true
			for i, a := range c.Call.Args {
				if a != ssa.Value(f.Params[i]) {
					same = false
				}
			}
			// ... unless what a pointer parameter points to was replaced before the call (*expr = inner; walk(expr))
			replaced := false
			if same {
				core.EachInstr(f, func(_ *ssa.BasicBlock, _ int, x ssa.Instruction) {
					st, ok := x.(*ssa.Store)
					if !ok {
						return
					}
					if _, isParam := st.Addr.(*ssa.Parameter); isParam && core.InstrDominates(st, c) {
						replaced = true
					}
				})
			}
			if same && !replaced {
				obs = append(obs, core.Ob(rule, key, p.Pos(c.Pos()), core.FuncName(f), core.Violated, "every argument is the function's own parameter and nothing they point to was replaced: the call repeats itself until the stack is exhausted, which ends the process (no recover handler catches a stack overflow)"))
			} else {
				obs = append(obs, core.Ob(rule, key, p.Pos(c.Pos()), core.FuncName(f), core.Held, "an argument differs from the caller's parameter, or the node behind it was replaced first"))
			}
		})
		if isNext {
			recv := recvNamed(fn)
			key := fmt.Sprintf("%s.Next hands out one batch per call", recv.Obj().Name())
			if selfCalls > 0 {
				obs = append(obs, core.Ob(rule, key, p.Pos(fn.Pos()), core.FuncName(fn), core.Violated, "Next calls itself (to skip a batch it considers empty): its consumer then receives the batch after the one its siblings hand out for the same call, and operators that pair or merge their operands by batch position (coalesce, binary operators, scalar arguments) combine different time ranges"))
			} else {
				obs = append(obs, core.Ob(rule, key, p.Pos(fn.Pos()), core.FuncName(fn), core.Held, "no recursive call"))
			}
		}
	}
	return obs
}

// ---------------------------------------------------------------------------------------------

func init() {
	register(&Rule{ID: "R-CTXEXIT", Min: 12, Run: ruleCtxExit,
		Doc: "where a function that reports errors observes that its context is done - a select case receiving from ctx.Done(), or a test of ctx.Err() against nil - every return it reaches on that path hands back the context's error (a value computed from ctx.Err()), or the error was sent on a channel first. A loop that merely stops when the context is done falls through to the code that builds a result from what was collected so far: a cancelled query returns a partial result as success"})

	mutant(Mutant{Rule: "R-CTXEXIT", Name: "batch-loop-stops-quietly-on-cancellation", File: "engine/engine.go",
		Old: "\t\tcase <-ctx.Done():\n\t\t\treturn newErrResult(ret, ctx.Err())\n\t\tdefault:\n\t\t\tr, err := q.Query.exec.Next(ctx)\n", New: "\t\tcase <-ctx.Done():\n\t\t\tbreak loop\n\t\tdefault:\n\t\t\tr, err := q.Query.exec.Next(ctx)\n", Expect: "Exec"})
}

func ruleCtxExit(p *core.Program) []core.Obligation {
	const rule = "R-CTXEXIT"
	var obs []core.Obligation
	isCtxCall := func(v ssa.Value, method string) bool {
		c, ok := v.(*ssa.Call)
		if !ok || !c.Call.IsInvoke() || c.Call.Method.Name() != method {
			return false
		}
		return core.TypeIs(c.Call.Value.Type(), "context", "Context")
	}
	fromCtxErr := func(v ssa.Value) bool {
		hit := false
		core.BackSlice(v, func(x ssa.Value) bool {
			if isCtxCall(x, "Err") {
				hit = true
			}
			return !hit
		})
		return hit
	}
	errT := types.Universe.Lookup("error").Type()
	for _, fn := range p.Funcs {
		if !p.InRepo(fn) {
			continue
		}
		// only functions that can report: an error result, or a result record with an error (promql.Result)
		reports := false
		for i := 0; i < fn.Signature.Results().Len(); i++ {
			t := fn.Signature.Results().At(i).Type()
			if types.Identical(t, errT) || core.TypeIs(t, pkgPromql, "Result") {
				reports = true
			}
			if pt, ok := t.Underlying().(*types.Pointer); ok && core.TypeIs(pt.Elem(), pkgPromql, "Result") {
				reports = true
			}
		}
		if !reports {
			continue
		}
		f := fn
		k := 0
		type inst struct {
			from   *ssa.BasicBlock
			target *ssa.BasicBlock
			pos    token.Pos
		}
		var insts []inst
		for _, b := range fn.Blocks {
			iff := core.IfOf(b)
			if iff == nil {
				continue
			}
			bo, ok := iff.Cond.(*ssa.BinOp)
			if !ok || (bo.Op != token.EQL && bo.Op != token.NEQ) {
				continue
			}
			// ctx.Err() != nil
			if (isCtxCall(bo.X, "Err") && core.IsNilConst(bo.Y)) || (isCtxCall(bo.Y, "Err") && core.IsNilConst(bo.X)) {
				succ := 0
				if bo.Op == token.EQL {
					succ = 1
				}
				insts = append(insts, inst{b, b.Succs[succ], iff.Pos()})
				continue
			}
			// select index == i where state i receives from ctx.Done()
			if bo.Op == token.EQL {
				if ex, ok := bo.X.(*ssa.Extract); ok && ex.Index == 0 {
					if sel, ok := ex.Tuple.(*ssa.Select); ok {
						if n, ok := core.ConstInt(bo.Y); ok && n >= 0 && int(n) < len(sel.States) {
							st := sel.States[n]
							if st.Dir == types.RecvOnly && isCtxCall(st.Chan, "Done") {
								insts = append(insts, inst{b, b.Succs[0], sel.Pos()})
							}
						}
					}
				}
			}
		}
		for _, in := range insts {
			k++
			key := fmt.Sprintf("%s returns the context's error when it finds the context done #%d", core.FuncName(f), k)
			bad := ""
			seen := map[*ssa.BasicBlock]bool{in.from: true}
			var walk func(b *ssa.BasicBlock)
			walk = func(b *ssa.BasicBlock) {
				if seen[b] || bad != "" {
					return
				}
				seen[b] = true
				for _, x := range b.Instrs {
					switch y := x.(type) {
					case *ssa.Send:
						if fromCtxErr(y.X) {
							return
						}
					case *ssa.Return:
						ok := false
						for _, r := range core.RetResults(y) {
							if fromCtxErr(r) {
								ok = true
							}
						}
						if !ok {
							bad = p.Pos(y.Pos())
						}
						return
					case *ssa.Panic:
						return
					}
				}
				for _, s := range b.Succs {
					walk(s)
				}
			}
			walk(in.target)
			if bad != "" {
				obs = append(obs, core.Ob(rule, key, p.Pos(in.pos), core.FuncName(f), core.Violated, "from the branch taken when the context is done, the return at "+bad+" is reached and does not carry ctx.Err(): the cancelled call looks like an ordinary end of the stream / a successful result"))
			} else {
				obs = append(obs, core.Ob(rule, key, p.Pos(in.pos), core.FuncName(f), core.Held, "every return on that path carries ctx.Err()"))
			}
		}
	}
	return obs
}

// ---------------------------------------------------------------------------------------------

func init() {
	register(&Rule{ID: "R-STRICTCMP", Min: 2, Run: ruleStrictCmp,
		Doc: "a comparator over sample values (a func(float64, float64) bool built in the aggregation operators, the order of topk/bottomk) is a strict comparison of its two parameters, < or >: the negation of a strict order (!less(a, b)) is not the reversed order - it is also true for equal values and whenever one side is NaN, so a NaN sample is admitted to a full heap and ties evict the element that arrived first"})
	register(&Rule{ID: "R-LOOKBACKASIS", Min: 1, Run: ruleLookbackAsIs,
		Doc: "a selector operator takes the look-back delta of its options as it is: the value stored into its lookbackDelta field is computed from Options.LookbackDelta on every path, with no default substituted. The engine fills in its default when the query is created; a look-back of 0 is meaningful (the operator that reads the results of a remote engine must only see samples exactly on a step)"})
	register(&Rule{ID: "R-HINTSTEP", Min: 1, Run: ruleHintStep,
		Doc: "the Step of the select hints is written once, where the hints record of a query is created (execution.New), from the query's step: no planning function assigns hints.Step again. The reference engine hands every select the query step; a capped or rounded step hint makes a down-sampling storage pick another resolution than it does for the reference"})
	register(&Rule{ID: "R-SELECTMATCHERS", Min: 1, Run: ruleSelectMatchers,
		Doc: "the matchers a storage select is issued with are the selector's own matcher list, handed down unchanged from the plan node through the selector pool: on the way from GetSelector/GetFilteredSelector to Querier.Select the list is only stored and loaded, never rebuilt (make, append, a filtering helper). The reference engine passes the matchers as written; a storage may treat foo{pod=~\".*\"} and foo differently (tenancy, sharding by matcher)"})

	mutant(Mutant{Rule: "R-STRICTCMP", Name: "bottomk-as-negated-topk", File: "execution/aggregate/khashaggregate.go",
		Old: "\t\t\treturn s < f\n", New: "\t\t\treturn !(f < s)\n", Expect: "NewKHashAggregate"})
	mutant(Mutant{Rule: "R-LOOKBACKASIS", Name: "selector-substitutes-a-default-lookback", File: "execution/scan/vector_selector.go",
		Old: "\treturn &vectorSelector{\n", New: "\tlookback := queryOpts.LookbackDelta\n\tif lookback <= 0 {\n\t\tlookback = 5 * time.Minute\n\t}\n\treturn &vectorSelector{\n",
		Old2: "\t\tlookbackDelta: queryOpts.LookbackDelta.Milliseconds(),\n", New2: "\t\tlookbackDelta: lookback.Milliseconds(),\n", Expect: "NewVectorSelector"})
	mutant(Mutant{Rule: "R-HINTSTEP", Name: "step-hint-capped-at-the-range", File: "execution/execution.go",
		Old: "\t\t\t\thints.Range = t.Range.Milliseconds()\n", New: "\t\t\t\thints.Range = t.Range.Milliseconds()\n\t\t\t\tif hints.Step > hints.Range {\n\t\t\t\t\thints.Step = hints.Range\n\t\t\t\t}\n", Expect: "newOperator"})
	mutant(Mutant{Rule: "R-SELECTMATCHERS", Name: "match-all-matchers-dropped-before-select", File: "execution/storage/series_selector.go",
		Old: "\tseriesSet := querier.Select(false, &o.hints, o.matchers...)\n", New: "\tselective := make([]*labels.Matcher, 0, len(o.matchers))\n\tfor _, m := range o.matchers {\n\t\tif !(m.Type == labels.MatchRegexp && m.Value == \".*\") {\n\t\t\tselective = append(selective, m)\n\t\t}\n\t}\n\tseriesSet := querier.Select(false, &o.hints, selective...)\n", Expect: "Select"})
}

func ruleStrictCmp(p *core.Program) []core.Obligation {
	const rule = "R-STRICTCMP"
	var obs []core.Obligation
	isCmpSig := func(sig *types.Signature) bool {
		if sig.Params().Len() != 2 || sig.Results().Len() != 1 {
			return false
		}
		return isFloatType(sig.Params().At(0).Type()) && isFloatType(sig.Params().At(1).Type()) && types.Identical(sig.Results().At(0).Type(), types.Typ[types.Bool])
	}
	for _, fn := range p.Funcs {
		if fn.Parent() == nil || !hasPrefixRel(fn, "execution/aggregate") || !isCmpSig(fn.Signature) {
			continue
		}
		key := fmt.Sprintf("comparator %s built in %s is a strict comparison", fn.Name(), core.FuncName(fn.Parent()))
		bad := ""
		core.EachInstr(fn, func(_ *ssa.BasicBlock, _ int, ins ssa.Instruction) {
			ret, ok := ins.(*ssa.Return)
			if !ok {
				return
			}
			for v := range core.PhiClosure(ret.Results[0]) {
				if _, isPhi := v.(*ssa.Phi); isPhi {
					continue
				}
				bo, ok := v.(*ssa.BinOp)
				if ok && (bo.Op == token.LSS || bo.Op == token.GTR) {
					_, px := bo.X.(*ssa.Parameter)
					_, py := bo.Y.(*ssa.Parameter)
					if px && py {
						continue
					}
				}
				bad = p.Pos(ret.Pos())
			}
		})
		if bad != "" {
			obs = append(obs, core.Ob(rule, key, bad, core.FuncName(fn), core.Violated, "the comparator returns something other than a < or > of its two parameters (a negation, <=, a call): for equal values and for NaN it does not behave like the reversed strict order the reference engine uses"))
		} else {
			obs = append(obs, core.Ob(rule, key, p.Pos(fn.Pos()), core.FuncName(fn), core.Held, "returns a < or > of its parameters"))
		}
	}
	return obs
}

func ruleLookbackAsIs(p *core.Program) []core.Obligation {
	const rule = "R-LOOKBACKASIS"
	var obs []core.Obligation
	for _, fn := range p.Funcs {
		if !hasPrefixRel(fn, "execution") {
			continue
		}
		f := fn
		core.EachInstr(fn, func(_ *ssa.BasicBlock, _ int, ins ssa.Instruction) {
			st, ok := ins.(*ssa.Store)
			if !ok {
				return
			}
			n, fld, _, ok := core.FieldRef(st.Addr)
			if !ok || n == nil || fld != "lookbackDelta" {
				return
			}
			key := fmt.Sprintf("%s sets %s.lookbackDelta from the options as they are", core.FuncName(f), n.Obj().Name())
			// every alternative of the stored value derives from Options.LookbackDelta and from no constant duration
			bad := ""
			var check func(v ssa.Value, depth int)
			seen := map[ssa.Value]bool{}
			check = func(v ssa.Value, depth int) {
				if seen[v] || depth > 12 || bad != "" {
					return
				}
				seen[v] = true
				switch x := v.(type) {
				case *ssa.Phi:
					for _, e := range x.Edges {
						check(e, depth+1)
					}
				case *ssa.Call:
					if core.CalleeName(&x.Call) == "(time.Duration).Milliseconds" {
						check(x.Call.Args[0], depth+1)
						return
					}
					bad = "computed by a call of " + core.CalleeName(&x.Call)
				case *ssa.Convert:
					check(x.X, depth+1)
				case *ssa.ChangeType:
					check(x.X, depth+1)
				case *ssa.UnOp:
					if x.Op == token.MUL {
						if nn, ff, _, ok := core.FieldRef(x.X); ok && nn != nil && nn.Obj().Name() == "Options" && ff == "LookbackDelta" {
							return
						}
					}
					bad = "a value other than Options.LookbackDelta"
				case *ssa.Const:
					bad = "the constant " + x.String()
				case *ssa.BinOp:
					bad = "computed with " + x.Op.String()
				default:
					bad = fmt.Sprintf("a value of unrecognised origin (%T)", v)
				}
			}
			check(st.Val, 0)
			if bad != "" {
				obs = append(obs, core.Ob(rule, key, p.Pos(st.Pos()), core.FuncName(f), core.Violated, "on some path the stored look-back is "+bad+": a look-back of 0 - what the operator over a remote engine's results asks for - is replaced, and samples of a partition that ended are kept alive for that long"))
			} else {
				obs = append(obs, core.Ob(rule, key, p.Pos(st.Pos()), core.FuncName(f), core.Held, "Options.LookbackDelta in milliseconds on every path"))
			}
		})
	}
	return obs
}

func ruleHintStep(p *core.Program) []core.Obligation {
	const rule = "R-HINTSTEP"
	var obs []core.Obligation
	root := p.Func("execution", "New")
	n := 0
	for _, fn := range p.Funcs {
		if !hasPrefixRel(fn, "execution") {
			continue
		}
		f := fn
		core.EachInstr(fn, func(_ *ssa.BasicBlock, _ int, ins ssa.Instruction) {
			st, ok := ins.(*ssa.Store)
			if !ok || !core.IsFieldOf(st.Addr, pkgStorage, "SelectHints", "Step") {
				return
			}
			n++
			key := fmt.Sprintf("%s writes the step hint #%d", core.FuncName(f), n)
			if f == root {
				obs = append(obs, core.Ob(rule, key, p.Pos(st.Pos()), core.FuncName(f), core.Held, "where the query's hints record is created"))
			} else {
				obs = append(obs, core.Ob(rule, key, p.Pos(st.Pos()), core.FuncName(f), core.Violated, "the step hint is assigned again while the plan is built: selects below this node carry a step other than the query's, which the reference engine never does"))
			}
		})
	}
	if root == nil {
		obs = append(obs, core.Ob(rule, "execution.New", "-", "", core.Lost, "not found"))
	}
	return obs
}

func ruleSelectMatchers(p *core.Program) []core.Obligation {
	const rule = "R-SELECTMATCHERS"
	var obs []core.Obligation
	isMatchers := func(t types.Type) bool {
		sl, ok := t.Underlying().(*types.Slice)
		if !ok {
			return false
		}
		pt, ok := sl.Elem().Underlying().(*types.Pointer)
		return ok && core.TypeIs(pt.Elem(), pkgLabels, "Matcher")
	}
	// origin: "" when the list is handed down unchanged, else what rebuilt it
	var origin func(fn *ssa.Function, v ssa.Value, depth int, seen map[ssa.Value]bool) string
	origin = func(fn *ssa.Function, v ssa.Value, depth int, seen map[ssa.Value]bool) string {
		if depth > 8 || seen[v] {
			return ""
		}
		seen[v] = true
		switch x := v.(type) {
		case *ssa.Parameter:
			// exported entry points of the pool receive the plan's list; unexported functions: their callers
			pf := x.Parent()
			if pf == nil || token.IsExported(pf.Name()) || !hasPrefixRel(pf, "execution/storage") {
				return ""
			}
			idx := -1
			for i, q := range pf.Params {
				if q == x {
					idx = i
				}
			}
			for _, caller := range p.Funcs {
				res := ""
				core.EachInstr(caller, func(_ *ssa.BasicBlock, _ int, ins ssa.Instruction) {
					cc := core.CallCommon(ins)
					if cc == nil || cc.StaticCallee() != pf || idx < 0 || idx >= len(cc.Args) || res != "" {
						return
					}
					res = origin(caller, cc.Args[idx], depth+1, seen)
				})
				if res != "" {
					return res
				}
			}
			return ""
		case *ssa.UnOp:
			if x.Op != token.MUL {
				return ""
			}
			n, f, _, ok := core.FieldRef(x.X)
			if !ok || n == nil {
				return ""
			}
			if n.Obj().Pkg() != nil && n.Obj().Pkg().Path() == pkgParser {
				return "" // the plan node's own list
			}
			// every store into this field
			for _, g := range p.Funcs {
				res := ""
				core.EachInstr(g, func(_ *ssa.BasicBlock, _ int, ins ssa.Instruction) {
					st, ok := ins.(*ssa.Store)
					if !ok || res != "" {
						return
					}
					if n2, f2, _, ok := core.FieldRef(st.Addr); ok && n2 == n && f2 == f {
						res = origin(g, st.Val, depth+1, seen)
					}
				})
				if res != "" {
					return res
				}
			}
			return ""
		case *ssa.Phi:
			for _, e := range x.Edges {
				if r := origin(fn, e, depth+1, seen); r != "" {
					return r
				}
			}
			return ""
		case *ssa.Slice:
			if x.Low != nil || x.High != nil {
				return "a sub-slice at " + p.Pos(x.Pos())
			}
			return origin(fn, x.X, depth+1, seen)
		case *ssa.MakeSlice:
			return "a list allocated at " + p.Pos(x.Pos())
		case *ssa.Call:
			if bi, ok := x.Call.Value.(*ssa.Builtin); ok && bi.Name() == "append" {
				return "an append at " + p.Pos(x.Pos())
			}
			return "the result of " + strings.ReplaceAll(core.CalleeName(&x.Call), core.Module+"/", "") + " at " + p.Pos(x.Pos())
		case *ssa.Alloc:
			for _, r := range core.Referrers(x) {
				if st, ok := r.(*ssa.Store); ok && st.Addr == ssa.Value(x) {
					if res := origin(fn, st.Val, depth+1, seen); res != "" {
						return res
					}
				}
			}
			return ""
		case *ssa.Const:
			return ""
		}
		return ""
	}
	for _, fn := range p.Funcs {
		if !hasPrefixRel(fn, "execution/storage") {
			continue
		}
		f := fn
		k := 0
		core.EachInstr(fn, func(_ *ssa.BasicBlock, _ int, ins ssa.Instruction) {
			c, ok := ins.(*ssa.Call)
			if !ok || !c.Call.IsInvoke() || c.Call.Method.Name() != "Select" {
				return
			}
			var m ssa.Value
			for _, a := range c.Call.Args {
				if isMatchers(a.Type()) {
					m = a
				}
			}
			if m == nil {
				return
			}
			k++
			key := fmt.Sprintf("%s issues Select #%d with the plan's matcher list", core.FuncName(f), k)
			if r := origin(f, m, 0, map[ssa.Value]bool{}); r != "" {
				obs = append(obs, core.Ob(rule, key, p.Pos(c.Pos()), core.FuncName(f), core.Violated, "the matcher list of the select is "+r+", not the selector's list as it came from the plan: the storage sees other matchers than with the reference engine"))
			} else {
				obs = append(obs, core.Ob(rule, key, p.Pos(c.Pos()), core.FuncName(f), core.Held, "stored and loaded only on the way from the plan node"))
			}
		})
	}
	return obs
}

// ---------------------------------------------------------------------------------------------

func init() {
	register(&Rule{ID: "R-ONCEPERITER", Min: 6, Run: ruleOncePerIter,
		Doc: "a loop of an operator that appends one sample per iteration to a step vector (one output series, one group, one input sample per iteration) appends to that vector's Samples at most once on every path through an iteration: a second append on a path that was meant to `continue` gives one series two samples with the same ID at the same step"})
	register(&Rule{ID: "R-BUFRESET", Min: 1, Run: ruleBufReset,
		Doc: "a slice field of an operator that the per-batch code (Next and what it calls, outside the once-guarded initialisation) grows by append is emptied by that code as well (f = f[:0], a fresh make, or nil): a buffer that is only ever appended to keeps the values of earlier batches in front of the current ones, and code that indexes it relative to the batch reads stale entries from the second batch on"})
	register(&Rule{ID: "R-IDOFFSET", Min: 1, Run: ruleIDOffset,
		Doc: "where the exchange operators translate the sample IDs of an operand into the IDs of the merged stream, the new ID is computed from the old ID of the same sample (old + offset of the operand): an ID derived from the sample's position in the step vector is only right while every series of the operand has a sample at the step"})

	mutant(Mutant{Rule: "R-ONCEPERITER", Name: "nan-branch-falls-through", File: "execution/function/histogram.go",
		Old: "\t\t\t\tstep.SampleIDs = append(step.SampleIDs, uint64(i))\n\t\t\t\tstep.Samples = append(step.Samples, math.NaN())\n\t\t\t\tcontinue\n", New: "\t\t\t\tstep.SampleIDs = append(step.SampleIDs, uint64(i))\n\t\t\t\tstep.Samples = append(step.Samples, math.NaN())\n", Expect: "histogramOperator"})
	mutant(Mutant{Rule: "R-BUFRESET", Name: "scalar-buffer-never-emptied", File: "execution/function/histogram.go",
		Old: "\to.scalarPoints = o.scalarPoints[:0]\n", New: "", Expect: "scalarPoints"})
	mutant(Mutant{Rule: "R-IDOFFSET", Name: "merged-ids-from-positions", File: "execution/exchange/coalesce.go",
		Old: "\t\t\t\t\tvector.SampleIDs[i] += c.sampleOffsets[opIdx]\n", New: "\t\t\t\t\tvector.SampleIDs[i] = c.sampleOffsets[opIdx] + uint64(i)\n", Expect: "coalesceOperator"})
}

// samplesAppendBase: ins is `X.Samples = append(X.Samples, one value)`; returns the address of X.Samples.
func samplesAppendBase(ins ssa.Instruction) ssa.Value {
	st, ok := ins.(*ssa.Store)
	if !ok {
		return nil
	}
	n, f, _, ok := core.FieldRef(st.Addr)
	if !ok || n == nil || n.Obj().Name() != "StepVector" || f != "Samples" {
		return nil
	}
	c, ok := st.Val.(*ssa.Call)
	if !ok {
		return nil
	}
	if bi, ok := c.Call.Value.(*ssa.Builtin); !ok || bi.Name() != "append" || len(c.Call.Args) != 2 {
		return nil
	}
	// one element packed at the call (not append(a, b...))
	sl, ok := c.Call.Args[1].(*ssa.Slice)
	if !ok {
		return nil
	}
	if _, packed := sl.X.(*ssa.Alloc); !packed {
		return nil
	}
	return st.Addr
}

func ruleOncePerIter(p *core.Program) []core.Obligation {
	const rule = "R-ONCEPERITER"
	var obs []core.Obligation
	for _, fn := range p.Funcs {
		if !hasPrefixRel(fn, "execution") {
			continue
		}
		loops := core.LoopBodies(fn)
		if len(loops) == 0 {
			continue
		}
		// appends grouped by their innermost loop
		type grp struct {
			header *ssa.BasicBlock
			body   map[*ssa.BasicBlock]bool
			sites  []ssa.Instruction
		}
		groups := map[*ssa.BasicBlock]*grp{}
		core.EachInstr(fn, func(b *ssa.BasicBlock, _ int, ins ssa.Instruction) {
			if samplesAppendBase(ins) == nil {
				return
			}
			var best *ssa.BasicBlock
			for h, body := range loops {
				if body[b] && (best == nil || len(body) < len(loops[best])) {
					best = h
				}
			}
			if best == nil {
				return
			}
			g := groups[best]
			if g == nil {
				g = &grp{header: best, body: loops[best]}
				groups[best] = g
			}
			g.sites = append(g.sites, ins)
		})
		var hs []*ssa.BasicBlock
		for h := range groups {
			hs = append(hs, h)
		}
		sort.Slice(hs, func(i, j int) bool { return hs[i].Index < hs[j].Index })
		for k, h := range hs {
			g := groups[h]
			recv := "func"
			if r := recvNamed(fn); r != nil {
				recv = r.Obj().Name()
			}
			key := fmt.Sprintf("%s.%s loop #%d appends one sample per iteration", recv, fn.Name(), k+1)
			// appends to the same vector (same address expression) per block
			count := map[*ssa.BasicBlock]int{}
			var ref ssa.Value
			for _, s := range g.sites {
				a := samplesAppendBase(s)
				if ref == nil {
					ref = a
				}
				if core.SameExpr(a, ref) || a == ref {
					count[s.Block()]++
				}
			}
			// longest path (in appends) through one iteration: DFS over the body without re-entering the header
			// and without entering inner loops twice
			best := 0
			var worst ssa.Instruction
			var dfs func(b *ssa.BasicBlock, acc int, onPath map[*ssa.BasicBlock]bool)
			dfs = func(b *ssa.BasicBlock, acc int, onPath map[*ssa.BasicBlock]bool) {
				if !g.body[b] || onPath[b] {
					return
				}
				onPath[b] = true
				acc += count[b]
				if acc > best {
					best = acc
					for _, s := range g.sites {
						if s.Block() == b {
							worst = s
						}
					}
				}
				for _, s := range b.Succs {
					if s == g.header {
						continue
					}
					dfs(s, acc, onPath)
				}
				delete(onPath, b)
			}
			dfs(g.header, 0, map[*ssa.BasicBlock]bool{})
			if best > 1 {
				obs = append(obs, core.Ob(rule, key, p.Pos(worst.Pos()), core.FuncName(fn), core.Violated, fmt.Sprintf("a path through one iteration appends %d samples to the same step vector (the last one here): the iteration's series gets two samples with one ID at the step", best)))
			} else {
				obs = append(obs, core.Ob(rule, key, p.Pos(g.sites[0].Pos()), core.FuncName(fn), core.Held, "at most one append on every path through an iteration"))
			}
		}
	}
	return obs
}

// nextPathFuncs: the methods of operator types that run per batch: Next and the repository functions it calls
// statically, not entering closures handed to sync.Once.Do (one-time initialisation).
func nextPathFuncs(p *core.Program) map[*ssa.Function]bool {
	out := map[*ssa.Function]bool{}
	var walk func(f *ssa.Function, depth int)
	walk = func(f *ssa.Function, depth int) {
		if f == nil || f.Blocks == nil || out[f] || !p.InRepo(f) || depth > 4 {
			return
		}
		out[f] = true
		core.EachInstr(f, func(_ *ssa.BasicBlock, _ int, ins ssa.Instruction) {
			if c, ok := ins.(*ssa.Call); ok {
				if callee := c.Call.StaticCallee(); callee != nil && recvNamed(callee) == recvNamed(f) {
					walk(callee, depth+1)
				}
			}
		})
	}
	for _, fn := range p.Funcs {
		if fn.Parent() == nil && fn.Name() == "Next" && isOperatorMethod(fn) {
			walk(fn, 0)
		}
	}
	return out
}

func ruleBufReset(p *core.Program) []core.Obligation {
	const rule = "R-BUFRESET"
	var obs []core.Obligation
	path := nextPathFuncs(p)
	type fk struct {
		t *types.Named
		f string
	}
	grown := map[fk]ssa.Instruction{}
	reset := map[fk]bool{}
	var fns []*ssa.Function
	for f := range path {
		fns = append(fns, f)
	}
	sort.Slice(fns, func(i, j int) bool { return fns[i].String() < fns[j].String() })
	for _, fn := range fns {
		recv := recvNamed(fn)
		if recv == nil || len(fn.Params) == 0 {
			continue
		}
		core.EachInstr(fn, func(_ *ssa.BasicBlock, _ int, ins ssa.Instruction) {
			st, ok := ins.(*ssa.Store)
			if !ok {
				return
			}
			fa, ok := st.Addr.(*ssa.FieldAddr)
			if !ok || !rootedAtReceiver(fn, fa.X) {
				return
			}
			n, f, _, ok := core.FieldRef(fa)
			if !ok || n != recv {
				return
			}
			if _, isSlice := st.Val.Type().Underlying().(*types.Slice); !isSlice {
				return
			}
			k := fk{n, f}
			switch v := st.Val.(type) {
			case *ssa.Call:
				if bi, ok := v.Call.Value.(*ssa.Builtin); ok && bi.Name() == "append" {
					if ld, ok := v.Call.Args[0].(*ssa.UnOp); ok && core.SameExpr(ld.X, fa) {
						if _, seen := grown[k]; !seen {
							grown[k] = st
						}
						return
					}
				}
				reset[k] = true // the result of some other call: a new list
			case *ssa.Slice:
				reset[k] = true
			case *ssa.MakeSlice, *ssa.Const:
				reset[k] = true
			default:
				reset[k] = true
			}
		})
	}
	var ks []fk
	for k := range grown {
		ks = append(ks, k)
	}
	sort.Slice(ks, func(i, j int) bool { return ks[i].t.Obj().Name()+ks[i].f < ks[j].t.Obj().Name()+ks[j].f })
	for _, k := range ks {
		st := grown[k]
		key := fmt.Sprintf("%s.%s, grown per batch, is emptied per batch", k.t.Obj().Name(), k.f)
		if reset[k] {
			obs = append(obs, core.Ob(rule, key, p.Pos(st.Pos()), core.FuncName(st.Parent()), core.Held, "the per-batch code also assigns an emptied or new list"))
		} else {
			obs = append(obs, core.Ob(rule, key, p.Pos(st.Pos()), core.FuncName(st.Parent()), core.Violated, "the per-batch code only ever appends to this field: it grows from batch to batch and keeps the entries of earlier batches in front"))
		}
	}
	return obs
}

func ruleIDOffset(p *core.Program) []core.Obligation {
	const rule = "R-IDOFFSET"
	var obs []core.Obligation
	for _, fn := range p.Funcs {
		if !hasPrefixRel(fn, "execution/exchange") {
			continue
		}
		f := fn
		k := 0
		core.EachInstr(fn, func(_ *ssa.BasicBlock, _ int, ins ssa.Instruction) {
			st, ok := ins.(*ssa.Store)
			if !ok {
				return
			}
			ia, ok := st.Addr.(*ssa.IndexAddr)
			if !ok {
				return
			}
			ld := core.Deref(ia.X)
			if ld == nil {
				return
			}
			n, fld, _, ok := core.FieldRef(ld)
			if !ok || n == nil || n.Obj().Name() != "StepVector" || fld != "SampleIDs" {
				return
			}
			k++
			root := f
			for root.Parent() != nil {
				root = root.Parent()
			}
			recv := "func"
			if r := recvNamed(root); r != nil {
				recv = r.Obj().Name()
			}
			key := fmt.Sprintf("%s.%s rewrites a sample ID #%d from the ID it replaces", recv, root.Name(), k)
			fromOld := false
			core.BackSlice(st.Val, func(x ssa.Value) bool {
				if u, ok := x.(*ssa.UnOp); ok && u.Op == token.MUL {
					if oa, ok := u.X.(*ssa.IndexAddr); ok && core.SameExpr(oa, ia) {
						fromOld = true
					}
				}
				return !fromOld
			})
			if fromOld {
				obs = append(obs, core.Ob(rule, key, p.Pos(st.Pos()), core.FuncName(f), core.Held, "computed from the element's old value"))
			} else {
				obs = append(obs, core.Ob(rule, key, p.Pos(st.Pos()), core.FuncName(f), core.Violated, "the new ID does not depend on the ID it replaces (e.g. offset + position): when a series of the operand has no sample at a step, the samples after it are attributed to the wrong series"))
			}
		})
	}
	return obs
}

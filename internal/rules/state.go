package rules

import (
	"fmt"
	"go/token"
	"go/types"
	"sort"
	"strings"

	"golang.org/x/tools/go/ssa"

	"verif/internal/core"
)

func init() {
	register(&Rule{ID: "R-INITBEFOREUSE", Min: 14, Run: ruleInitBeforeUse,
		Doc: "for every type with a sync.Once field: W = fields stored (transitively, incl. the context of the workers it starts) by the once-guarded initialiser; every interface method of the type (Next, Series, GetSeries, ...) that reads a member of W, directly or through its static callees, does so only after the once.Do call (or a wrapper that performs it)"})
	register(&Rule{ID: "R-LOSTCANCEL", Min: 1, Run: ruleLostCancel,
		Doc: "every context.WithCancel/WithTimeout/WithDeadline in the repo has its cancel function deferred in the same block, so the per-execution context is cancelled on every return and panic"})
	register(&Rule{ID: "R-ZEROSTEP", Min: 3, Run: ruleZeroStep,
		Doc: "every step cursor advanced by `cursor += f(step)` establishes step != 0 first: either the value stored into the step field is replaced by a non-zero constant when it is zero, or an in-place `if step == 0 { step = c }` dominates the advance (instant queries have step 0 and would never terminate)"})
	register(&Rule{ID: "R-APIFIELDSYNC", Min: 1, Run: ruleAPIFieldSync,
		Doc: "a field of compatibilityQuery that is written by one of the concurrently callable API methods {Exec, Cancel, Close} and accessed by another is accessed only between Lock and Unlock of one mutex field of the query"})
	register(&Rule{ID: "R-GLOBALS", Min: 8, Run: ruleGlobals,
		Doc: "no package-level variable of the repo is assigned, element-assigned or map-updated outside package initialisation"})
	register(&Rule{ID: "R-ENGINEWO", Min: 5, Run: ruleEngineWriteOnce,
		Doc: "fields of compatibilityEngine (and of the local/distributed engine wrappers) are stored only into the freshly allocated value inside the constructor"})
	register(&Rule{ID: "R-POOLSCOPE", Min: 3, Run: rulePoolScope,
		Doc: "no engine struct and no package-level variable has a type that can hold a *VectorPool or *SelectorPool, and both pool constructors are called only from functions of the plan-construction tree"})
	register(&Rule{ID: "R-FOREIGNAPPEND", Min: 1, Run: ruleForeignAppend,
		Doc: "an append whose base slice comes from a parameter of an exported function, from a package-level variable or from a field of the parsed expression (directly, or through a parameter of an unexported helper) and whose result is kept (stored into a field, a global, or a returned value) must first copy: the base is a fresh slice or a full slice expression"})
	register(&Rule{ID: "R-INTCONV", Min: 2, Run: ruleIntConv,
		Doc: "every float-to-integer conversion in execution/... whose operand depends on a value that arrives at run time (a parameter, a field, a slice element) is dominated by a branch that tests that same value (NaN/range check)"})
	register(&Rule{ID: "R-SAMPLE0", Min: 4, Run: ruleSample0,
		Doc: "every read of element 0 of a StepVector's Samples is dominated by a length test of that same Samples slice (a step without a sample delivers an empty vector)"})

	mutant(Mutant{Rule: "R-INITBEFOREUSE", Name: "unary-workers-not-started", File: "execution/unary/unary.go",
		Old: "\tvar err error\n\tu.once.Do(func() { err = u.loadSeries(ctx) })\n\tif err != nil {\n\t\treturn nil, err\n\t}\n\n\tin, err := u.next.Next(ctx)", New: "\tin, err := u.next.Next(ctx)", Expect: "unaryNegation"})
	mutant(Mutant{Rule: "R-INITBEFOREUSE", Name: "function-series-before-load", File: "execution/function/operator.go",
		Old: "\tif err := o.loadSeries(ctx); err != nil {\n\t\treturn nil, err\n\t}\n\n\t// Process non-variadic", New: "\t// Process non-variadic", Expect: "functionOperator"})
	mutant(Mutant{Rule: "R-INITBEFOREUSE", Name: "coalesce-next-without-load", File: "execution/exchange/coalesce.go",
		Old: "\tvar err error\n\tc.once.Do(func() { err = c.loadSeries(ctx) })\n\tif err != nil {\n\t\treturn nil, err\n\t}\n\n\tvar out []model.StepVector = nil", New: "\tvar out []model.StepVector = nil", Expect: "coalesceOperator.Next"})
	mutant(Mutant{Rule: "R-LOSTCANCEL", Name: "cancel-not-deferred", File: "engine/engine.go",
		Old: "\tctx, cancel := context.WithCancel(ctx)\n\tdefer cancel()\n", New: "\tctx, cancel := context.WithCancel(ctx)\n", Expect: "Exec"})
	mutant(Mutant{Rule: "R-ZEROSTEP", Name: "noarg-zero-step", File: "execution/function/operator.go",
		Old: "\t\tinterval := opts.Step.Milliseconds()\n\t\t// We set interval to be at least 1.\n\t\tif interval == 0 {\n\t\t\tinterval = 1\n\t\t}\n", New: "\t\tinterval := opts.Step.Milliseconds()\n", Expect: "noArgFunctionOperator"})
	mutant(Mutant{Rule: "R-ZEROSTEP", Name: "selector-zero-step", File: "execution/scan/vector_selector.go",
		Old: "\tif o.step == 0 {\n\t\to.step = 1\n\t}\n", New: "", Expect: "vectorSelector"})
	mutant(Mutant{Rule: "R-APIFIELDSYNC", Name: "cancel-unlocked", File: "engine/engine.go",
		Old: "\tq.cancelMtx.Lock()\n\tq.cancel = cancel\n\tq.cancelMtx.Unlock()\n", New: "\tq.cancel = cancel\n", Expect: "cancel"})
	mutant(Mutant{Rule: "R-GLOBALS", Name: "global-assigned-at-runtime", File: "logicalplan/plan.go",
		Old: "func (p *plan) Optimize(optimizers []Optimizer) Plan {\n", New: "func (p *plan) Optimize(optimizers []Optimizer) Plan {\n\tDefaultOptimizers = optimizers\n", Expect: "DefaultOptimizers"})
	mutant(Mutant{Rule: "R-GLOBALS", Name: "shared-hasher", File: "execution/storage/pool.go",
		Old: "var sep = []byte{'\\xff'}\n", New: "var sep = []byte{'\\xff'}\n\nvar keyHasher = xxhash.New()\n",
		Old2: "\tsb := xxhash.New()\n", New2: "\tsb := keyHasher\n\tsb.Reset()\n", Expect: "keyHasher"})
	mutant(Mutant{Rule: "R-ENGINEWO", Name: "engine-field-written-per-query", File: "engine/engine.go",
		Old: "\tif opts != nil && opts.LookbackDelta > 0 {\n\t\treturn opts.LookbackDelta\n\t}", New: "\tif opts != nil && opts.LookbackDelta > 0 {\n\t\te.lookbackDelta = opts.LookbackDelta\n\t}", Expect: "lookbackDelta"})
	mutant(Mutant{Rule: "R-ENGINEWO", Name: "engine-level-counter", File: "engine/engine.go",
		Old: "\tdisableFallback   bool\n\tlogger            log.Logger\n", New: "\tdisableFallback   bool\n\tcreated           sync.Map\n\tlogger            log.Logger\n", Old2: "\tlplan := logicalplan.New(expr, ts, ts)\n", New2: "\te.created.Store(qs, ts)\n\tlplan := logicalplan.New(expr, ts, ts)\n", Expect: "created"})
	mutant(Mutant{Rule: "R-FOREIGNAPPEND", Name: "append-into-the-parsed-matcher-list", File: "logicalplan/propagate_selectors.go",
		Old: "\tres := append(own[:len(own):len(own)], extra...)\n", New: "\tres := append(own, extra...)\n", Expect: "withMatchers"})
	mutant(Mutant{Rule: "R-FOREIGNAPPEND", Name: "append-into-callers-slice", File: "engine/engine.go",
		Old: "\toptimizers := make([]logicalplan.Optimizer, 0, len(opts.LogicalOptimizers)+1)\n\toptimizers = append(optimizers, opts.LogicalOptimizers...)\n\topts.LogicalOptimizers = append(optimizers, ", New: "\topts.LogicalOptimizers = append(opts.LogicalOptimizers, ", Expect: "NewDistributedEngine"})
	mutant(Mutant{Rule: "R-INTCONV", Name: "k-unchecked", File: "execution/aggregate/khashaggregate.go",
		Old: "\t\tif !convertibleToInt64(a.params[i]) {\n\t\t\treturn nil, errors.Newf(\"Scalar value %v overflows int64\", a.params[i])\n\t\t}\n", New: "", Expect: "kAggregate"})
	mutant(Mutant{Rule: "R-INTCONV", Name: "quantile-nan-unchecked", File: "execution/aggregate/scalar_table.go",
		Old: "if len(points) == 0 || math.IsNaN(q) {", New: "if len(points) == 0 {", Expect: "quantile"})
	mutant(Mutant{Rule: "R-SAMPLE0", Name: "param-read-unguarded", File: "execution/aggregate/hashaggregate.go",
		Old: "\t\t\t\tif len(args[i].Samples) > 0 {\n\t\t\t\t\ta.params[i] = args[i].Samples[0]\n\t\t\t\t}", New: "\t\t\t\ta.params[i] = args[i].Samples[0]", Expect: "aggregate).Next"})
}

// ---------------------------------------------------------------------------------------------
// R-INITBEFOREUSE

type onceInfo struct {
	owner  *types.Named
	field  string          // name of the sync.Once field
	inits  []*ssa.Function // closures handed to once.Do
	doCall map[*ssa.Function][]*ssa.Call
}

func isOnceDo(cc *ssa.CallCommon) bool { return core.IsStatic(cc, "(*sync.Once).Do") }

func ruleInitBeforeUse(p *core.Program) []core.Obligation {
	const rule = "R-INITBEFOREUSE"
	var obs []core.Obligation
	// 1. all once.Do sites, grouped by (owner type, once field)
	onces := map[string]*onceInfo{}
	for _, fn := range p.Funcs {
		core.EachInstr(fn, func(b *ssa.BasicBlock, i int, ins ssa.Instruction) {
			call, ok := ins.(*ssa.Call)
			if !ok || !isOnceDo(&call.Call) {
				return
			}
			n, f, _, ok := core.FieldRef(call.Call.Args[0])
			if !ok || n == nil {
				return
			}
			k := n.String() + "." + f
			oi := onces[k]
			if oi == nil {
				oi = &onceInfo{owner: n, field: f, doCall: map[*ssa.Function][]*ssa.Call{}}
				onces[k] = oi
			}
			if mc, ok := call.Call.Args[1].(*ssa.MakeClosure); ok {
				if cf, ok := mc.Fn.(*ssa.Function); ok {
					oi.inits = append(oi.inits, cf)
				}
			}
			oi.doCall[fn] = append(oi.doCall[fn], call)
		})
	}
	var keys []string
	for k := range onces {
		keys = append(keys, k)
	}
	sort.Strings(keys)
	workerNamed := func() *types.Named {
		if pk := p.Pkg("worker"); pk != nil {
			if o := pk.Types.Scope().Lookup("Worker"); o != nil {
				return core.NamedOf(o.Type())
			}
		}
		return nil
	}()
	for _, k := range keys {
		oi := onces[k]
		// 2. W: fields of the owner (and of worker.Worker) stored by code reachable from the initialisers
		W := map[string]bool{}
		staticOnly := func(caller *ssa.Function, ins ssa.Instruction, callee *ssa.Function) bool {
			cc := core.CallCommon(ins)
			if cc != nil && cc.IsInvoke() {
				return false // children carry their own obligation
			}
			return true
		}
		initFns := map[*ssa.Function]bool{}
		for _, init := range oi.inits {
			for f := range syncReach(p, init, staticOnly) {
				initFns[f] = true
			}
			// goroutines started by the initialiser (the workers) also belong to it
			for f := range initFns {
				core.EachInstr(f, func(b *ssa.BasicBlock, i int, ins ssa.Instruction) {
					if g, ok := ins.(*ssa.Go); ok {
						for _, e := range goEntries(p, g) {
							if p.InRepo(e) && recvNamed(e) == workerNamed && workerNamed != nil {
								// only the prologue stores of a started worker matter (w.ctx = ctx)
								initFns[e] = true
							}
						}
					}
				})
			}
		}
		for f := range initFns {
			core.EachInstr(f, func(b *ssa.BasicBlock, i int, ins ssa.Instruction) {
				st, ok := ins.(*ssa.Store)
				if !ok {
					return
				}
				n, fld, _, ok := core.FieldRef(st.Addr)
				if !ok || n == nil {
					return
				}
				if n == oi.owner || (workerNamed != nil && n == workerNamed) {
					W[n.Obj().Name()+"."+fld] = true
				}
			})
		}
		// the pool's stepSize hint is written by loaders but only sizes allocations
		delete(W, oi.owner.Obj().Name()+"."+oi.field)
		// 3. entry methods: every method of the owner that is not itself an initialiser
		ms := p.SSA.MethodSets.MethodSet(types.NewPointer(oi.owner))
		for i := 0; i < ms.Len(); i++ {
			m := p.SSA.MethodValue(ms.At(i))
			if m == nil || m.Blocks == nil || m.Synthetic != "" || initFns[m] {
				continue
			}
			// only methods that belong to an interface the consumers call (exported or declared in an interface of the repo)
			if !isEntryMethod(p, oi.owner, m) {
				continue
			}
			key := fmt.Sprintf("%s.%s reads state initialised under %s", oi.owner.Obj().Name(), m.Name(), oi.field)
			viol := checkUseAfterDo(p, oi, W, initFns, m, workerNamed)
			if viol == "" {
				obs = append(obs, core.Ob(rule, key, p.Pos(m.Pos()), core.FuncName(m), core.Held, fmt.Sprintf("W=%v", sortedKeys(W))))
			} else {
				obs = append(obs, core.Ob(rule, key, p.Pos(m.Pos()), core.FuncName(m), core.Violated, viol))
			}
		}
	}
	return obs
}

func sortedKeys(m map[string]bool) []string {
	var out []string
	for k := range m {
		out = append(out, k)
	}
	sort.Strings(out)
	return out
}

func isEntryMethod(p *core.Program, owner *types.Named, m *ssa.Function) bool {
	switch m.Name() {
	case "Next", "Series", "GetSeries", "GetPool", "Explain", "Matchers":
		return true
	}
	return false
}

// doesInit reports whether calling fn always performs once.Do on oi (fn is a wrapper such as loadSeries).
func doesInit(p *core.Program, oi *onceInfo, fn *ssa.Function, depth int) bool {
	if depth > 3 || fn == nil || fn.Blocks == nil {
		return false
	}
	for _, c := range oi.doCall[fn] {
		if allReturnsAfter(fn, c) {
			return true
		}
	}
	// or it unconditionally calls a wrapper
	ok := false
	core.EachInstr(fn, func(b *ssa.BasicBlock, i int, ins ssa.Instruction) {
		call, isCall := ins.(*ssa.Call)
		if !isCall || ok {
			return
		}
		if callee := call.Call.StaticCallee(); callee != nil && p.InRepo(callee) && recvNamed(callee) == oi.owner && allReturnsAfter(fn, call) {
			if doesInit(p, oi, callee, depth+1) {
				ok = true
			}
		}
	})
	return ok
}

// allReturnsAfter reports whether c dominates every normal return of fn.
func allReturnsAfter(fn *ssa.Function, c ssa.Instruction) bool {
	ok := true
	core.EachInstr(fn, func(b *ssa.BasicBlock, i int, ins ssa.Instruction) {
		if _, isRet := ins.(*ssa.Return); isRet && b != fn.Recover {
			if !core.InstrDominates(c, ins) {
				ok = false
			}
		}
	})
	return ok
}

func checkUseAfterDo(p *core.Program, oi *onceInfo, W map[string]bool, initFns map[*ssa.Function]bool, m *ssa.Function, workerNamed *types.Named) string {
	// instructions of m that perform the initialisation
	var doPoints []ssa.Instruction
	core.EachInstr(m, func(b *ssa.BasicBlock, i int, ins ssa.Instruction) {
		call, ok := ins.(*ssa.Call)
		if !ok {
			return
		}
		if isOnceDo(&call.Call) {
			if n, f, _, ok := core.FieldRef(call.Call.Args[0]); ok && n == oi.owner && f == oi.field {
				doPoints = append(doPoints, call)
			}
			return
		}
		if callee := call.Call.StaticCallee(); callee != nil && p.InRepo(callee) && recvNamed(callee) == oi.owner && doesInit(p, oi, callee, 0) {
			doPoints = append(doPoints, call)
		}
	})
	after := func(ins ssa.Instruction) bool {
		for _, d := range doPoints {
			if d == ins || core.InstrDominates(d, ins) {
				return true
			}
		}
		return false
	}
	// reads of W directly in m
	var viol string
	readsW := func(f *ssa.Function) (string, bool) {
		var hit string
		core.EachInstr(f, func(b *ssa.BasicBlock, i int, ins ssa.Instruction) {
			v, ok := ins.(ssa.Value)
			if !ok || hit != "" {
				return
			}
			n, fld, _, ok := core.FieldRef(v)
			if !ok || n == nil {
				return
			}
			if !(n == oi.owner || (workerNamed != nil && n == workerNamed)) || !W[n.Obj().Name()+"."+fld] {
				return
			}
			// a FieldAddr that is only stored to is not a read
			if fa, isAddr := v.(*ssa.FieldAddr); isAddr {
				read := false
				for _, r := range core.Referrers(fa) {
					if st, ok := r.(*ssa.Store); ok && st.Addr == ssa.Value(fa) {
						continue
					}
					read = true
				}
				if !read {
					return
				}
			}
			hit = n.Obj().Name() + "." + fld
		})
		return hit, hit != ""
	}
	core.EachInstr(m, func(b *ssa.BasicBlock, i int, ins ssa.Instruction) {
		if viol != "" {
			return
		}
		if v, ok := ins.(ssa.Value); ok {
			if n, fld, _, ok := core.FieldRef(v); ok && n != nil && (n == oi.owner || (workerNamed != nil && n == workerNamed)) && W[n.Obj().Name()+"."+fld] {
				onlyStore := false
				if fa, isAddr := v.(*ssa.FieldAddr); isAddr {
					onlyStore = true
					for _, r := range core.Referrers(fa) {
						if st, ok := r.(*ssa.Store); !ok || st.Addr != ssa.Value(fa) {
							onlyStore = false
						}
					}
				}
				if !onlyStore && !after(ins) {
					viol = fmt.Sprintf("%s is read at %s before %s.Do has run: when this method is called first the state is still uninitialised", n.Obj().Name()+"."+fld, p.Pos(ins.Pos()), oi.field)
				}
			}
		}
		// closures created here (goroutine bodies, callbacks) that read W run at or after their creation
		if mc, ok := ins.(*ssa.MakeClosure); ok && !after(ins) {
			if cf, ok := mc.Fn.(*ssa.Function); ok && !initFns[cf] {
				onceArg := false
				for _, r := range core.Referrers(mc) {
					if cc := core.CallCommon(r); cc != nil && isOnceDo(cc) {
						onceArg = true
					}
				}
				if !onceArg {
					if hit, ok := readsW(cf); ok {
						viol = fmt.Sprintf("a closure created at %s reads %s before %s.Do has run", p.Pos(ins.Pos()), hit, oi.field)
						return
					}
				}
			}
		}
		// static callees (same package helpers and the worker API) that read W
		if call, ok := ins.(*ssa.Call); ok && !isOnceDo(&call.Call) {
			callee := call.Call.StaticCallee()
			if callee == nil || !p.InRepo(callee) || initFns[callee] && recvNamed(callee) != workerNamed {
				return
			}
			if after(ins) {
				return
			}
			for f := range syncReach(p, callee, func(caller *ssa.Function, ins ssa.Instruction, c *ssa.Function) bool {
				cc := core.CallCommon(ins)
				return cc == nil || !cc.IsInvoke()
			}) {
				if oi.doCall[f] != nil {
					return // the callee initialises itself
				}
				if hit, ok := readsW(f); ok {
					viol = fmt.Sprintf("%s (which reads %s) is called at %s before %s.Do has run", core.FuncName(f), hit, p.Pos(ins.Pos()), oi.field)
					return
				}
			}
		}
	})
	return viol
}

// ---------------------------------------------------------------------------------------------

func ruleLostCancel(p *core.Program) []core.Obligation {
	const rule = "R-LOSTCANCEL"
	var obs []core.Obligation
	for _, fn := range p.Funcs {
		core.EachInstr(fn, func(b *ssa.BasicBlock, i int, ins ssa.Instruction) {
			call, ok := ins.(*ssa.Call)
			if !ok {
				return
			}
			name := core.CalleeName(&call.Call)
			if name != "context.WithCancel" && name != "context.WithTimeout" && name != "context.WithDeadline" {
				return
			}
			key := core.FuncName(fn) + " " + name
			var cancel ssa.Value
			for _, r := range core.Referrers(call) {
				if ex, ok := r.(*ssa.Extract); ok && ex.Index == 1 {
					cancel = ex
				}
			}
			deferred := false
			if cancel != nil {
				for _, x := range b.Instrs[i:] {
					if d, ok := x.(*ssa.Defer); ok && d.Call.Value == cancel {
						deferred = true
					}
				}
			}
			if deferred {
				obs = append(obs, core.Ob(rule, key, p.Pos(ins.Pos()), core.FuncName(fn), core.Held, "cancel is deferred right after the context is created"))
			} else {
				obs = append(obs, core.Ob(rule, key, p.Pos(ins.Pos()), core.FuncName(fn), core.Violated, "the cancel function is not deferred in the creating block: some return or panic leaves the per-execution context alive and the goroutines waiting on it leak"))
			}
		})
	}
	return obs
}

// ---------------------------------------------------------------------------------------------

func ruleZeroStep(p *core.Program) []core.Obligation {
	const rule = "R-ZEROSTEP"
	var obs []core.Obligation
	for _, fn := range p.Funcs {
		recv := recvNamed(fn)
		if recv == nil || fn.Parent() != nil {
			continue
		}
		core.EachInstr(fn, func(b *ssa.BasicBlock, i int, ins ssa.Instruction) {
			st, ok := ins.(*ssa.Store)
			if !ok {
				return
			}
			n, cur, base, ok := core.FieldRef(st.Addr)
			if !ok || n != recv {
				return
			}
			bo, ok := st.Val.(*ssa.BinOp)
			if !ok || bo.Op != token.ADD {
				return
			}
			// the stored sum depends on the old value of the same field (directly, or through a local cursor that started
			// from it) and on a different int field of the receiver (the step)
			selfDep := false
			core.BackSlice(st.Val, func(x ssa.Value) bool {
				if a := core.Deref(x); a != nil && core.SameExpr(a, st.Addr) {
					selfDep = true
				}
				return true
			})
			if !selfDep {
				return
			}
			other := ssa.Value(bo)
			var stepLoad *ssa.UnOp
			var stepField string
			core.BackSlice(other, func(x ssa.Value) bool {
				if u, ok := x.(*ssa.UnOp); ok && u.Op == token.MUL {
					if n2, f2, b2, ok := core.FieldRef(u.X); ok && n2 == recv && f2 != cur && b2 == base && isIntType(u.Type()) {
						if f2 == "numSteps" || f2 == "stepsBatch" {
							return true
						}
						stepLoad, stepField = u, f2
					}
				}
				return true
			})
			if stepLoad == nil {
				return
			}
			key := fmt.Sprintf("%s.%s += f(%s)", recv.Obj().Name(), cur, stepField)
			// (a) in-place guard dominating the load: If (load step == 0) whose true branch stores a non-zero constant to step
			guarded := false
			for _, gb := range fn.Blocks {
				iff := core.IfOf(gb)
				if iff == nil {
					continue
				}
				cb, ok := iff.Cond.(*ssa.BinOp)
				if !ok || cb.Op != token.EQL {
					continue
				}
				l := core.Deref(cb.X)
				if l == nil || !core.SameExpr(l, stepLoad.X) {
					continue
				}
				if c, ok := core.ConstInt(cb.Y); !ok || c != 0 {
					continue
				}
				tb := gb.Succs[0]
				stores := false
				for _, x := range tb.Instrs {
					if s2, ok := x.(*ssa.Store); ok && core.SameExpr(s2.Addr, stepLoad.X) {
						if c, ok := core.ConstInt(s2.Val); ok && c != 0 {
							stores = true
						}
					}
				}
				// the join after the guard must dominate the load
				if stores && len(tb.Succs) == 1 && core.BlockDominates(tb.Succs[0], stepLoad.Block()) && gb.Succs[1] == tb.Succs[0] {
					guarded = true
				}
			}
			// (b) every value stored into the step field elsewhere is non-zero-established
			if !guarded {
				stores := p.FieldStores(recv, stepField)
				all := len(stores) > 0
				for _, v := range stores {
					if !nonZeroEstablished(v) {
						all = false
					}
				}
				guarded = all
			}
			if guarded {
				obs = append(obs, core.Ob(rule, key, p.Pos(ins.Pos()), core.FuncName(fn), core.Held, "step is forced to be non-zero before the cursor advances"))
			} else {
				obs = append(obs, core.Ob(rule, key, p.Pos(ins.Pos()), core.FuncName(fn), core.Violated, "the cursor is advanced by a step that may be zero (instant query): the operator never reaches the end of its window and the query does not terminate"))
			}
		})
	}
	return obs
}

// nonZeroEstablished: v is a non-zero constant, or phi(x, c != 0) where x arrives on the false edge of x == 0.
func nonZeroEstablished(v ssa.Value) bool {
	if c, ok := core.ConstInt(v); ok {
		return c != 0
	}
	phi, ok := v.(*ssa.Phi)
	if !ok {
		return false
	}
	for i, e := range phi.Edges {
		if c, ok := core.ConstInt(e); ok {
			if c == 0 {
				return false
			}
			continue
		}
		pred := phi.Block().Preds[i]
		iff := core.IfOf(pred)
		if iff == nil {
			return false
		}
		bo, ok := iff.Cond.(*ssa.BinOp)
		if !ok || bo.X != e {
			return false
		}
		c, isC := core.ConstInt(bo.Y)
		if !isC || c != 0 {
			return false
		}
		switch {
		case bo.Op == token.EQL && pred.Succs[1] == phi.Block() && pred.Succs[0] != phi.Block():
		case bo.Op == token.NEQ && pred.Succs[0] == phi.Block() && pred.Succs[1] != phi.Block():
		default:
			return false
		}
	}
	return true
}

// ---------------------------------------------------------------------------------------------

func ruleAPIFieldSync(p *core.Program) []core.Obligation {
	const rule = "R-APIFIELDSYNC"
	var obs []core.Obligation
	pk := p.Pkg("engine")
	if pk == nil {
		return []core.Obligation{core.Ob(rule, "package engine", "-", "", core.Lost, "not found")}
	}
	o := pk.Types.Scope().Lookup("compatibilityQuery")
	if o == nil {
		return []core.Obligation{core.Ob(rule, "engine.compatibilityQuery", "-", "", core.Lost, "type not found")}
	}
	qt := core.NamedOf(o.Type())
	api := []string{"Exec", "Cancel", "Close"}
	type access struct {
		ins    ssa.Instruction
		write  bool
		method string
		fn     *ssa.Function
	}
	byField := map[string][]access{}
	for _, mname := range api {
		m := p.Func("engine", "compatibilityQuery."+mname)
		if m == nil {
			obs = append(obs, core.Ob(rule, "engine.compatibilityQuery."+mname, "-", "", core.Lost, "method not found"))
			continue
		}
		for f := range syncReach(p, m, func(caller *ssa.Function, ins ssa.Instruction, c *ssa.Function) bool {
			cc := core.CallCommon(ins)
			return cc == nil || !cc.IsInvoke()
		}) {
			core.EachInstr(f, func(b *ssa.BasicBlock, i int, ins ssa.Instruction) {
				fa, ok := ins.(*ssa.FieldAddr)
				if !ok {
					return
				}
				n, fld, _, ok := core.FieldRef(fa)
				if !ok || n != qt {
					return
				}
				for _, r := range core.Referrers(fa) {
					switch x := r.(type) {
					case *ssa.Store:
						if x.Addr == ssa.Value(fa) {
							byField[fld] = append(byField[fld], access{x, true, mname, f})
						}
					case *ssa.UnOp:
						byField[fld] = append(byField[fld], access{x, false, mname, f})
					case *ssa.Call:
						// address passed to a method (the mutex itself): not a data access
					}
				}
			})
		}
	}
	var fields []string
	for f := range byField {
		fields = append(fields, f)
	}
	sort.Strings(fields)
	for _, fld := range fields {
		acc := byField[fld]
		methods := map[string]bool{}
		written := false
		for _, a := range acc {
			methods[a.method] = true
			if a.write {
				written = true
			}
		}
		if !written || len(methods) < 2 {
			continue
		}
		key := "compatibilityQuery." + fld + " shared between " + strings.Join(sortedKeys(methods), ",")
		bad := ""
		for _, a := range acc {
			if !underLock(a.ins, qt) {
				bad = fmt.Sprintf("%s in %s (%s)", map[bool]string{true: "write", false: "read"}[a.write], core.FuncName(a.fn), p.Pos(a.ins.Pos()))
				break
			}
		}
		if bad == "" {
			obs = append(obs, core.Ob(rule, key, p.Pos(acc[0].ins.Pos()), "", core.Held, fmt.Sprintf("all %d accesses are between Lock and Unlock of a mutex field of the query", len(acc))))
		} else {
			obs = append(obs, core.Ob(rule, key, p.Pos(acc[0].ins.Pos()), "", core.Violated, "unsynchronised "+bad+": Cancel/Close may run concurrently with Exec (data race; a cancellation can be lost)"))
		}
	}
	if len(obs) == 0 {
		obs = append(obs, core.Ob(rule, "compatibilityQuery: no field shared with a writer", p.Pos(o.Pos()), "", core.Held, "no field is written by one API method and accessed by another"))
	}
	return obs
}

// underLock: a Lock on a sync.Mutex field of owner dominates ins, and the matching Unlock is deferred
// or follows ins in the same block.
func underLock(ins ssa.Instruction, owner *types.Named) bool {
	fn := ins.Parent()
	var locks, unlocks []ssa.Instruction
	deferredUnlock := false
	core.EachInstr(fn, func(b *ssa.BasicBlock, i int, x ssa.Instruction) {
		cc := core.CallCommon(x)
		if cc == nil || len(cc.Args) == 0 {
			return
		}
		n, _, _, ok := core.FieldRef(cc.Args[0])
		if !ok || n != owner {
			return
		}
		switch core.CalleeName(cc) {
		case "(*sync.Mutex).Lock", "(*sync.RWMutex).Lock":
			locks = append(locks, x)
		case "(*sync.Mutex).Unlock", "(*sync.RWMutex).Unlock":
			if _, isDefer := x.(*ssa.Defer); isDefer {
				deferredUnlock = true
			} else {
				unlocks = append(unlocks, x)
			}
		}
	})
	for _, l := range locks {
		if !core.InstrDominates(l, ins) {
			continue
		}
		if deferredUnlock {
			return true
		}
		for _, u := range unlocks {
			if u.Block() == ins.Block() && core.InstrIndex(u) > core.InstrIndex(ins) && (l.Block() != ins.Block() || core.InstrIndex(l) < core.InstrIndex(ins)) {
				// no unlock between lock and access
				between := false
				for _, u2 := range unlocks {
					if core.InstrDominates(l, u2) && core.InstrDominates(u2, ins) {
						between = true
					}
				}
				if !between {
					return true
				}
			}
		}
	}
	return false
}

// ---------------------------------------------------------------------------------------------

func ruleGlobals(p *core.Program) []core.Obligation {
	const rule = "R-GLOBALS"
	var obs []core.Obligation
	type g struct {
		glob *ssa.Global
		bad  string
	}
	globals := map[*ssa.Global]*g{}
	var order []*ssa.Global
	for _, sp := range p.SSAPkgs {
		for _, m := range sp.Members {
			if gl, ok := m.(*ssa.Global); ok && !strings.HasPrefix(gl.Name(), "init$") {
				globals[gl] = &g{glob: gl}
				order = append(order, gl)
			}
		}
	}
	sort.Slice(order, func(i, j int) bool { return order[i].String() < order[j].String() })
	for _, fn := range p.Funcs {
		isInit := fn.Name() == "init" || (fn.Parent() != nil && fn.Parent().Name() == "init") || strings.HasPrefix(fn.Name(), "init#")
		if isInit {
			continue
		}
		core.EachInstr(fn, func(b *ssa.BasicBlock, i int, ins ssa.Instruction) {
			note := func(gl *ssa.Global, what string) {
				if e, ok := globals[gl]; ok && e.bad == "" {
					e.bad = what + " in " + core.FuncName(fn) + " at " + p.Pos(ins.Pos())
				}
			}
			switch x := ins.(type) {
			case *ssa.Store:
				if gl, ok := x.Addr.(*ssa.Global); ok {
					note(gl, "assigned")
				}
				if ia, ok := x.Addr.(*ssa.IndexAddr); ok {
					if gl := core.GlobalOf(ia.X); gl != nil {
						note(gl, "element assigned")
					}
				}
				if fa, ok := x.Addr.(*ssa.FieldAddr); ok {
					if gl, ok := fa.X.(*ssa.Global); ok {
						note(gl, "field assigned")
					}
				}
			case *ssa.MapUpdate:
				if gl := core.GlobalOf(x.Map); gl != nil {
					note(gl, "map updated")
				}
			case *ssa.Call:
				// a pointer-receiver method invoked on a package-level object mutates shared state
				// (a hasher, a pool, a buffer); read-only accessors of error values are exempt
				if callee := x.Call.StaticCallee(); callee != nil && callee.Signature.Recv() != nil && len(x.Call.Args) > 0 {
					if _, ptr := callee.Signature.Recv().Type().(*types.Pointer); ptr {
						if gl := core.GlobalOf(x.Call.Args[0]); gl != nil {
							switch callee.Name() {
							case "Error", "String", "Is", "Unwrap", "Format", "Lock", "Unlock", "RLock", "RUnlock", "Do":
							default:
								note(gl, "mutated through "+callee.Name()+"()")
							}
						}
					}
				}
				// sort/slices.Sort on a global slice reorders it in place
				name := core.CalleeName(&x.Call)
				if strings.HasPrefix(name, "sort.") || strings.HasPrefix(name, "golang.org/x/exp/slices.Sort") {
					for _, a := range x.Call.Args {
						if gl := core.GlobalOf(a); gl != nil {
							note(gl, "sorted in place")
						}
					}
				}
			}
		})
	}
	for _, gl := range order {
		e := globals[gl]
		key := "global " + strings.ReplaceAll(gl.String(), core.Module+"/", "")
		if e.bad != "" {
			obs = append(obs, core.Ob(rule, key, p.Pos(gl.Pos()), "", core.Violated, "package-level state is "+e.bad+": it is shared by all engines and queries of the process"))
		} else {
			obs = append(obs, core.Ob(rule, key, p.Pos(gl.Pos()), "", core.Held, "written only during package initialisation"))
		}
	}
	return obs
}

func ruleEngineWriteOnce(p *core.Program) []core.Obligation {
	const rule = "R-ENGINEWO"
	var obs []core.Obligation
	pk := p.Pkg("engine")
	if pk == nil {
		return []core.Obligation{core.Ob(rule, "package engine", "-", "", core.Lost, "not found")}
	}
	for _, tn := range []string{"compatibilityEngine", "localEngine", "distributedEngine"} {
		o := pk.Types.Scope().Lookup(tn)
		if o == nil {
			obs = append(obs, core.Ob(rule, "engine."+tn, "-", "", core.Lost, "type not found"))
			continue
		}
		nt := core.NamedOf(o.Type())
		st, _ := nt.Underlying().(*types.Struct)
		bad := map[string]string{}
		for _, fn := range p.Funcs {
			core.EachInstr(fn, func(b *ssa.BasicBlock, i int, ins ssa.Instruction) {
				s, ok := ins.(*ssa.Store)
				if !ok {
					return
				}
				addr := s.Addr
				// element/map writes through a field value are caught by following IndexAddr bases
				if ia, ok := addr.(*ssa.IndexAddr); ok {
					if l := core.Deref(ia.X); l != nil {
						addr = l
					}
				}
				n, f, base, ok := core.FieldRef(addr)
				if !ok || n != nt {
					return
				}
				if a, fresh := base.(*ssa.Alloc); fresh && a.Parent() == fn && addr == s.Addr {
					return // initialising the freshly allocated value
				}
				bad[f] = core.FuncName(fn) + " at " + p.Pos(ins.Pos())
			})
			// the address of an engine field handed to a call (atomic.Add, sync.Map.Store, Mutex.Lock ...) is a write too
			core.EachInstr(fn, func(b *ssa.BasicBlock, i int, ins ssa.Instruction) {
				cc := core.CallCommon(ins)
				if cc == nil {
					return
				}
				for _, a := range cc.Args {
					fa, ok := a.(*ssa.FieldAddr)
					if !ok {
						continue
					}
					n, f, base, ok := core.FieldRef(fa)
					if !ok || n != nt {
						continue
					}
					if al, fresh := base.(*ssa.Alloc); fresh && al.Parent() == fn {
						continue
					}
					bad[f] = core.FuncName(fn) + " (address passed to " + strings.ReplaceAll(core.CalleeName(cc), core.Module+"/", "") + ") at " + p.Pos(ins.Pos())
				}
			})
		}
		for i := 0; st != nil && i < st.NumFields(); i++ {
			f := st.Field(i).Name()
			key := tn + "." + f
			if where, isBad := bad[f]; isBad {
				obs = append(obs, core.Ob(rule, key, p.Pos(st.Field(i).Pos()), "", core.Violated, "engine state is written after construction in "+where+": it carries over to later queries and races with concurrent ones"))
			} else {
				obs = append(obs, core.Ob(rule, key, p.Pos(st.Field(i).Pos()), "", core.Held, "stored only into the fresh value in the constructor"))
			}
		}
	}
	return obs
}

func rulePoolScope(p *core.Program) []core.Obligation {
	const rule = "R-POOLSCOPE"
	var obs []core.Obligation
	isPool := func(t types.Type) bool {
		return core.TypeIs(t, modModel, "VectorPool") || core.TypeIs(t, core.Module+"/execution/storage", "SelectorPool")
	}
	var holds func(t types.Type, seen map[types.Type]bool) bool
	holds = func(t types.Type, seen map[types.Type]bool) bool {
		if seen[t] {
			return false
		}
		seen[t] = true
		if isPool(t) {
			return true
		}
		switch u := t.Underlying().(type) {
		case *types.Pointer:
			return holds(u.Elem(), seen)
		case *types.Slice:
			return holds(u.Elem(), seen)
		case *types.Array:
			return holds(u.Elem(), seen)
		case *types.Map:
			return holds(u.Key(), seen) || holds(u.Elem(), seen)
		case *types.Struct:
			for i := 0; i < u.NumFields(); i++ {
				if holds(u.Field(i).Type(), seen) {
					return true
				}
			}
		}
		return false
	}
	if pk := p.Pkg("engine"); pk != nil {
		for _, tn := range []string{"compatibilityEngine", "localEngine", "distributedEngine"} {
			o := pk.Types.Scope().Lookup(tn)
			if o == nil {
				obs = append(obs, core.Ob(rule, "engine."+tn, "-", "", core.Lost, "type not found"))
				continue
			}
			if holds(o.Type(), map[types.Type]bool{}) {
				obs = append(obs, core.Ob(rule, "engine."+tn+" holds no pool", p.Pos(o.Pos()), "", core.Violated, "an engine-lifetime struct can hold a vector/selector pool: buffers and select caches would be shared between queries"))
			} else {
				obs = append(obs, core.Ob(rule, "engine."+tn+" holds no pool", p.Pos(o.Pos()), "", core.Held, "no field type reaches *VectorPool or *SelectorPool (interfaces are opaque: model.VectorOperator values live in Query, not in the engine)"))
			}
		}
	}
	for _, sp := range p.SSAPkgs {
		for _, m := range sp.Members {
			if gl, ok := m.(*ssa.Global); ok {
				if holds(gl.Type(), map[types.Type]bool{}) {
					obs = append(obs, core.Ob(rule, "global "+gl.Name()+" holds no pool", p.Pos(gl.Pos()), "", core.Violated, "a package-level variable can hold a pool"))
				}
			}
		}
	}
	// constructors are called only inside the construction tree
	root := p.Func("execution", "New")
	if root == nil {
		obs = append(obs, core.Ob(rule, "execution.New", "-", "", core.Lost, "not found"))
		return obs
	}
	tree := syncReach(p, root, nil)
	for _, ctor := range []struct{ rel, name string }{{"execution/model", "NewVectorPool"}, {"execution/storage", "NewSelectorPool"}} {
		c := p.Func(ctor.rel, ctor.name)
		if c == nil {
			obs = append(obs, core.Ob(rule, ctor.name, "-", "", core.Lost, "not found"))
			continue
		}
		bad := ""
		for _, fn := range p.Funcs {
			core.EachInstr(fn, func(b *ssa.BasicBlock, i int, ins ssa.Instruction) {
				if cc := core.CallCommon(ins); cc != nil && cc.StaticCallee() == c && !tree[fn] {
					bad = core.FuncName(fn) + " at " + p.Pos(ins.Pos())
				}
			})
		}
		key := ctor.name + " called only while a plan is constructed"
		if bad != "" {
			obs = append(obs, core.Ob(rule, key, p.Pos(c.Pos()), "", core.Violated, "a pool is created outside the per-query construction tree, in "+bad))
		} else {
			obs = append(obs, core.Ob(rule, key, p.Pos(c.Pos()), "", core.Held, fmt.Sprintf("all callers are among the %d functions reachable from execution.New", len(tree))))
		}
	}
	return obs
}

// ---------------------------------------------------------------------------------------------

func ruleForeignAppend(p *core.Program) []core.Obligation {
	const rule = "R-FOREIGNAPPEND"
	var obs []core.Obligation
	for _, fn := range p.Funcs {
		k := 0
		core.EachInstr(fn, func(b *ssa.BasicBlock, i int, ins ssa.Instruction) {
			call, ok := ins.(*ssa.Call)
			if !ok {
				return
			}
			if bi, ok := call.Call.Value.(*ssa.Builtin); !ok || bi.Name() != "append" {
				return
			}
			base := call.Call.Args[0]
			origin := foreignOriginDeep(p, fn, base, 2)
			if origin == "" {
				return
			}
			if !kept(call) {
				return
			}
			k++
			key := fmt.Sprintf("%s appends to %s and keeps the result", core.FuncName(fn), origin)
			if sl, ok := base.(*ssa.Slice); ok && sl.Max != nil {
				obs = append(obs, core.Ob(rule, key, p.Pos(ins.Pos()), core.FuncName(fn), core.Held, "full slice expression caps the capacity"))
				return
			}
			isInit := fn.Name() == "init"
			if isInit {
				// a package initialiser appending to a composite literal (cap == len) allocates; checked by the literal origin
				if gl := core.GlobalOf(base); gl != nil && literalInitialised(p, gl) {
					obs = append(obs, core.Ob(rule, key, p.Pos(ins.Pos()), core.FuncName(fn), core.Held, "base is a composite literal (cap == len): append allocates"))
					return
				}
			}
			obs = append(obs, core.Ob(rule, key, p.Pos(ins.Pos()), core.FuncName(fn), core.Violated, "append may write into spare capacity of a slice owned by the caller or shared by the package: a later engine/query overwrites what an earlier one stored there"))
		})
	}
	// The rule's expected count of violating sites is zero; its positive example is the registered mutant.
	if len(obs) == 0 {
		obs = append(obs, core.Ob(rule, "no kept append onto a foreign slice in the repo", "-", "", core.Held, "every append onto a parameter-/global-derived slice either copies first or its result is not kept"))
	}
	return obs
}

// foreignOriginDeep extends foreignOrigin: a slice that is a field of a node of the parsed expression is
// foreign too (the expression is shared with the select hints, other optimizers and the query's String()),
// and a parameter of an unexported function is followed to the arguments at its call sites.
func foreignOriginDeep(p *core.Program, fn *ssa.Function, v ssa.Value, depth int) string {
	if o := foreignOrigin(fn, v); o != "" {
		return o
	}
	return parserOrigin(p, fn, v, depth)
}

// parserOrigin: v is a slice field of a parser node, possibly handed down through parameters of helpers.
// (Label sets handed to helpers that edit them in place are rule R-LABELFRESH's subject, not this one's.)
func parserOrigin(p *core.Program, fn *ssa.Function, v ssa.Value, depth int) string {
	origin := ""
	seen := map[ssa.Value]bool{}
	var walk func(x ssa.Value, d int)
	walk = func(x ssa.Value, d int) {
		if x == nil || seen[x] || d > 10 || origin != "" {
			return
		}
		seen[x] = true
		switch t := x.(type) {
		case *ssa.Parameter:
			pf := t.Parent()
			if depth <= 0 || pf == nil {
				return
			}
			for idx, q := range pf.Params {
				if q != t {
					continue
				}
				for _, caller := range p.Funcs {
					core.EachInstr(caller, func(_ *ssa.BasicBlock, _ int, ins ssa.Instruction) {
						cc := core.CallCommon(ins)
						if cc == nil || cc.StaticCallee() != pf || idx >= len(cc.Args) || origin != "" {
							return
						}
						if o := parserOrigin(p, caller, cc.Args[idx], depth-1); o != "" {
							origin = o + " (through " + core.FuncName(pf) + ")"
						}
					})
				}
			}
		case *ssa.UnOp:
			if t.Op == token.MUL {
				if n, f, base, ok := core.FieldRef(t.X); ok && n != nil && n.Obj().Pkg() != nil && n.Obj().Pkg().Path() == pkgParser {
					// the field of a function-local copy of a node that was just given a freshly allocated
					// slice (copy := *node; copy.LabelMatchers = make(...)) is not the node's own slice
					if al, isLocal := base.(*ssa.Alloc); isLocal && !al.Heap || isLocal && al.Comment != "complit" {
						if st := reachingStore(fn, al, f, t); st != nil && st.Addr != ssa.Value(al) && freshSlice(st.Val, map[ssa.Value]bool{}) {
							return
						}
					}
					origin = "parser." + n.Obj().Name() + "." + f
					return
				}
				walk(t.X, d+1)
			}
		case *ssa.Slice:
			if t.Max == nil {
				walk(t.X, d+1)
			}
		case *ssa.Phi:
			for _, e := range t.Edges {
				walk(e, d+1)
			}
		}
	}
	walk(v, 0)
	return origin
}

// foreignOrigin reports where a slice value comes from if that is a parameter of an exported
// top-level function (directly or as a field of a by-value struct parameter) or a package-level variable.
func foreignOrigin(fn *ssa.Function, v ssa.Value) string {
	origin := ""
	seen := map[ssa.Value]bool{}
	var walk func(x ssa.Value, d int)
	walk = func(x ssa.Value, d int) {
		if x == nil || seen[x] || d > 10 || origin != "" {
			return
		}
		seen[x] = true
		switch t := x.(type) {
		case *ssa.Parameter:
			if fn.Parent() == nil && fn.Object() != nil && fn.Object().Exported() && fn.Signature.Recv() == nil {
				origin = "parameter " + t.Name()
			}
		case *ssa.Global:
			origin = "package variable " + t.Name()
		case *ssa.UnOp:
			if t.Op == token.MUL {
				walk(t.X, d+1)
			}
		case *ssa.FieldAddr:
			walk(t.X, d+1)
		case *ssa.Field:
			walk(t.X, d+1)
		case *ssa.Alloc:
			// a by-value struct parameter spilled to a local: stores of a parameter into it
			for _, r := range core.Referrers(t) {
				if st, ok := r.(*ssa.Store); ok && st.Addr == ssa.Value(t) {
					walk(st.Val, d+1)
				}
			}
		case *ssa.Slice:
			if t.Max == nil {
				walk(t.X, d+1)
			}
		case *ssa.Phi:
			for _, e := range t.Edges {
				walk(e, d+1)
			}
		}
	}
	walk(v, 0)
	return origin
}

// kept reports whether the append result outlives the function: stored into a field or global, or returned.
func kept(call *ssa.Call) bool {
	seen := map[ssa.Value]bool{}
	var walk func(v ssa.Value, d int) bool
	walk = func(v ssa.Value, d int) bool {
		if seen[v] || d > 8 {
			return false
		}
		seen[v] = true
		for _, r := range core.Referrers(v) {
			switch x := r.(type) {
			case *ssa.Store:
				if x.Val != v {
					continue
				}
				switch a := x.Addr.(type) {
				case *ssa.Global:
					return true
				case *ssa.FieldAddr:
					// a field of a local by-value struct that is later passed on / returned, or of a heap value
					_ = a
					return true
				case *ssa.Alloc:
					if a.Heap {
						return true
					}
					for _, rr := range core.Referrers(a) {
						if u, ok := rr.(*ssa.UnOp); ok {
							if walk(u, d+1) {
								return true
							}
						}
					}
				}
			case *ssa.Return:
				return true
			case *ssa.Phi:
				if walk(x, d+1) {
					return true
				}
			}
		}
		return false
	}
	return walk(call, 0)
}

func literalInitialised(p *core.Program, gl *ssa.Global) bool {
	// all stores to the global in init come from a slice of a fresh array (composite literal)
	ok := false
	for _, fn := range p.Funcs {
		if fn.Name() != "init" {
			continue
		}
		core.EachInstr(fn, func(b *ssa.BasicBlock, i int, ins ssa.Instruction) {
			if st, isSt := ins.(*ssa.Store); isSt && st.Addr == ssa.Value(gl) {
				if sl, isSl := st.Val.(*ssa.Slice); isSl {
					if _, isAlloc := sl.X.(*ssa.Alloc); isAlloc && sl.Max == nil && sl.High == nil {
						ok = true
						return
					}
				}
				ok = false
			}
		})
	}
	return ok
}

// ---------------------------------------------------------------------------------------------

func ruleIntConv(p *core.Program) []core.Obligation {
	const rule = "R-INTCONV"
	var obs []core.Obligation
	for _, fn := range p.Funcs {
		if !strings.HasPrefix(core.Rel(fn.Pkg.Pkg.Path()), "execution") {
			continue
		}
		k := 0
		core.EachInstr(fn, func(b *ssa.BasicBlock, i int, ins ssa.Instruction) {
			cv, ok := ins.(*ssa.Convert)
			if !ok || !isFloatType(cv.X.Type()) || !isIntType(cv.Type()) {
				return
			}
			k++
			key := fmt.Sprintf("%s float->int conversion #%d", core.FuncName(fn), k)
			// external float leaves of the operand
			var leaves []ssa.Value
			core.BackSlice(cv.X, func(x ssa.Value) bool {
				if !isFloatType(x.Type()) {
					if _, isCall := x.(*ssa.Call); !isCall {
						return false
					}
				}
				switch t := x.(type) {
				case *ssa.Parameter:
					leaves = append(leaves, t)
					return false
				case *ssa.UnOp:
					if t.Op == token.MUL {
						leaves = append(leaves, t)
						return false
					}
				case *ssa.Convert:
					return false // int -> float: lengths and counters
				case *ssa.Call:
					name := core.CalleeName(&t.Call)
					if !strings.HasPrefix(name, "math.") {
						leaves = append(leaves, t)
						return false
					}
				}
				return true
			})
			if len(leaves) == 0 {
				obs = append(obs, core.Ob(rule, key, p.Pos(cv.Pos()), core.FuncName(fn), core.Held, "operand is computed from lengths and constants only"))
				return
			}
			for _, leaf := range leaves {
				if !testedBefore(fn, leaf, cv) {
					obs = append(obs, core.Ob(rule, key, p.Pos(cv.Pos()), core.FuncName(fn), core.Violated, "a run-time float ("+leaf.Name()+") is converted to an integer without a preceding NaN/range test of that value: NaN, +/-Inf and out-of-range values convert to arbitrary integers"))
					return
				}
			}
			obs = append(obs, core.Ob(rule, key, p.Pos(cv.Pos()), core.FuncName(fn), core.Held, "every run-time float feeding the conversion is tested on a dominating branch"))
		})
	}
	return obs
}

// testedBefore: on every path to use, leaf has passed a test that a NaN cannot pass: the false branch
// of math.IsNaN(leaf), the true branch of an ordered comparison / equality on leaf, or the true branch
// of a repo predicate that is a conjunction of such comparisons on its argument.
func testedBefore(fn *ssa.Function, leaf ssa.Value, use ssa.Instruction) bool {
	same := func(x ssa.Value) bool { return x == leaf || core.SameExpr(x, leaf) }
	for _, b := range fn.Blocks {
		iff := core.IfOf(b)
		if iff == nil || b == use.Block() {
			continue
		}
		succ := -1
		if core.BranchDominates(b, 0, use.Block()) {
			succ = 0
		} else if core.BranchDominates(b, 1, use.Block()) {
			succ = 1
		}
		if succ < 0 {
			continue
		}
		cond, neg := core.StripNot(iff.Cond)
		holds := (succ == 0) != neg // the stripped condition is true on the path to use
		switch c := cond.(type) {
		case *ssa.Call:
			if len(c.Call.Args) != 1 || !same(c.Call.Args[0]) {
				continue
			}
			if core.IsStatic(&c.Call, "math.IsNaN") {
				if !holds {
					return true
				}
				continue
			}
			if callee := c.Call.StaticCallee(); callee != nil && holds && comparisonPredicate(callee) {
				return true
			}
		case *ssa.BinOp:
			if !(same(c.X) || same(c.Y)) {
				continue
			}
			switch c.Op {
			case token.LSS, token.GTR, token.LEQ, token.GEQ, token.EQL:
				if holds {
					return true
				}
			case token.NEQ:
				if !holds {
					return true
				}
			}
		}
	}
	return false
}

// comparisonPredicate: a one-argument bool function whose result is a conjunction of ordered
// comparisons of its parameter (true implies the argument is not NaN).
func comparisonPredicate(f *ssa.Function) bool {
	if f.Blocks == nil || len(f.Params) != 1 {
		return false
	}
	ok, any := true, false
	core.EachInstr(f, func(b *ssa.BasicBlock, i int, ins ssa.Instruction) {
		ret, isRet := ins.(*ssa.Return)
		if !isRet || len(ret.Results) != 1 {
			return
		}
		for v := range core.PhiClosure(ret.Results[0]) {
			switch x := v.(type) {
			case *ssa.Const:
				if x.Value == nil || x.Value.String() != "false" {
					ok = false
				}
			case *ssa.BinOp:
				if (x.X != ssa.Value(f.Params[0]) && x.Y != ssa.Value(f.Params[0])) || !(x.Op == token.LSS || x.Op == token.GTR || x.Op == token.LEQ || x.Op == token.GEQ || x.Op == token.EQL) {
					ok = false
				}
				any = true
			default:
				ok = false
			}
		}
	})
	return ok && any
}

func ruleSample0(p *core.Program) []core.Obligation {
	const rule = "R-SAMPLE0"
	var obs []core.Obligation
	for _, fn := range p.Funcs {
		k := 0
		core.EachInstr(fn, func(b *ssa.BasicBlock, i int, ins ssa.Instruction) {
			ia, ok := ins.(*ssa.IndexAddr)
			if !ok {
				return
			}
			if c, ok := core.ConstInt(ia.Index); !ok || c != 0 {
				return
			}
			if !isSamplesOf(ia.X) {
				return
			}
			// only reads
			read := false
			for _, r := range core.Referrers(ia) {
				if u, ok := r.(*ssa.UnOp); ok && u.Op == token.MUL {
					read = true
				}
			}
			if !read {
				return
			}
			k++
			key := fmt.Sprintf("%s reads Samples[0] #%d", core.FuncName(fn), k)
			if lenGuarded(fn, ia.X, ia) {
				obs = append(obs, core.Ob(rule, key, p.Pos(ia.Pos()), core.FuncName(fn), core.Held, "dominated by a length test of the same Samples slice"))
			} else {
				obs = append(obs, core.Ob(rule, key, p.Pos(ia.Pos()), core.FuncName(fn), core.Violated, "Samples[0] of a step vector is read without a length test: a step at which the operand has no sample delivers an empty vector and the index panics"))
			}
		})
	}
	return obs
}

func isSamplesOf(v ssa.Value) bool {
	if f, ok := v.(*ssa.Field); ok {
		return core.IsFieldOf(f, modModel, "StepVector", "Samples")
	}
	if a := core.Deref(v); a != nil {
		return core.IsFieldOf(a, modModel, "StepVector", "Samples")
	}
	return false
}

// lenGuarded: an If on len(s') cmp c with s' the same Samples expression, on whose "non-empty" branch use lies.
func lenGuarded(fn *ssa.Function, s ssa.Value, use ssa.Instruction) bool {
	for _, b := range fn.Blocks {
		iff := core.IfOf(b)
		if iff == nil {
			continue
		}
		bo, ok := iff.Cond.(*ssa.BinOp)
		if !ok {
			continue
		}
		lenCall, c, flipped := (*ssa.Call)(nil), int64(0), false
		if lc, ok := bo.X.(*ssa.Call); ok {
			if cv, ok := core.ConstInt(bo.Y); ok {
				lenCall, c = lc, cv
			}
		} else if lc, ok := bo.Y.(*ssa.Call); ok {
			if cv, ok := core.ConstInt(bo.X); ok {
				lenCall, c, flipped = lc, cv, true
			}
		}
		if lenCall == nil {
			continue
		}
		if bi, ok := lenCall.Call.Value.(*ssa.Builtin); !ok || bi.Name() != "len" || !core.SameExpr(lenCall.Call.Args[0], s) {
			continue
		}
		op := bo.Op
		if flipped {
			switch op {
			case token.LSS:
				op = token.GTR
			case token.GTR:
				op = token.LSS
			case token.LEQ:
				op = token.GEQ
			case token.GEQ:
				op = token.LEQ
			}
		}
		nonEmptySucc := -1
		switch {
		case op == token.GTR && c >= 0, op == token.GEQ && c >= 1, op == token.EQL && c >= 1, op == token.NEQ && c == 0:
			nonEmptySucc = 0
		case op == token.EQL && c == 0, op == token.LSS && c <= 1 && c >= 1, op == token.LEQ && c == 0:
			nonEmptySucc = 1
		}
		if nonEmptySucc >= 0 && core.BranchDominates(b, nonEmptySucc, use.Block()) {
			return true
		}
	}
	return false
}

package rules

import (
	"go/ast"
	"go/parser"
	"go/token"
)

// parseFile parses a source file of a dependency (read from the module cache on every run).
func parseFile(name string) (*ast.File, error) {
	return parser.ParseFile(token.NewFileSet(), name, nil, parser.SkipObjectResolution)
}

package rules

import (
	"fmt"
	"go/ast"
	"go/constant"
	"go/token"
	"go/types"
	"sort"
	"strconv"
	"strings"

	"golang.org/x/tools/go/ssa"

	"verif/internal/core"
)

func init() {
	register(&Rule{ID: "R-VOCAB", Min: 120, Run: ruleVocab,
		Doc: "V1 every function, aggregation, binary operator and Expr type of the pinned parser (tables re-read from the module source) is handled by a case/table entry of plan construction or reaches an error return; V2 every error created in the construction tree (execution/...) is built from a sentinel of execution/parse or is a callee's error; V4 every Expr-typed child of a handled node kind is planned; V5 natively handled functions have no ignored arguments (matrix functions have exactly one argument, no string arguments, variadic functions are rejected); V6 triggerFallback tests every sentinel with errors.Is and no sentinel is compared with ==; V7 on every path through query creation the query counter is incremented exactly once, with the label of the path taken; V8 the fallback receives the caller's own arguments; V9 functions that can report 'unsupported' are called from the construction tree only (or their error is consumed by errors.Is)"})

	mutant(Mutant{Rule: "R-VOCAB", Name: "default-branch-fresh-error", File: "execution/execution.go",
		Old: "\tdefault:\n\t\treturn nil, errors.Wrapf(parse.ErrNotSupportedExpr, \"got: %s\", e)\n\t}\n}\n\nfunc unpackVectorSelector", New: "\tdefault:\n\t\treturn nil, errors.Newf(\"unsupported expression: %s\", e)\n\t}\n}\n\nfunc unpackVectorSelector", Expect: "V2"})
	mutant(Mutant{Rule: "R-VOCAB", Name: "operator-check-moved-to-execution", File: "execution/binary/vector.go",
		Old: "\top, err := newOperation(operation, true)\n\tif err != nil {\n\t\treturn nil, err\n\t}\n", New: "\top, _ := newOperation(parser.ADD, true)\n", Expect: "V1"})
	mutant(Mutant{Rule: "R-VOCAB", Name: "function-selected-by-name-prefix", File: "execution/execution.go",
		Old: "\t\tif e.Func.Name == \"histogram_quantile\" {\n", New: "\t\tif strings.HasPrefix(e.Func.Name, \"histogram_\") {\n", Old2: "import (\n", New2: "import (\n\t\"strings\"\n", Expect: "whole name"})
	mutant(Mutant{Rule: "R-VOCAB", Name: "fallback-ignores-one-sentinel", File: "engine/engine.go",
		Old: "return errors.Is(err, parse.ErrNotSupportedExpr) || errors.Is(err, parse.ErrNotImplemented)", New: "return errors.Is(err, parse.ErrNotSupportedExpr)", Expect: "V6"})
	mutant(Mutant{Rule: "R-VOCAB", Name: "counter-not-bumped-on-fallback", File: "engine/engine.go",
		Old: "\tif e.triggerFallback(err) {\n\t\te.queries.WithLabelValues(\"true\").Inc()\n\t\treturn e.prom.NewRangeQuery(", New: "\tif e.triggerFallback(err) {\n\t\treturn e.prom.NewRangeQuery(", Expect: "V7"})
	mutant(Mutant{Rule: "R-VOCAB", Name: "instant-fast-path-bypasses-fallback-gate", File: "engine/engine.go",
		Old: "\tlplan := logicalplan.New(expr, ts, ts)\n", New: "\tif expr.Type() == parser.ValueTypeString {\n\t\treturn e.prom.NewInstantQuery(q, opts, qs, ts)\n\t}\n\tlplan := logicalplan.New(expr, ts, ts)\n", Expect: "V7"})
	mutant(Mutant{Rule: "R-VOCAB", Name: "param-not-planned", File: "execution/execution.go",
		Old: "\t\tif e.Param != nil {\n\t\t\tparamOp, err = newOperator(e.Param, storage, opts, hints)\n\t\t\tif err != nil {\n\t\t\t\treturn nil, err\n\t\t\t}\n\t\t}\n", New: "", Expect: "V4"})
}

type parserVocab struct {
	consts      map[string]int64  // token name -> value
	tokenString map[string]string // token name -> PromQL spelling
	aggregators []string
	operators   []string
	exprTypes   []string
}

func readParserVocab(p *core.Program) (*parserVocab, error) {
	pk := p.Deps[pkgParser]
	if pk == nil {
		return nil, fmt.Errorf("parser package not loaded")
	}
	v := &parserVocab{consts: map[string]int64{}, tokenString: map[string]string{}}
	for _, file := range pk.GoFiles {
		af, err := parseFile(file)
		if err != nil {
			return nil, err
		}
		for _, d := range af.Decls {
			gd, ok := d.(*ast.GenDecl)
			if !ok {
				continue
			}
			for _, sp := range gd.Specs {
				vs, ok := sp.(*ast.ValueSpec)
				if !ok {
					continue
				}
				for i, name := range vs.Names {
					if i >= len(vs.Values) {
						continue
					}
					if gd.Tok == token.CONST {
						if bl, ok := vs.Values[i].(*ast.BasicLit); ok && bl.Kind == token.INT {
							if n, err := strconv.ParseInt(bl.Value, 10, 64); err == nil {
								v.consts[name.Name] = n
							}
						}
					}
					if gd.Tok == token.VAR && (name.Name == "key" || name.Name == "ItemTypeStr") {
						cl, ok := vs.Values[i].(*ast.CompositeLit)
						if !ok {
							continue
						}
						for _, e := range cl.Elts {
							kv, ok := e.(*ast.KeyValueExpr)
							if !ok {
								continue
							}
							if name.Name == "key" {
								if s, ok := kv.Key.(*ast.BasicLit); ok {
									if id, ok := kv.Value.(*ast.Ident); ok {
										v.tokenString[id.Name], _ = strconv.Unquote(s.Value)
									}
								}
							} else {
								if id, ok := kv.Key.(*ast.Ident); ok {
									if s, ok := kv.Value.(*ast.BasicLit); ok {
										v.tokenString[id.Name], _ = strconv.Unquote(s.Value)
									}
								}
							}
						}
					}
				}
			}
		}
	}
	rng := func(lo, hi string) ([]string, error) {
		l, ok1 := v.consts[lo]
		h, ok2 := v.consts[hi]
		if !ok1 || !ok2 {
			return nil, fmt.Errorf("token range %s..%s not found in the pinned parser", lo, hi)
		}
		var out []string
		for n, c := range v.consts {
			if c > l && c < h {
				out = append(out, n)
			}
		}
		sort.Strings(out)
		return out, nil
	}
	var err error
	if v.aggregators, err = rng("aggregatorsStart", "aggregatorsEnd"); err != nil {
		return nil, err
	}
	if v.operators, err = rng("operatorsStart", "operatorsEnd"); err != nil {
		return nil, err
	}
	// concrete Expr types
	sc := pk.Types.Scope()
	exprObj := sc.Lookup("Expr")
	if exprObj == nil {
		return nil, fmt.Errorf("parser.Expr not found")
	}
	iface := exprObj.Type().Underlying().(*types.Interface)
	for _, n := range sc.Names() {
		tn, ok := sc.Lookup(n).(*types.TypeName)
		if !ok || tn.IsAlias() {
			continue
		}
		if _, isI := tn.Type().Underlying().(*types.Interface); isI {
			continue
		}
		if types.Implements(types.NewPointer(tn.Type()), iface) || types.Implements(tn.Type(), iface) {
			v.exprTypes = append(v.exprTypes, n)
		}
	}
	if len(v.aggregators) < 10 || len(v.operators) < 15 || len(v.exprTypes) < 9 {
		return nil, fmt.Errorf("implausibly small vocabulary read from the parser: %d aggregators, %d operators, %d expr types", len(v.aggregators), len(v.operators), len(v.exprTypes))
	}
	return v, nil
}

// stringConstsCompared returns the string constants compared (==) in fn.
func stringConstsCompared(fn *ssa.Function) map[string]bool {
	out := map[string]bool{}
	core.EachInstr(fn, func(b *ssa.BasicBlock, i int, ins ssa.Instruction) {
		bo, ok := ins.(*ssa.BinOp)
		if !ok || bo.Op != token.EQL {
			return
		}
		for _, o := range []ssa.Value{bo.X, bo.Y} {
			if c, ok := o.(*ssa.Const); ok && c.Value != nil && c.Value.Kind() == constant.String {
				out[constant.StringVal(c.Value)] = true
			}
		}
	})
	return out
}

// mapLiteralKeys returns the constant string keys with which the package-level map global is initialised.
func mapLiteralKeys(p *core.Program, rel, global string) map[string]bool {
	out := map[string]bool{}
	sp := p.SSAPkg(rel)
	if sp == nil {
		return out
	}
	fn := sp.Func("init")
	if fn == nil {
		return out
	}
	core.EachInstr(fn, func(b *ssa.BasicBlock, i int, ins ssa.Instruction) {
		mu, ok := ins.(*ssa.MapUpdate)
		if !ok {
			return
		}
		for _, r := range core.Referrers(mu.Map) {
			if st, ok := r.(*ssa.Store); ok && core.IsGlobal(core.GlobalOf(st.Addr), rel, global) {
				if c, ok := mu.Key.(*ssa.Const); ok && c.Value != nil && c.Value.Kind() == constant.String {
					out[constant.StringVal(c.Value)] = true
				}
			}
		}
	})
	return out
}

// sentinelGlobals returns the package-level error variables of execution/parse.
func sentinelGlobals(p *core.Program) map[*ssa.Global]bool {
	out := map[*ssa.Global]bool{}
	sp := p.SSAPkg("execution/parse")
	if sp == nil {
		return out
	}
	errT := types.Universe.Lookup("error").Type()
	for _, m := range sp.Members {
		if g, ok := m.(*ssa.Global); ok {
			if pt, ok := g.Type().(*types.Pointer); ok && types.Identical(pt.Elem(), errT) {
				out[g] = true
			}
		}
	}
	return out
}

// errOrigin classifies one (non-phi) error value returned by a function of the construction tree.
func errOrigin(p *core.Program, v ssa.Value, sentinels map[*ssa.Global]bool, producers map[*ssa.Function]bool) string {
	switch x := v.(type) {
	case *ssa.Const:
		if x.Value == nil {
			return "nil"
		}
	case *ssa.Extract:
		return "callee"
	case *ssa.Parameter, *ssa.FreeVar:
		return "callee"
	case *ssa.UnOp:
		if g := core.GlobalOf(x); g != nil && sentinels[g] {
			return "sentinel"
		}
		return "callee" // a variable holding an error obtained elsewhere
	case *ssa.MakeInterface:
		return "fresh"
	case *ssa.Call:
		name := core.CalleeName(&x.Call)
		switch name {
		case pkgErrors + ".Wrap", pkgErrors + ".Wrapf":
			// the wrapped cause is a sentinel, or one of several sentinels chosen before (cause := ErrA; if .. { cause = ErrB })
			all, n := true, 0
			for c := range core.PhiClosure(x.Call.Args[0]) {
				if _, isPhi := c.(*ssa.Phi); isPhi {
					continue
				}
				n++
				if g := core.GlobalOf(c); g == nil || !sentinels[g] {
					all = false
				}
			}
			if all && n > 0 {
				return "sentinel"
			}
			return "wrap-of-non-sentinel"
		case pkgErrors + ".New", pkgErrors + ".Newf", "fmt.Errorf", "errors.New":
			return "fresh"
		}
		if callee := x.Call.StaticCallee(); callee != nil && p.InRepo(callee) {
			return "callee"
		}
		if x.Call.IsInvoke() {
			return "callee"
		}
		return "fresh"
	}
	return "unknown"
}

func ruleVocab(p *core.Program) []core.Obligation {
	const rule = "R-VOCAB"
	var obs []core.Obligation
	add := func(key, site, fn, status, detail string) {
		obs = append(obs, core.Ob(rule, key, site, fn, status, detail))
	}
	voc, err := readParserVocab(p)
	if err != nil {
		return []core.Obligation{core.Ob(rule, "parser vocabulary", "-", "", core.Lost, err.Error())}
	}
	ref, err := referenceFunctions(p)
	if err != nil {
		return []core.Obligation{core.Ob(rule, "parser.Functions", "-", "", core.Lost, err.Error())}
	}
	newOp := plannerFunc(p)
	root := p.Func("execution", "New")
	if newOp == nil || root == nil {
		return []core.Obligation{core.Ob(rule, "execution.New/newOperator", "-", "", core.Lost, "not found")}
	}
	tree := syncReach(p, root, nil)
	sentinels := sentinelGlobals(p)
	if len(sentinels) < 2 {
		add("sentinels of execution/parse", "-", "", core.Lost, fmt.Sprintf("%d error variables found", len(sentinels)))
	}

	// producers: functions of execution/... that can return a sentinel-built error of their own making
	producers := map[*ssa.Function]bool{}
	for _, fn := range p.Funcs {
		if !strings.HasPrefix(core.Rel(fn.Pkg.Pkg.Path()), "execution") {
			continue
		}
		core.EachInstr(fn, func(b *ssa.BasicBlock, i int, ins ssa.Instruction) {
			ret, ok := ins.(*ssa.Return)
			if !ok {
				return
			}
			for _, r := range core.RetResults(ret) {
				if !types.Identical(r.Type(), types.Universe.Lookup("error").Type()) {
					continue
				}
				for v := range core.PhiClosure(r) {
					if errOrigin(p, v, sentinels, nil) == "sentinel" {
						producers[fn] = true
					}
					if c, ok := v.(*ssa.Call); ok && core.IsStatic(&c.Call, modParse+".UnsupportedOperationErr") {
						producers[fn] = true
					}
				}
			}
		})
	}

	// a function that hands a producer's error on to its caller (without consuming it by errors.Is) is a producer too
	consumesByIs := func(c *ssa.Call) bool {
		for _, r := range core.Referrers(c) {
			ex, ok := r.(*ssa.Extract)
			if !ok {
				continue
			}
			for _, rr := range core.Referrers(ex) {
				if cc, ok := rr.(*ssa.Call); ok && (core.IsStatic(&cc.Call, pkgErrors+".Is") || core.IsStatic(&cc.Call, "errors.Is")) {
					return true
				}
			}
		}
		return false
	}
	for changed := true; changed; {
		changed = false
		for _, fn := range p.Funcs {
			if producers[fn] || !strings.HasPrefix(core.Rel(fn.Pkg.Pkg.Path()), "execution") {
				continue
			}
			core.EachInstr(fn, func(b *ssa.BasicBlock, i int, ins ssa.Instruction) {
				ret, ok := ins.(*ssa.Return)
				if !ok || producers[fn] {
					return
				}
				for _, r := range core.RetResults(ret) {
					for v := range core.PhiClosure(r) {
						// a helper that builds the error (return nil, unknownAggregationErr(name))
						if c, ok := v.(*ssa.Call); ok && producers[c.Call.StaticCallee()] && types.Identical(c.Type(), types.Universe.Lookup("error").Type()) {
							producers[fn] = true
							changed = true
							continue
						}
						ex, ok := v.(*ssa.Extract)
						if !ok {
							continue
						}
						if c, ok := ex.Tuple.(*ssa.Call); ok && producers[c.Call.StaticCallee()] && !consumesByIs(c) {
							producers[fn] = true
							changed = true
						}
					}
				}
			})
		}
	}

	// ---- V1 functions
	ks := kernels(p)
	special := stringConstsCompared(newOp) // names handled before the table lookup (histogram_quantile)
	nfc := p.Func("execution/function", "NewFunctionCall")
	nfcInTree := nfc != nil && tree[nfc]
	var fnames []string
	for n := range ref {
		fnames = append(fnames, n)
	}
	sort.Strings(fnames)
	for _, n := range fnames {
		key := "V1 function " + n
		switch {
		case ks[n] != nil:
			add(key, p.Pos(ks[n].Pos()), "", core.Held, "SUPPORTED: key of function.Funcs")
		case special[n]:
			add(key, p.Pos(newOp.Pos()), "", core.Held, "SUPPORTED: special-cased by name in newOperator")
		case nfcInTree && producers[nfc]:
			add(key, p.Pos(nfc.Pos()), "", core.Held, "FALLBACK: NewFunctionCall (called while planning) returns a sentinel-built error for names outside Funcs")
		default:
			add(key, "-", "", core.Violated, "the function is neither handled nor rejected while the plan is built")
		}
	}
	for n := range ks {
		if _, ok := ref[n]; !ok {
			add("V1 function "+n, p.Pos(ks[n].Pos()), "", core.Violated, "function.Funcs has a key that the pinned parser does not know")
		}
	}
	// a function is selected by the whole name (==, switch, map key): a pattern over the name (strings.HasPrefix,
	// Contains, a regular expression) also selects functions of the vocabulary that the branch does not implement
	{
		pattern := ""
		for f := range tree {
			if f == nil || f.Pkg == nil || !strings.HasPrefix(core.Rel(f.Pkg.Pkg.Path()), "execution") {
				continue
			}
			core.EachInstr(f, func(_ *ssa.BasicBlock, _ int, ins ssa.Instruction) {
				c, ok := ins.(*ssa.Call)
				if !ok || pattern != "" {
					return
				}
				name := core.CalleeName(&c.Call)
				if !strings.HasPrefix(name, "strings.") && !strings.HasPrefix(name, "regexp.") && !strings.Contains(name, "regexp.Regexp).") {
					return
				}
				for _, a := range c.Call.Args {
					if l := core.Deref(a); l != nil && core.IsFieldOf(l, pkgParser, "Function", "Name") {
						pattern = fmt.Sprintf("%s at %s", name, p.Pos(c.Pos()))
					}
				}
			})
		}
		if pattern != "" {
			add("V1 functions are selected by their whole name", "-", "", core.Violated, "plan construction matches the function name with "+pattern+": the branch also takes functions of the parser's vocabulary it was not written for (histogram_count, histogram_sum, histogram_fraction next to histogram_quantile), which are then evaluated as something else or panic instead of being rejected as not implemented")
		} else {
			add("V1 functions are selected by their whole name", "-", "", core.Held, "no pattern match on parser.Function.Name in the construction tree")
		}
	}
	// ---- V1 aggregations
	mk := p.Func("execution/aggregate", "makeAccumulatorFunc")
	accCases := map[string]bool{}
	if mk != nil {
		accCases = stringConstsCompared(mk)
	}
	kAggTokens := map[string]bool{} // tokens compared with AggregateExpr.Op in newOperator
	names := parserConstNames(p)
	core.EachInstr(newOp, func(b *ssa.BasicBlock, i int, ins ssa.Instruction) {
		bo, ok := ins.(*ssa.BinOp)
		if !ok || bo.Op != token.EQL {
			return
		}
		if l := core.Deref(bo.X); l != nil && core.IsFieldOf(l, pkgParser, "AggregateExpr", "Op") {
			if c, ok := core.ConstInt(bo.Y); ok {
				kAggTokens[names[c]] = true
			}
		}
	})
	mkOK := mk != nil && tree[mk] && producers[mk]
	for _, tok := range voc.aggregators {
		key := "V1 aggregation " + tok
		spelling := voc.tokenString[tok]
		switch {
		case kAggTokens[tok]:
			add(key, p.Pos(newOp.Pos()), "", core.Held, "SUPPORTED: k-aggregation selected in newOperator")
		case spelling != "" && accCases[spelling]:
			add(key, p.Pos(mk.Pos()), "", core.Held, "SUPPORTED: case \""+spelling+"\" of makeAccumulatorFunc")
		case mkOK:
			add(key, p.Pos(mk.Pos()), "", core.Held, "FALLBACK: makeAccumulatorFunc (called while planning) returns a sentinel-built error for other aggregations")
		default:
			add(key, "-", "", core.Violated, "the aggregation is neither handled nor rejected while the plan is built")
		}
	}
	// ---- V1 binary operators
	ops := mapLiteralKeys(p, "execution/binary", "operations")
	nop := p.Func("execution/binary", "newOperation")
	nopOK := nop != nil && tree[nop] && producers[nop]
	// both binary constructors must consult the table while planning
	for _, ctor := range []string{"NewVectorOperator", "NewScalar"} {
		c := p.Func("execution/binary", ctor)
		key := "V1 binary." + ctor + " looks the operator up while planning"
		if c == nil || nop == nil {
			add(key, "-", "", core.Lost, "constructor or newOperation not found")
			continue
		}
		calls, usesArg := false, false
		core.EachInstr(c, func(b *ssa.BasicBlock, i int, ins ssa.Instruction) {
			if cc := core.CallCommon(ins); cc != nil && cc.StaticCallee() == nop {
				calls = true
				if _, isParam := cc.Args[0].(*ssa.Parameter); isParam {
					usesArg = true
				}
			}
		})
		if calls && usesArg && tree[c] {
			add(key, p.Pos(c.Pos()), "", core.Held, "newOperation(op, ...) with the constructor's own operator argument")
		} else {
			add(key, p.Pos(c.Pos()), "", core.Violated, "the constructor does not look its operator up in the operation table: an unsupported operator (and/or/unless) is accepted when the query is created and fails, or is evaluated as something else, at execution time")
		}
	}
	for _, tok := range voc.operators {
		key := "V1 operator " + tok
		spelling := voc.tokenString[tok]
		switch {
		case spelling != "" && ops[spelling]:
			add(key, "-", "", core.Held, "SUPPORTED: key \""+spelling+"\" of binary.operations")
		case nopOK:
			add(key, p.Pos(nop.Pos()), "", core.Held, "FALLBACK: newOperation (called while planning) returns UnsupportedOperationErr")
		default:
			add(key, "-", "", core.Violated, "the operator is neither in the operation table nor rejected while the plan is built")
		}
	}
	// ---- V1 expression types
	cases := map[string]bool{}
	core.EachInstr(newOp, func(b *ssa.BasicBlock, i int, ins ssa.Instruction) {
		if ta, ok := ins.(*ssa.TypeAssert); ok {
			if _, isParam := ta.X.(*ssa.Parameter); isParam {
				if n := core.NamedOf(ta.AssertedType); n != nil {
					cases[n.Obj().Name()] = true
				}
			}
		}
	})
	// no success return without an operator
	noNilNil := true
	core.EachInstr(newOp, func(b *ssa.BasicBlock, i int, ins ssa.Instruction) {
		if ret, ok := ins.(*ssa.Return); ok {
			rs := core.RetResults(ret)
			if len(rs) == 2 && core.IsNilConst(rs[0]) && core.IsNilConst(rs[1]) {
				noNilNil = false
			}
		}
	})
	for _, tn := range voc.exprTypes {
		key := "V1 expression type " + tn
		switch {
		case cases[tn]:
			add(key, p.Pos(newOp.Pos()), "", core.Held, "case of the plan switch")
		case producers[newOp] && noNilNil:
			add(key, p.Pos(newOp.Pos()), "", core.Held, "FALLBACK: falls to a branch of newOperator that returns a sentinel-built error")
		default:
			add(key, p.Pos(newOp.Pos()), "", core.Violated, "an expression type without a case can leave newOperator without an error")
		}
	}

	// ---- V2 sentinel discipline in the construction tree (execution/...)
	var treeFns []*ssa.Function
	for f := range tree {
		if strings.HasPrefix(core.Rel(pkgPathOf(f)), "execution") {
			treeFns = append(treeFns, f)
		}
	}
	sort.Slice(treeFns, func(i, j int) bool { return treeFns[i].String() < treeFns[j].String() })
	errT := types.Universe.Lookup("error").Type()
	for _, f := range treeFns {
		k := 0
		core.EachInstr(f, func(b *ssa.BasicBlock, i int, ins ssa.Instruction) {
			ret, ok := ins.(*ssa.Return)
			if !ok {
				return
			}
			for _, r := range core.RetResults(ret) {
				if !types.Identical(r.Type(), errT) {
					continue
				}
				k++
				key := fmt.Sprintf("V2 %s error return #%d", core.FuncName(f), k)
				bad := ""
				for v := range core.PhiClosure(r) {
					switch o := errOrigin(p, v, sentinels, producers); o {
					case "nil", "callee", "sentinel":
					default:
						if c, ok := v.(*ssa.Call); ok && core.IsStatic(&c.Call, modParse+".UnsupportedOperationErr") {
							continue
						}
						bad = o
					}
				}
				if bad == "" {
					add(key, p.Pos(ret.Pos()), core.FuncName(f), core.Held, "nil, a callee's error, or built from a sentinel")
				} else {
					add(key, p.Pos(ret.Pos()), core.FuncName(f), core.Violated, "plan construction creates an error that is not built from a sentinel ("+bad+"): the query is rejected instead of falling back to the Prometheus engine")
				}
			}
		})
	}

	// ---- V4 child coverage
	planners := map[*ssa.Function]bool{}
	for f := range tree {
		if core.Rel(pkgPathOf(f)) == "execution" {
			planners[f] = true
		}
	}
	exprIface := func() *types.Interface {
		if o := p.Deps[pkgParser].Types.Scope().Lookup("Expr"); o != nil {
			return o.Type().Underlying().(*types.Interface)
		}
		return nil
	}()
	isExprish := func(t types.Type) bool {
		if exprIface == nil {
			return false
		}
		if s, ok := t.Underlying().(*types.Slice); ok {
			t = s.Elem()
		}
		_, isI := t.Underlying().(*types.Interface)
		return isI && types.Implements(t, exprIface) || core.TypeIs(t, pkgParser, "Node") || core.TypeIs(t, pkgParser, "Expr")
	}
	kinds := map[string]*types.Named{}
	for c := range cases {
		for _, src := range []string{pkgParser, modLogical} {
			if pk := p.Deps[src]; pk != nil {
				if o := pk.Types.Scope().Lookup(c); o != nil {
					kinds[c] = core.NamedOf(o.Type())
				}
			}
		}
	}
	// MatrixSelector is handled inside the Call case
	if o := p.Deps[pkgParser].Types.Scope().Lookup("MatrixSelector"); o != nil {
		kinds["MatrixSelector"] = core.NamedOf(o.Type())
	}
	var kindNames []string
	for k := range kinds {
		kindNames = append(kindNames, k)
	}
	sort.Strings(kindNames)
	for _, kn := range kindNames {
		st, ok := kinds[kn].Underlying().(*types.Struct)
		if !ok {
			continue
		}
		for i := 0; i < st.NumFields(); i++ {
			f := st.Field(i)
			if !isExprish(f.Type()) || f.Embedded() {
				continue
			}
			key := fmt.Sprintf("V4 %s.%s is planned", kn, f.Name())
			planned := false
			for pf := range planners {
				core.EachInstr(pf, func(b *ssa.BasicBlock, i int, ins ssa.Instruction) {
					v, ok := ins.(ssa.Value)
					if !ok || planned {
						return
					}
					n, fld, _, ok := core.FieldRef(v)
					if !ok || n != kinds[kn] || fld != f.Name() {
						return
					}
					if flowsToPlanner(v, planners, 0, map[ssa.Value]bool{}) {
						planned = true
					}
				})
			}
			if planned {
				add(key, "-", "", core.Held, "the child flows into a planning call or a type switch")
			} else {
				add(key, "-", "", core.Violated, "a child expression of a natively handled node is never planned: an unsupported construct below it is not detected and the child is ignored at evaluation")
			}
		}
	}

	// ---- V5 no silently ignored arguments
	variadicGuard := false
	core.EachInstr(newOp, func(b *ssa.BasicBlock, i int, ins ssa.Instruction) {
		bo, ok := ins.(*ssa.BinOp)
		if !ok || bo.Op != token.NEQ {
			return
		}
		if l := core.Deref(bo.X); l != nil && core.IsFieldOf(l, pkgParser, "Function", "Variadic") {
			if c, ok := core.ConstInt(bo.Y); ok && c == 0 {
				for _, r := range core.Referrers(bo) {
					if iff, ok := r.(*ssa.If); ok {
						// the true branch returns an error
						for _, x := range iff.Block().Succs[0].Instrs {
							if ret, ok := x.(*ssa.Return); ok && len(ret.Results) == 2 && !core.IsNilConst(core.RetResults(ret)[1]) {
								variadicGuard = true
							}
						}
					}
				}
			}
		}
	})
	var knames []string
	for n := range ks {
		knames = append(knames, n)
	}
	sort.Strings(knames)
	for _, n := range knames {
		rf, ok := ref[n]
		if !ok {
			continue
		}
		key := "V5 function " + n + " has no ignored argument"
		bad := ""
		hasMatrix, hasString := false, false
		for _, a := range rf.argTypes {
			if strings.Contains(a, "Matrix") {
				hasMatrix = true
			}
			if strings.Contains(a, "String") {
				hasString = true
			}
		}
		switch {
		case hasMatrix && len(rf.argTypes) != 1:
			bad = "a window function with further arguments: the matrix path evaluates only the window argument"
		case hasString:
			bad = "a string argument cannot be carried by step vectors"
		case rf.variadic != 0 && !variadicGuard:
			bad = "a variadic function, and newOperator has no guard that rejects variadic functions"
		}
		if bad == "" {
			add(key, p.Pos(ks[n].Pos()), "", core.Held, fmt.Sprintf("args %v variadic %d", rf.argTypes, rf.variadic))
		} else {
			add(key, p.Pos(ks[n].Pos()), "", core.Violated, bad)
		}
	}

	// ---- V6 fallback test is total over the sentinels
	tf := p.Func("engine", "compatibilityEngine.triggerFallback")
	if tf == nil {
		add("V6 triggerFallback", "-", "", core.Lost, "not found")
	} else {
		tested := map[*ssa.Global]bool{}
		core.EachInstr(tf, func(b *ssa.BasicBlock, i int, ins ssa.Instruction) {
			if c, ok := ins.(*ssa.Call); ok && (core.IsStatic(&c.Call, pkgErrors+".Is") || core.IsStatic(&c.Call, "errors.Is")) {
				if g := core.GlobalOf(c.Call.Args[1]); g != nil {
					tested[g] = true
				}
			}
		})
		var gs []*ssa.Global
		for g := range sentinels {
			gs = append(gs, g)
		}
		sort.Slice(gs, func(i, j int) bool { return gs[i].Name() < gs[j].Name() })
		for _, g := range gs {
			key := "V6 triggerFallback tests " + g.Name()
			if tested[g] {
				add(key, p.Pos(tf.Pos()), core.FuncName(tf), core.Held, "errors.Is(err, parse."+g.Name()+")")
			} else {
				add(key, p.Pos(tf.Pos()), core.FuncName(tf), core.Violated, "a query whose construction fails with parse."+g.Name()+" is rejected although fallback is enabled")
			}
		}
	}
	for _, fn := range p.Funcs {
		core.EachInstr(fn, func(b *ssa.BasicBlock, i int, ins ssa.Instruction) {
			bo, ok := ins.(*ssa.BinOp)
			if !ok || (bo.Op != token.EQL && bo.Op != token.NEQ) {
				return
			}
			for _, o := range []ssa.Value{bo.X, bo.Y} {
				if g := core.GlobalOf(o); g != nil && sentinels[g] {
					add("V6 "+core.FuncName(fn)+" compares a sentinel with ==", p.Pos(bo.Pos()), core.FuncName(fn), core.Violated, "sentinels are wrapped with context when they are raised: == never matches a wrapped error, use errors.Is")
				}
			}
		})
	}

	// ---- V7 / V8 the two creation entries
	for _, entry := range []string{"NewInstantQuery", "NewRangeQuery"} {
		fn := p.Func("engine", "compatibilityEngine."+entry)
		if fn == nil {
			add("V7 "+entry, "-", "", core.Lost, "not found")
			continue
		}
		checkCounterPaths(p, fn, entry, add)
		// V8
		core.EachInstr(fn, func(b *ssa.BasicBlock, i int, ins ssa.Instruction) {
			c, ok := ins.(*ssa.Call)
			if !ok || core.CalleeName(&c.Call) != "(*"+pkgPromql+".Engine)."+entry {
				return
			}
			key := "V8 " + entry + " falls back with the caller's arguments"
			same := len(c.Call.Args) == len(fn.Params)
			for k := 1; same && k < len(fn.Params); k++ {
				if c.Call.Args[k] != ssa.Value(fn.Params[k]) {
					same = false
				}
			}
			if same {
				add(key, p.Pos(c.Pos()), core.FuncName(fn), core.Held, "every argument is the corresponding parameter")
			} else {
				add(key, p.Pos(c.Pos()), core.FuncName(fn), core.Violated, "the embedded engine is not called with the entry's own parameters")
			}
		})
	}

	// ---- V9 unsupported-ness is decided while planning
	var prods []*ssa.Function
	for f := range producers {
		prods = append(prods, f)
	}
	sort.Slice(prods, func(i, j int) bool { return prods[i].String() < prods[j].String() })
	for _, pf := range prods {
		if pf == root {
			continue // the root of the construction tree is called by the creation API itself
		}
		for _, fn := range p.Funcs {
			if tree[fn] {
				continue
			}
			core.EachInstr(fn, func(b *ssa.BasicBlock, i int, ins ssa.Instruction) {
				c, ok := ins.(*ssa.Call)
				if !ok || c.Call.StaticCallee() != pf {
					return
				}
				key := fmt.Sprintf("V9 %s calls %s outside plan construction", core.FuncName(fn), pf.Name())
				consumedByIs := consumesByIs(c)
				if consumedByIs || producers[fn] {
					add(key, p.Pos(c.Pos()), core.FuncName(fn), core.Held, "its 'unsupported' answer is consumed by errors.Is (or propagated to a caller that does)")
				} else {
					add(key, p.Pos(c.Pos()), core.FuncName(fn), core.Violated, "a function that can report 'unsupported' is consulted at execution time: the query was already accepted natively and now fails instead of having been answered by the fallback")
				}
			})
		}
	}
	return obs
}

func pkgPathOf(f *ssa.Function) string {
	for f.Parent() != nil {
		f = f.Parent()
	}
	if f.Pkg == nil {
		return ""
	}
	return f.Pkg.Pkg.Path()
}

// flowsToPlanner follows a child field value to the first argument of a planning call, or to a type switch.
func flowsToPlanner(v ssa.Value, planners map[*ssa.Function]bool, depth int, seen map[ssa.Value]bool) bool {
	if depth > 10 || seen[v] {
		return false
	}
	seen[v] = true
	for _, r := range core.Referrers(v) {
		switch x := r.(type) {
		case *ssa.UnOp:
			if x.Op == token.MUL && flowsToPlanner(x, planners, depth+1, seen) {
				return true
			}
		case *ssa.IndexAddr:
			if flowsToPlanner(x, planners, depth+1, seen) {
				return true
			}
		case *ssa.Index:
			if flowsToPlanner(x, planners, depth+1, seen) {
				return true
			}
		case *ssa.Range:
			if flowsToPlanner(x, planners, depth+1, seen) {
				return true
			}
		case *ssa.Next:
			if flowsToPlanner(x, planners, depth+1, seen) {
				return true
			}
		case *ssa.Extract:
			if flowsToPlanner(x, planners, depth+1, seen) {
				return true
			}
		case *ssa.Phi:
			if flowsToPlanner(x, planners, depth+1, seen) {
				return true
			}
		case *ssa.ChangeInterface, *ssa.MakeInterface, *ssa.ChangeType:
			if flowsToPlanner(x.(ssa.Value), planners, depth+1, seen) {
				return true
			}
		case *ssa.TypeAssert:
			return true
		case *ssa.Call:
			if callee := x.Call.StaticCallee(); callee != nil && planners[callee] {
				return true
			}
		}
	}
	return false
}

// checkCounterPaths enumerates the acyclic paths of a creation entry from the execution.New call to the
// returns and checks the number and label of counter increments on each.
func checkCounterPaths(p *core.Program, fn *ssa.Function, entry string, add func(key, site, fn, status, detail string)) {
	var newCall *ssa.Call
	core.EachInstr(fn, func(b *ssa.BasicBlock, i int, ins ssa.Instruction) {
		if c, ok := ins.(*ssa.Call); ok && core.IsStatic(&c.Call, modExecution+".New") {
			newCall = c
		}
	})
	if newCall == nil {
		if checkCounterPathsSplit(p, fn, entry, add) {
			return
		}
		add("V7 "+entry+" counter", "-", core.FuncName(fn), core.Lost, "no call of execution.New")
		return
	}
	type incInfo struct{ label string }
	incsIn := func(b *ssa.BasicBlock, from int) []incInfo {
		var out []incInfo
		for _, ins := range b.Instrs[from:] {
			c, ok := ins.(*ssa.Call)
			if !ok || !c.Call.IsInvoke() || c.Call.Method.Name() != "Inc" {
				continue
			}
			label := "?"
			if wl, ok := c.Call.Value.(*ssa.Call); ok && len(wl.Call.Args) >= 2 {
				// WithLabelValues(lvs ...string): the varargs slice holds one constant
				if sl, ok := wl.Call.Args[1].(*ssa.Slice); ok {
					if al, ok := sl.X.(*ssa.Alloc); ok {
						for _, r := range core.Referrers(al) {
							if ia, ok := r.(*ssa.IndexAddr); ok {
								for _, rr := range core.Referrers(ia) {
									if st, ok := rr.(*ssa.Store); ok {
										if cst, ok := st.Val.(*ssa.Const); ok && cst.Value != nil {
											label = constant.StringVal(cst.Value)
										}
									}
								}
							}
						}
					}
				}
			}
			out = append(out, incInfo{label})
		}
		return out
	}
	returnsFallback := func(b *ssa.BasicBlock) (isReturn, fallback bool) {
		for _, ins := range b.Instrs {
			ret, ok := ins.(*ssa.Return)
			if !ok {
				continue
			}
			isReturn = true
			for _, r := range core.RetResults(ret) {
				core.BackSlice(r, func(x ssa.Value) bool {
					if c, ok := x.(*ssa.Call); ok && strings.HasPrefix(core.CalleeName(&c.Call), "(*"+pkgPromql+".Engine).New") {
						fallback = true
					}
					return true
				})
			}
		}
		return
	}
	npaths := 0
	var walk func(b *ssa.BasicBlock, from int, incs []incInfo, visited map[*ssa.BasicBlock]bool)
	walk = func(b *ssa.BasicBlock, from int, incs []incInfo, visited map[*ssa.BasicBlock]bool) {
		if visited[b] {
			return
		}
		visited[b] = true
		defer delete(visited, b)
		incs = append(append([]incInfo{}, incs...), incsIn(b, from)...)
		if isRet, fb := returnsFallback(b); isRet {
			npaths++
			key := fmt.Sprintf("V7 %s path #%d", entry, npaths)
			want := "false"
			if fb {
				want = "true"
			}
			switch {
			case len(incs) != 1:
				add(key, p.Pos(b.Instrs[len(b.Instrs)-1].Pos()), core.FuncName(fn), core.Violated, fmt.Sprintf("the query counter is incremented %d times on this path through query creation", len(incs)))
			case incs[0].label != want:
				add(key, p.Pos(b.Instrs[len(b.Instrs)-1].Pos()), core.FuncName(fn), core.Violated, fmt.Sprintf("the path returns the %s query but counts fallback=%q", map[bool]string{true: "fallback", false: "native"}[fb], incs[0].label))
			default:
				add(key, p.Pos(b.Instrs[len(b.Instrs)-1].Pos()), core.FuncName(fn), core.Held, "one increment, fallback="+want)
			}
			return
		}
		for _, s := range b.Succs {
			walk(s, 0, incs, visited)
		}
	}
	walk(newCall.Block(), core.InstrIndex(newCall)+1, nil, map[*ssa.BasicBlock]bool{})
	// a query is only ever returned on a path through the planning call: every return of a non-nil query is reachable
	// from (and hence counted after) execution.New, and the embedded engine is consulted only when triggerFallback says so
	core.EachInstr(fn, func(b *ssa.BasicBlock, i int, ins ssa.Instruction) {
		ret, ok := ins.(*ssa.Return)
		if !ok || b == fn.Recover {
			return
		}
		rs := core.RetResults(ret)
		if len(rs) != 2 || core.IsNilConst(rs[0]) {
			return
		}
		if !(b == newCall.Block() || core.Reaches(newCall.Block(), b)) || !core.BlockDominates(newCall.Block(), b) {
			add("V7 "+entry+" returns a query only after planning", p.Pos(ret.Pos()), core.FuncName(fn), core.Violated, "a query is returned on a path that bypasses execution.New, triggerFallback and the query counter: with fallback disabled an unsupported construct is accepted, and the query is not counted")
		}
	})
	core.EachInstr(fn, func(b *ssa.BasicBlock, i int, ins ssa.Instruction) {
		c, ok := ins.(*ssa.Call)
		if !ok || !strings.HasPrefix(core.CalleeName(&c.Call), "(*"+pkgPromql+".Engine).New") {
			return
		}
		gated := false
		for _, gb := range fn.Blocks {
			iff := core.IfOf(gb)
			if iff == nil {
				continue
			}
			if tc, ok := iff.Cond.(*ssa.Call); ok && tc.Call.StaticCallee() != nil && tc.Call.StaticCallee().Name() == "triggerFallback" && core.BranchDominates(gb, 0, b) {
				gated = true
			}
		}
		key := "V7 " + entry + " consults the embedded engine only under triggerFallback"
		if gated {
			add(key, p.Pos(c.Pos()), core.FuncName(fn), core.Held, "the call is on the true branch of triggerFallback(err)")
		} else {
			add(key, p.Pos(c.Pos()), core.FuncName(fn), core.Violated, "the embedded Prometheus engine creates the query on a path that did not ask triggerFallback: DisableFallback is not honoured there")
		}
	})
	if npaths == 0 {
		add("V7 "+entry+" counter", "-", core.FuncName(fn), core.Lost, "no path from execution.New to a return")
	}
}

// incLabel returns the constant label of a `counter.WithLabelValues(label).Inc()` call ("?" if not constant).
func incLabel(c *ssa.Call) (string, bool) {
	if !c.Call.IsInvoke() || c.Call.Method.Name() != "Inc" {
		return "", false
	}
	label := "?"
	if wl, ok := c.Call.Value.(*ssa.Call); ok && len(wl.Call.Args) >= 2 {
		if sl, ok := wl.Call.Args[1].(*ssa.Slice); ok {
			if al, ok := sl.X.(*ssa.Alloc); ok {
				for _, r := range core.Referrers(al) {
					if ia, ok := r.(*ssa.IndexAddr); ok {
						for _, rr := range core.Referrers(ia) {
							if st, ok := rr.(*ssa.Store); ok {
								if cst, ok := st.Val.(*ssa.Const); ok && cst.Value != nil {
									label = constant.StringVal(cst.Value)
								}
							}
						}
					}
				}
			}
		}
	}
	return label, true
}

// checkCounterPathsSplit handles query creation whose planning part (plan, execution.New, triggerFallback, the
// counter) was moved into a helper method that reports through a bool result whether the query falls back:
//   - in the helper every path from execution.New to a return increments the counter exactly once, with the label
//     "true" exactly when the returned bool is the constant true;
//   - in the entry point the embedded engine is consulted only on the true branch of that bool, every non-nil query
//     is returned after the helper was called, and the entry point does not touch the counter itself.
//
// It returns false if fn has no such helper.
func checkCounterPathsSplit(p *core.Program, fn *ssa.Function, entry string, add func(key, site, fn, status, detail string)) bool {
	var helperCall *ssa.Call
	var helper *ssa.Function
	var newCall *ssa.Call
	core.EachInstr(fn, func(b *ssa.BasicBlock, i int, ins ssa.Instruction) {
		c, ok := ins.(*ssa.Call)
		if !ok {
			return
		}
		h := c.Call.StaticCallee()
		if h == nil || !p.InRepo(h) || h.Blocks == nil || recvNamed(h) != recvNamed(fn) {
			return
		}
		core.EachInstr(h, func(_ *ssa.BasicBlock, _ int, hi ssa.Instruction) {
			if hc, ok := hi.(*ssa.Call); ok && core.IsStatic(&hc.Call, modExecution+".New") {
				helperCall, helper, newCall = c, h, hc
			}
		})
	})
	if helper == nil {
		return false
	}
	// the bool result
	boolIdx := -1
	res := helper.Signature.Results()
	for i := 0; i < res.Len(); i++ {
		if types.Identical(res.At(i).Type(), types.Typ[types.Bool]) {
			boolIdx = i
		}
	}
	if boolIdx < 0 {
		add("V7 "+entry+" counter", p.Pos(helperCall.Pos()), core.FuncName(fn), core.Undecided, "planning was moved into "+core.FuncName(helper)+", which does not report the path taken through a bool result")
		return true
	}
	// (a) the helper
	npaths := 0
	var walk func(b *ssa.BasicBlock, from int, labels []string, visited map[*ssa.BasicBlock]bool)
	walk = func(b *ssa.BasicBlock, from int, labels []string, visited map[*ssa.BasicBlock]bool) {
		if visited[b] {
			return
		}
		visited[b] = true
		defer delete(visited, b)
		labels = append([]string{}, labels...)
		for _, ins := range b.Instrs[from:] {
			if c, ok := ins.(*ssa.Call); ok {
				if l, ok := incLabel(c); ok {
					labels = append(labels, l)
				}
			}
			if ret, ok := ins.(*ssa.Return); ok {
				npaths++
				key := fmt.Sprintf("V7 %s path #%d", entry, npaths)
				rs := core.RetResults(ret)
				fb, isConst := false, false
				if boolIdx < len(rs) {
					if c, ok := rs[boolIdx].(*ssa.Const); ok && c.Value != nil {
						fb, isConst = constant.BoolVal(c.Value), true
					}
				}
				want := "false"
				if fb {
					want = "true"
				}
				switch {
				case !isConst:
					add(key, p.Pos(ret.Pos()), core.FuncName(helper), core.Undecided, "the helper's path result is not a constant")
				case len(labels) != 1:
					add(key, p.Pos(ret.Pos()), core.FuncName(helper), core.Violated, fmt.Sprintf("the query counter is incremented %d times on this path through query creation", len(labels)))
				case labels[0] != want:
					add(key, p.Pos(ret.Pos()), core.FuncName(helper), core.Violated, fmt.Sprintf("the path reports fallback=%v but counts fallback=%q", fb, labels[0]))
				default:
					add(key, p.Pos(ret.Pos()), core.FuncName(helper), core.Held, "one increment, fallback="+want)
				}
				return
			}
		}
		for _, s := range b.Succs {
			walk(s, 0, labels, visited)
		}
	}
	walk(newCall.Block(), core.InstrIndex(newCall)+1, nil, map[*ssa.BasicBlock]bool{})
	// the true label is counted only under triggerFallback
	core.EachInstr(helper, func(b *ssa.BasicBlock, _ int, ins ssa.Instruction) {
		c, ok := ins.(*ssa.Call)
		if !ok {
			return
		}
		if l, ok := incLabel(c); !ok || l != "true" {
			return
		}
		gated := false
		for _, gb := range helper.Blocks {
			iff := core.IfOf(gb)
			if iff == nil {
				continue
			}
			if tc, ok := iff.Cond.(*ssa.Call); ok && tc.Call.StaticCallee() != nil && tc.Call.StaticCallee().Name() == "triggerFallback" && core.BranchDominates(gb, 0, b) {
				gated = true
			}
		}
		if !gated {
			add("V7 "+entry+" consults the embedded engine only under triggerFallback", p.Pos(c.Pos()), core.FuncName(helper), core.Violated, "the fallback path is taken on a branch that did not ask triggerFallback: DisableFallback is not honoured there")
		}
	})
	// (b) the entry point
	var fbVal ssa.Value
	for _, r := range core.Referrers(helperCall) {
		if ex, ok := r.(*ssa.Extract); ok && ex.Index == boolIdx {
			fbVal = ex
		}
	}
	core.EachInstr(fn, func(b *ssa.BasicBlock, i int, ins ssa.Instruction) {
		if c, ok := ins.(*ssa.Call); ok {
			if _, isInc := incLabel(c); isInc {
				add("V7 "+entry+" counter", p.Pos(c.Pos()), core.FuncName(fn), core.Violated, "the entry point increments the query counter although its planning helper already counted the query")
			}
			if strings.HasPrefix(core.CalleeName(&c.Call), "(*"+pkgPromql+".Engine).New") {
				gated := false
				for _, gb := range fn.Blocks {
					iff := core.IfOf(gb)
					if iff != nil && fbVal != nil && iff.Cond == fbVal && core.BranchDominates(gb, 0, b) {
						gated = true
					}
				}
				key := "V7 " + entry + " consults the embedded engine only under triggerFallback"
				if gated {
					add(key, p.Pos(c.Pos()), core.FuncName(fn), core.Held, "the call is on the true branch of the planning helper's fallback result")
				} else {
					add(key, p.Pos(c.Pos()), core.FuncName(fn), core.Violated, "the embedded Prometheus engine creates the query on a path that is not the fallback branch of the planning helper")
				}
			}
		}
		ret, ok := ins.(*ssa.Return)
		if !ok || b == fn.Recover {
			return
		}
		rs := core.RetResults(ret)
		if len(rs) != 2 || core.IsNilConst(rs[0]) {
			return
		}
		if !core.BlockDominates(helperCall.Block(), b) {
			add("V7 "+entry+" returns a query only after planning", p.Pos(ret.Pos()), core.FuncName(fn), core.Violated, "a query is returned on a path that bypasses the planning helper (execution.New, triggerFallback and the query counter)")
		}
	})
	if npaths == 0 {
		add("V7 "+entry+" counter", "-", core.FuncName(helper), core.Lost, "no path from execution.New to a return")
	}
	return true
}

package rules

import (
	"fmt"
	"go/ast"
	"go/constant"
	"go/token"
	"go/types"
	"sort"
	"strings"

	"golang.org/x/tools/go/ssa"

	"verif/internal/core"
)

func init() {
	register(&Rule{ID: "R-SLOTPTR", Min: 30, Run: ruleSlotPtr,
		Doc: "in package logicalplan every *parser.Expr handed to a traversal, a callback or a helper is the caller's own pointer, the address of a field or slice element of the node (a real slot of the tree), or the address of a root local that is read again after the call; never the address of a loop copy"})
	register(&Rule{ID: "R-DISTTABLE", Min: 5, Run: ruleDistTable,
		Doc: "every key of distributiveAggregations is in the algebraically distributive set {sum,min,max,group,count,topk,bottomk}, and the local re-aggregation chosen in Optimize is the identity except count->sum, which must be present whenever count is a key"})
	register(&Rule{ID: "R-REMOTELOOKBACK", Min: 1, Run: ruleRemoteLookback,
		Doc: "the query.Options that remote.NewExecution hands to the selector reading remote results has LookbackDelta overridden to zero (the remote engine already applied it)"})

	mutant(Mutant{Rule: "R-SLOTPTR", Name: "wrapper-transparent-for-parent", File: "logicalplan/plan.go",
		Old: "\tcase *parser.UnaryExpr:\n\t\treturn traverseBottomUp(current, &node.Expr, transform)\n", New: "\tcase *parser.UnaryExpr:\n\t\treturn traverseBottomUp(parent, &node.Expr, transform)\n", Expect: "UnaryExpr.Expr"})
	mutant(Mutant{Rule: "R-SLOTPTR", Name: "traverse-loop-copy", File: "logicalplan/plan.go",
		Old: "for i := range node.Args {\n\t\t\ttraverse(&node.Args[i], transform)", New: "for _, n := range node.Args {\n\t\t\ttraverse(&n, transform)", Expect: "logicalplan.traverse"})
	mutant(Mutant{Rule: "R-SLOTPTR", Name: "bottomup-loop-copy", File: "logicalplan/plan.go",
		Old: "for i := range node.Args {\n\t\t\tif stop := traverseBottomUp(current, &node.Args[i], transform); stop {", New: "for _, n := range node.Args {\n\t\t\tif stop := traverseBottomUp(current, &n, transform); stop {", Expect: "logicalplan.traverseBottomUp"})
	mutant(Mutant{Rule: "R-DISTTABLE", Name: "avg-distributive", File: "logicalplan/distribute.go",
		Old: "parser.TOPK:    {},", New: "parser.TOPK:    {},\n\tparser.AVG:     {},", Expect: "AVG"})
	mutant(Mutant{Rule: "R-DISTTABLE", Name: "count-not-summed", File: "logicalplan/distribute.go",
		Old: "if aggr.Op == parser.COUNT {", New: "if aggr.Op == parser.COUNT_VALUES {", Expect: "COUNT"})
	mutant(Mutant{Rule: "R-REMOTELOOKBACK", Name: "pass-options-through", File: "execution/remote/operator.go",
		Old: "newStorageFromQuery(query), &remoteOpts, 0, 0, 1)", New: "newStorageFromQuery(query), opts, 0, 0, 1)", Expect: "remote.NewExecution"})
}

func isExprPtr(t types.Type) bool {
	p, ok := t.(*types.Pointer)
	if !ok {
		return false
	}
	return core.TypeIs(p.Elem(), pkgParser, "Expr") && !isPointer(p.Elem())
}

func isPointer(t types.Type) bool { _, ok := t.(*types.Pointer); return ok }

func ruleSlotPtr(p *core.Program) []core.Obligation {
	const rule = "R-SLOTPTR"
	var obs []core.Obligation
	for _, fn := range p.Funcs {
		if core.Rel(fn.Pkg.Pkg.Path()) != "logicalplan" {
			continue
		}
		core.EachInstr(fn, func(b *ssa.BasicBlock, idx int, ins ssa.Instruction) {
			cc := core.CallCommon(ins)
			if cc == nil {
				return
			}
			callee := core.CalleeName(cc)
			if callee == "" {
				callee = "dynamic:" + cc.Value.Name()
				if pr, ok := cc.Value.(*ssa.Parameter); ok {
					callee = "callback " + pr.Name()
				}
			}
			callee = strings.ReplaceAll(callee, core.Module+"/", "")
			for ai, a := range cc.Args {
				if !isExprPtr(a.Type()) {
					continue
				}
				key := fmt.Sprintf("%s -> %s arg%d", core.FuncName(fn), callee, ai)
				status, detail := core.Held, ""
				switch x := a.(type) {
				case *ssa.Parameter:
					detail = "caller's own pointer " + x.Name()
				case *ssa.FieldAddr:
					_, f, _, _ := core.FieldRef(x)
					detail = "address of field " + f
				case *ssa.IndexAddr:
					detail = "address of a slice element"
				case *ssa.Const:
					detail = "nil (no slot)"
				case *ssa.Alloc:
					key += " &" + x.Comment
					if readAfter(x, ins) {
						detail = "root local " + x.Comment + ", read again after the call"
					} else {
						status = core.Violated
						detail = "address of local copy '" + x.Comment + "' that is never read after the call: a node replacement made through this pointer is lost"
					}
				case *ssa.Call:
					// a helper that picks the slot (func wrappedExpr(expr *parser.Expr) *parser.Expr { ... return
					// &node.Expr }): every return is the address of a field or element, the helper's own
					// pointer parameter, or nil
					h := x.Call.StaticCallee()
					okAll, n := h != nil && h.Blocks != nil && p.InRepo(h), 0
					if okAll {
						core.EachInstr(h, func(rb *ssa.BasicBlock, _ int, y ssa.Instruction) {
							ret, isRet := y.(*ssa.Return)
							if !isRet || rb == h.Recover {
								return
							}
							for _, r := range ret.Results {
								if !isExprPtr(r.Type()) {
									continue
								}
								for v := range core.PhiClosure(r) {
									n++
									switch v.(type) {
									case *ssa.FieldAddr, *ssa.IndexAddr, *ssa.Parameter, *ssa.Const, *ssa.Phi:
									default:
										okAll = false
									}
								}
							}
						})
					}
					if okAll && n > 0 {
						detail = "slot picked by helper " + h.Name() + " (addresses of fields/elements, its own parameter, or nil)"
					} else {
						status = core.Undecided
						detail = "pointer returned by a call whose returns are not all addresses of real slots"
					}
				default:
					status = core.Undecided
					detail = fmt.Sprintf("pointer of unrecognised origin %T", a)
				}
				obs = append(obs, core.Ob(rule, key, p.Pos(ins.Pos()), core.FuncName(fn), status, detail))
			}
			// a traversal that hands out (parent, node) pairs: when it recurses into a child slot of the node it
			// was given, the parent it passes is that node - not its own parent (a wrapper such as -x or (x) is
			// the parent of its operand: what is decided about the operand depends on it)
			if cc.StaticCallee() == fn {
				var ptrParams []int
				for i, prm := range fn.Params {
					if isExprPtr(prm.Type()) {
						ptrParams = append(ptrParams, i)
					}
				}
				if len(ptrParams) == 2 && len(cc.Args) == len(fn.Params) {
					pi, ci := ptrParams[0], ptrParams[1]
					isSlot := false
					switch cc.Args[ci].(type) {
					case *ssa.FieldAddr, *ssa.IndexAddr:
						isSlot = true
					}
					if isSlot {
						key := fmt.Sprintf("%s recursion at %s passes the node as parent of its child", core.FuncName(fn), slotName(cc.Args[ci]))
						if cc.Args[pi] == ssa.Value(fn.Params[ci]) {
							obs = append(obs, core.Ob(rule, key, p.Pos(ins.Pos()), core.FuncName(fn), core.Held, "parent argument is the node itself"))
						} else {
							obs = append(obs, core.Ob(rule, key, p.Pos(ins.Pos()), core.FuncName(fn), core.Violated, "the child is visited with a parent other than the node it is a child of (the node's own parent): decisions that depend on the enclosing node (is the parent distributive? is this the root?) are taken for the wrong node"))
						}
					}
				}
			}
		})
	}
	return obs
}

func slotName(v ssa.Value) string {
	switch x := v.(type) {
	case *ssa.FieldAddr:
		if n, f, _, ok := core.FieldRef(x); ok && n != nil {
			return n.Obj().Name() + "." + f
		}
	case *ssa.IndexAddr:
		if fa, ok := core.Deref(x.X).(*ssa.FieldAddr); ok {
			if n, f, _, ok := core.FieldRef(fa); ok && n != nil {
				return n.Obj().Name() + "." + f + "[i]"
			}
		}
		return "element"
	}
	return "slot"
}

// readAfter reports whether the local alloc is loaded at some point that can execute after ins.
func readAfter(alloc *ssa.Alloc, ins ssa.Instruction) bool {
	for _, r := range core.Referrers(alloc) {
		u, ok := r.(*ssa.UnOp)
		if !ok || u.Op != token.MUL {
			continue
		}
		if u.Block() == ins.Block() {
			if core.InstrIndex(u) > core.InstrIndex(ins) {
				return true
			}
			if core.Reaches(ins.Block(), ins.Block()) {
				// in a loop: a load earlier in the same block runs after the call on the next iteration
				// only if the variable is not re-assigned first; treat conservatively as not a read-after
				continue
			}
			continue
		}
		if core.Reaches(ins.Block(), u.Block()) && !core.BlockDominates(u.Block(), ins.Block()) {
			return true
		}
	}
	return false
}

// parserConstName maps a parser.ItemType constant value to its identifier (SUM, COUNT, ...).
func parserConstNames(p *core.Program) map[int64]string {
	out := map[int64]string{}
	pk := p.Deps[pkgParser]
	if pk == nil || pk.Types == nil {
		return out
	}
	sc := pk.Types.Scope()
	for _, n := range sc.Names() {
		c, ok := sc.Lookup(n).(*types.Const)
		if !ok || n != strings.ToUpper(n) {
			continue
		}
		// goyacc emits the token constants (SUM, COUNT, ...) as untyped integers
		if b, isBasic := c.Type().Underlying().(*types.Basic); !isBasic || b.Info()&types.IsInteger == 0 {
			continue
		}
		if v, ok := constant.Int64Val(c.Val()); ok {
			if old, dup := out[v]; !dup || len(n) < len(old) {
				out[v] = n
			}
		}
	}
	return out
}

var distributiveSafe = map[string]string{
	// aggregation -> required local re-aggregation of the partial results
	"SUM": "SUM", "MIN": "MIN", "MAX": "MAX", "GROUP": "GROUP", "COUNT": "SUM", "TOPK": "TOPK", "BOTTOMK": "BOTTOMK",
}

func ruleDistTable(p *core.Program) []core.Obligation {
	const rule = "R-DISTTABLE"
	var obs []core.Obligation
	pk := p.Pkg("logicalplan")
	if pk == nil {
		return []core.Obligation{core.Ob(rule, "package logicalplan", "-", "", core.Lost, "package not found")}
	}
	// 1. keys of the table, from the syntax of its initialiser
	var keys []string
	var tablePos token.Pos
	for _, f := range pk.Syntax {
		ast.Inspect(f, func(n ast.Node) bool {
			vs, ok := n.(*ast.ValueSpec)
			if !ok {
				return true
			}
			for i, name := range vs.Names {
				if name.Name != "distributiveAggregations" || i >= len(vs.Values) {
					continue
				}
				cl, ok := vs.Values[i].(*ast.CompositeLit)
				if !ok {
					continue
				}
				tablePos = cl.Pos()
				for _, e := range cl.Elts {
					kv, ok := e.(*ast.KeyValueExpr)
					if !ok {
						continue
					}
					if tv, ok := pk.TypesInfo.Types[kv.Key]; ok && tv.Value != nil {
						if v, ok := constant.Int64Val(tv.Value); ok {
							keys = append(keys, parserConstNames(p)[v])
						}
					} else {
						keys = append(keys, "?"+types.ExprString(kv.Key))
					}
				}
			}
			return true
		})
	}
	if !tablePos.IsValid() {
		return []core.Obligation{core.Ob(rule, "distributiveAggregations", "-", "", core.Lost, "table not found")}
	}
	// 2. the local re-aggregation mapping in Optimize: the Op stored into the rebuilt AggregateExpr
	mapping := map[string]string{} // condition constant -> replacement constant
	identity := false
	names := parserConstNames(p)
	found := false
	for _, fn := range p.Funcs {
		if core.Rel(fn.Pkg.Pkg.Path()) != "logicalplan" {
			continue
		}
		core.EachInstr(fn, func(b *ssa.BasicBlock, i int, ins ssa.Instruction) {
			st, ok := ins.(*ssa.Store)
			if !ok || !core.IsFieldOf(st.Addr, pkgParser, "AggregateExpr", "Op") {
				return
			}
			if _, fresh := st.Addr.(*ssa.FieldAddr).X.(*ssa.Alloc); !fresh {
				return
			}
			found = true
			for v := range core.PhiClosure(st.Val) {
				if c, ok := core.ConstInt(v); ok {
					// which condition selects this constant? look for an If comparing an Op load with a constant
					phi, _ := st.Val.(*ssa.Phi)
					cond := ""
					if phi != nil {
						for ei, e := range phi.Edges {
							if e != v {
								continue
							}
							pred := phi.Block().Preds[ei]
							// walk up single-predecessor chain to the deciding If
							for pred != nil {
								if len(pred.Preds) == 1 {
									if iff := core.IfOf(pred.Preds[0]); iff != nil && pred.Preds[0].Succs[0] == pred {
										if bo, ok := iff.Cond.(*ssa.BinOp); ok && bo.Op == token.EQL {
											if cv, ok := core.ConstInt(bo.Y); ok {
												cond = names[cv]
											} else if cv, ok := core.ConstInt(bo.X); ok {
												cond = names[cv]
											}
										}
									}
								}
								break
							}
						}
					}
					if cond == "" {
						cond = "?"
					}
					mapping[cond] = names[c]
				} else if core.Deref(v) != nil && core.IsFieldOf(core.Deref(v), pkgParser, "AggregateExpr", "Op") {
					identity = true
				}
			}
		})
	}
	if !found {
		obs = append(obs, core.Ob(rule, "local re-aggregation", "-", "", core.Lost, "no store to the Op of a rebuilt AggregateExpr found in logicalplan"))
	}
	sort.Strings(keys)
	for _, k := range keys {
		want, safe := distributiveSafe[k]
		key := "distributiveAggregations[" + k + "]"
		switch {
		case !safe:
			obs = append(obs, core.Ob(rule, key, p.Pos(tablePos), "", core.Violated, k+" is not distributive over a partition of the series: pushing it to the remote engines changes the result"))
		case want == k:
			st, d := core.Held, "re-aggregated with itself"
			if got, remapped := mapping[k]; remapped && got != k {
				st, d = core.Violated, "partial results of "+k+" are re-aggregated with "+got
			} else if !identity && !remapped {
				st, d = core.Undecided, "no identity path found for the local aggregation"
			}
			obs = append(obs, core.Ob(rule, key, p.Pos(tablePos), "", st, d))
		default:
			got := mapping[k]
			st, d := core.Held, "partial results of "+k+" are re-aggregated with "+want
			if got != want {
				st, d = core.Violated, fmt.Sprintf("partial results of %s must be re-aggregated with %s, the plan uses %q", k, want, got)
			}
			obs = append(obs, core.Ob(rule, key, p.Pos(tablePos), "", st, d))
		}
	}
	return obs
}

func ruleRemoteLookback(p *core.Program) []core.Obligation {
	const rule = "R-REMOTELOOKBACK"
	var obs []core.Obligation
	fn := p.Func("execution/remote", "NewExecution")
	if fn == nil {
		return []core.Obligation{core.Ob(rule, "remote.NewExecution", "-", "", core.Lost, "function not found")}
	}
	core.EachInstr(fn, func(b *ssa.BasicBlock, i int, ins ssa.Instruction) {
		cc := core.CallCommon(ins)
		if cc == nil || !core.IsStatic(cc, core.Module+"/execution/scan.NewVectorSelector") {
			return
		}
		key := "remote.NewExecution -> scan.NewVectorSelector options"
		var optArg ssa.Value
		for _, a := range cc.Args {
			if core.TypeIs(a.Type(), modQuery, "Options") {
				optArg = a
			}
		}
		alloc, ok := optArg.(*ssa.Alloc)
		if !ok {
			obs = append(obs, core.Ob(rule, key, p.Pos(ins.Pos()), core.FuncName(fn), core.Violated,
				"the caller's options (with the query's lookback delta) are passed to the selector that reads the remote result: samples are carried forward a second time"))
			return
		}
		zeroed := false
		for _, r := range core.Referrers(alloc) {
			fa, ok := r.(*ssa.FieldAddr)
			if !ok || !core.IsFieldOf(fa, modQuery, "Options", "LookbackDelta") {
				continue
			}
			for _, rr := range core.Referrers(fa) {
				if st, ok := rr.(*ssa.Store); ok && st.Addr == fa {
					if c, ok := core.ConstInt(st.Val); ok && c == 0 && core.InstrDominates(st, ins) {
						zeroed = true
					}
				}
			}
		}
		if zeroed {
			obs = append(obs, core.Ob(rule, key, p.Pos(ins.Pos()), core.FuncName(fn), core.Held, "LookbackDelta of the private copy is set to 0 before the call"))
		} else {
			obs = append(obs, core.Ob(rule, key, p.Pos(ins.Pos()), core.FuncName(fn), core.Violated, "a copy of the options is passed but its LookbackDelta is not zeroed"))
		}
	})
	if len(obs) == 0 {
		obs = append(obs, core.Ob(rule, "remote.NewExecution -> scan.NewVectorSelector options", "-", "", core.Lost, "call not found"))
	}
	return obs
}

package rules

import (
	"fmt"
	"go/ast"
	"go/token"
	"go/types"
	"sort"
	"strings"

	"golang.org/x/tools/go/ssa"

	"verif/internal/core"
)

func init() {
	register(&Rule{ID: "R-HINTXFER", Min: 12, Run: ruleHintXfer,
		Doc: "for every recursive planning call below a node kind, the Func/Grouping/By fields of the by-value hints record are inherited, reset or set exactly as the reference derives them from the path: Func is set by Call/AggregateExpr, reset by BinaryExpr and inherited otherwise; Grouping/By are set by AggregateExpr and reset by every other node kind (the case lists of the pinned extractFuncFromPath/extractGroupsFromPath are re-read from the module source on every run)"})
	register(&Rule{ID: "R-HINTRANGE", Min: 2, Run: ruleHintRange,
		Doc: "at every GetSelector/GetFilteredSelector call the (mint, maxt) arguments are the very values stored into hints.Start/End before the call, both results of one getTimeRangesForVectorSelector call"})
	register(&Rule{ID: "R-LINEAR", Min: 15, Run: ruleLinear,
		Doc: "in plan construction every operator value is consumed at most once on any path (as a constructor argument, a slice element or a return value): the physical plan is a tree and no operator is pulled by two consumers"})

	mutant(Mutant{Rule: "R-HINTXFER", Name: "binary-inherits-hints", File: "execution/execution.go",
		Old: "\t\thints.Func = \"\"\n\t\thints.Grouping = nil\n\t\thints.By = false\n\t\tif e.LHS.Type()", New: "\t\tif e.LHS.Type()", Expect: "BinaryExpr"})
	mutant(Mutant{Rule: "R-HINTXFER", Name: "histogram-branch-before-reset", File: "execution/execution.go",
		Old: "\t\thints.Func = e.Func.Name\n\t\thints.Grouping = nil\n\t\thints.By = false\n\n\t\tif e.Func.Name == \"histogram_quantile\" {\n\t\t\tnextOperators := make([]model.VectorOperator, len(e.Args))\n\t\t\tfor i := range e.Args {\n\t\t\t\tnext, err := newOperator(e.Args[i], storage, opts, hints)\n\t\t\t\tif err != nil {\n\t\t\t\t\treturn nil, err\n\t\t\t\t}\n\t\t\t\tnextOperators[i] = next\n\t\t\t}\n\n\t\t\treturn function.NewHistogramOperator(model.NewVectorPool(stepsBatch), e.Args, nextOperators, stepsBatch)\n\t\t}\n",
		New: "\t\tif e.Func.Name == \"histogram_quantile\" {\n\t\t\tnextOperators := make([]model.VectorOperator, len(e.Args))\n\t\t\tfor i := range e.Args {\n\t\t\t\tnext, err := newOperator(e.Args[i], storage, opts, hints)\n\t\t\t\tif err != nil {\n\t\t\t\t\treturn nil, err\n\t\t\t\t}\n\t\t\t\tnextOperators[i] = next\n\t\t\t}\n\n\t\t\treturn function.NewHistogramOperator(model.NewVectorPool(stepsBatch), e.Args, nextOperators, stepsBatch)\n\t\t}\n\t\thints.Func = e.Func.Name\n\t\thints.Grouping = nil\n\t\thints.By = false\n\n", Expect: "Call"})
	mutant(Mutant{Rule: "R-HINTRANGE", Name: "stale-hint-range", File: "execution/execution.go",
		Old: "\t\tstart, end := getTimeRangesForVectorSelector(e, opts, 0)\n\t\thints.Start = start\n\t\thints.End = end\n\t\tfilter := storage.GetSelector(", New: "\t\tstart, end := getTimeRangesForVectorSelector(e, opts, 0)\n\t\tfilter := storage.GetSelector(", Expect: "GetSelector"})
	mutant(Mutant{Rule: "R-LINEAR", Name: "operand-used-twice", File: "execution/execution.go",
		Old: "return binary.NewVectorOperator(model.NewVectorPool(stepsBatch), leftOperator, rightOperator, e.VectorMatching, e.Op, e.ReturnBool)", New: "_ = rightOperator\n\treturn binary.NewVectorOperator(model.NewVectorPool(stepsBatch), leftOperator, leftOperator, e.VectorMatching, e.Op, e.ReturnBool)", Expect: "newVectorBinaryOperator"})
}

// plannerFunc finds the recursive plan constructor of package execution: the function newOperator, or - when
// its state was grouped into a builder type - the method of that name, or else the function or method of the
// package that takes an expression and select hints and calls itself.
func plannerFunc(p *core.Program) *ssa.Function {
	if fn := p.Func("execution", "newOperator"); fn != nil {
		return fn
	}
	var byName, byShape *ssa.Function
	for _, fn := range p.Funcs {
		if core.Rel(fn.Pkg.Pkg.Path()) != "execution" || fn.Parent() != nil {
			continue
		}
		hasExpr, hasHints := false, false
		for _, prm := range fn.Params {
			if core.TypeIs(prm.Type(), pkgParser, "Expr") {
				hasExpr = true
			}
			if core.TypeIs(prm.Type(), pkgStorage, "SelectHints") {
				hasHints = true
			}
		}
		if !hasExpr || !hasHints {
			continue
		}
		if fn.Name() == "newOperator" {
			byName = fn
		}
		recursive := false
		f := fn
		core.EachInstr(fn, func(_ *ssa.BasicBlock, _ int, ins ssa.Instruction) {
			if c, ok := ins.(*ssa.Call); ok && c.Call.StaticCallee() == f {
				recursive = true
			}
		})
		if recursive && byShape == nil {
			byShape = fn
		}
	}
	if byName != nil {
		return byName
	}
	return byShape
}

// referenceHintShape re-reads the case lists of the pinned reference's path helpers.
func referenceHintShape(p *core.Program) (funcCases, groupCases []string, err error) {
	pk := p.Deps[pkgPromql]
	if pk == nil {
		return nil, nil, fmt.Errorf("promql package not loaded")
	}
	var file string
	for _, f := range pk.GoFiles {
		if strings.HasSuffix(f, "/engine.go") {
			file = f
		}
	}
	if file == "" {
		return nil, nil, fmt.Errorf("engine.go of the pinned promql package not found")
	}
	af, err := parseFile(file)
	if err != nil {
		return nil, nil, err
	}
	collect := func(name string) []string {
		var out []string
		ast.Inspect(af, func(n ast.Node) bool {
			fd, ok := n.(*ast.FuncDecl)
			if !ok || fd.Name.Name != name {
				return true
			}
			ast.Inspect(fd.Body, func(m ast.Node) bool {
				if cc, ok := m.(*ast.CaseClause); ok {
					for _, e := range cc.List {
						out = append(out, strings.TrimPrefix(types.ExprString(e), "*parser."))
					}
				}
				return true
			})
			return false
		})
		sort.Strings(out)
		return out
	}
	return collect("extractFuncFromPath"), collect("extractGroupsFromPath"), nil
}

// nodeKindAt returns the node kind whose type-switch case (or typed parameter) governs ins.
func nodeKindAt(fn *ssa.Function, ins ssa.Instruction) string {
	// nearest dominating successful type assertion of the expression parameter
	best, bestBlock := "", (*ssa.BasicBlock)(nil)
	for _, b := range fn.Blocks {
		iff := core.IfOf(b)
		if iff == nil {
			continue
		}
		ex, ok := iff.Cond.(*ssa.Extract)
		if !ok || ex.Index != 1 {
			continue
		}
		ta, ok := ex.Tuple.(*ssa.TypeAssert)
		if !ok || !ta.CommaOk {
			continue
		}
		if _, isParam := ta.X.(*ssa.Parameter); !isParam {
			continue
		}
		if !core.BranchDominates(b, 0, ins.Block()) {
			continue
		}
		if bestBlock == nil || bestBlock.Dominates(b) {
			n := core.NamedOf(ta.AssertedType)
			if n != nil {
				best, bestBlock = n.Obj().Name(), b
			}
		}
	}
	if best != "" {
		return best
	}
	for _, pr := range fn.Params {
		if n := core.NamedOf(pr.Type()); n != nil && n.Obj().Pkg() != nil && (n.Obj().Pkg().Path() == pkgParser || n.Obj().Pkg().Path() == modLogical) {
			if _, isIface := n.Underlying().(*types.Interface); !isIface {
				return n.Obj().Name()
			}
		}
	}
	return ""
}

func ruleHintXfer(p *core.Program) []core.Obligation {
	const rule = "R-HINTXFER"
	var obs []core.Obligation
	fc, gc, err := referenceHintShape(p)
	if err != nil {
		return []core.Obligation{core.Ob(rule, "reference shape", "-", "", core.Lost, err.Error())}
	}
	// the expectations below are those of a reference whose helpers have exactly these case lists
	if strings.Join(fc, ",") != "AggregateExpr,BinaryExpr,Call" || strings.Join(gc, ",") != "AggregateExpr" {
		return []core.Obligation{core.Ob(rule, "reference shape", "-", "", core.Lost, fmt.Sprintf("the pinned extractFuncFromPath/extractGroupsFromPath have cases %v / %v; the rule's table was written for [AggregateExpr BinaryExpr Call] / [AggregateExpr]", fc, gc))}
	}
	obs = append(obs, core.Ob(rule, "reference shape", "-", "", core.Held, "extractFuncFromPath cases "+strings.Join(fc, ",")+"; extractGroupsFromPath cases "+strings.Join(gc, ",")))
	expectFunc := map[string]string{"Call": "set", "AggregateExpr": "set", "BinaryExpr": "reset"}
	expectGroup := func(kind string) string {
		if kind == "AggregateExpr" {
			return "set"
		}
		return "reset"
	}
	constrained := map[string]bool{"Call": true, "AggregateExpr": true, "BinaryExpr": true, "ParenExpr": true, "UnaryExpr": true, "StepInvariantExpr": true}

	newOp := plannerFunc(p)
	if newOp == nil {
		return append(obs, core.Ob(rule, "execution.newOperator", "-", "", core.Lost, "not found"))
	}
	// planning functions: newOperator and the helpers that take hints and (directly or through another
	// planner) call it
	hintsParam := func(fn *ssa.Function) *ssa.Parameter {
		for _, pr := range fn.Params {
			if core.TypeIs(pr.Type(), pkgStorage, "SelectHints") {
				return pr
			}
		}
		return nil
	}
	planners := map[*ssa.Function]bool{newOp: true}
	for changed := true; changed; {
		changed = false
		for _, fn := range p.Funcs {
			if planners[fn] || fn.Parent() != nil || core.Rel(fn.Pkg.Pkg.Path()) != "execution" || hintsParam(fn) == nil {
				continue
			}
			calls := false
			core.EachInstr(fn, func(_ *ssa.BasicBlock, _ int, ins ssa.Instruction) {
				if c, ok := ins.(*ssa.Call); ok && planners[c.Call.StaticCallee()] {
					calls = true
				}
			})
			if calls {
				planners[fn] = true
				changed = true
			}
		}
	}
	hintsArg := func(c *ssa.Call) ssa.Value {
		for _, a := range c.Call.Args {
			if core.TypeIs(a.Type(), pkgStorage, "SelectHints") {
				return a
			}
		}
		return nil
	}
	// stateOf: how field of the hints value hv, as used at the instruction at of fn, relates to fn's own
	// hints parameter: "set", "reset", "inherit", or "unknown".
	var stateOf func(fn *ssa.Function, hv ssa.Value, field string, depth int) string
	stateOf = func(fn *ssa.Function, hv ssa.Value, field string, depth int) string {
		if depth > 6 {
			return "unknown"
		}
		switch x := hv.(type) {
		case *ssa.Parameter:
			return "inherit"
		case *ssa.UnOp:
			if x.Op != token.MUL {
				return "unknown"
			}
			st := reachingStore(fn, x.X, field, x)
			if st == nil {
				return "unknown"
			}
			if st.Addr == x.X {
				return stateOf(fn, st.Val, field, depth+1) // the whole record was assigned
			}
			if c, ok := st.Val.(*ssa.Const); ok && (c.Value == nil || c.Value.String() == `""` || c.Value.String() == "false") {
				return "reset"
			}
			return "set"
		case *ssa.Call:
			// a helper that returns the record: hints = withoutGrouping(hints)
			h := x.Call.StaticCallee()
			if h == nil || h.Blocks == nil || !p.InRepo(h) || hintsParam(h) == nil {
				return "unknown"
			}
			res := ""
			core.EachInstr(h, func(b *ssa.BasicBlock, _ int, ins ssa.Instruction) {
				ret, ok := ins.(*ssa.Return)
				if !ok || b == h.Recover {
					return
				}
				for _, r := range ret.Results {
					if !core.TypeIs(r.Type(), pkgStorage, "SelectHints") {
						continue
					}
					s := stateOf(h, r, field, depth+1)
					if res == "" {
						res = s
					} else if res != s {
						res = "unknown"
					}
				}
			})
			if res == "inherit" {
				if a := hintsArg(x); a != nil {
					return stateOf(fn, a, field, depth+1)
				}
				return "unknown"
			}
			if res == "" {
				return "unknown"
			}
			return res
		}
		return "unknown"
	}
	// contexts of a planning call: the chain of call sites from newOperator down to it
	type site struct {
		fn   *ssa.Function
		call *ssa.Call
	}
	sitesOf := map[*ssa.Function][]site{}
	var planFns []*ssa.Function
	for fn := range planners {
		planFns = append(planFns, fn)
	}
	sort.Slice(planFns, func(i, j int) bool { return planFns[i].String() < planFns[j].String() })
	for _, fn := range planFns {
		f := fn
		core.EachInstr(fn, func(_ *ssa.BasicBlock, _ int, ins ssa.Instruction) {
			if c, ok := ins.(*ssa.Call); ok && planners[c.Call.StaticCallee()] {
				sitesOf[c.Call.StaticCallee()] = append(sitesOf[c.Call.StaticCallee()], site{f, c})
			}
		})
	}
	// resolve: kind and field states of the children planned by the call c in fn, looking outwards through
	// the call sites of fn while the kind is unknown or a field is inherited
	type resolved struct {
		kind   string
		states map[string]string
		where  string
	}
	fields := []string{"Func", "Grouping", "By"}
	var resolve func(s site, depth int) []resolved
	resolve = func(s site, depth int) []resolved {
		kind := nodeKindAt(s.fn, s.call)
		states := map[string]string{}
		for _, f := range fields {
			if a := hintsArg(s.call); a != nil {
				states[f] = stateOf(s.fn, a, f, 0)
			} else {
				states[f] = "unknown"
			}
		}
		need := kind == ""
		for _, f := range fields {
			if states[f] == "inherit" {
				need = true
			}
		}
		if !need || s.fn == newOp || depth > 3 {
			return []resolved{{kind, states, s.fn.Name()}}
		}
		var out []resolved
		for _, outer := range sitesOf[s.fn] {
			if outer.fn == s.fn {
				continue
			}
			for _, o := range resolve(outer, depth+1) {
				r := resolved{kind, map[string]string{}, s.fn.Name()}
				if r.kind == "" {
					r.kind = o.kind
				}
				for _, f := range fields {
					r.states[f] = states[f]
					// what the outer site established holds for the node kind the outer site plans; it
					// carries over when this site plans children of the same node (no kind of its own,
					// or the typed node parameter of a helper of that kind)
					if states[f] == "inherit" && (kind == "" || kind == o.kind) {
						r.states[f] = o.states[f]
					}
				}
				out = append(out, r)
			}
		}
		if len(out) == 0 {
			return []resolved{{kind, states, s.fn.Name()}}
		}
		return out
	}
	for _, fn := range planFns {
		f := fn
		core.EachInstr(fn, func(b *ssa.BasicBlock, i int, ins ssa.Instruction) {
			call, ok := ins.(*ssa.Call)
			if !ok || call.Call.StaticCallee() != newOp {
				return
			}
			for _, r := range resolve(site{f, call}, 0) {
				if !constrained[r.kind] {
					continue
				}
				for _, field := range fields {
					got := r.states[field]
					want := "inherit"
					if field == "Func" {
						if w, ok := expectFunc[r.kind]; ok {
							want = w
						}
					} else {
						want = expectGroup(r.kind)
					}
					key := fmt.Sprintf("child of %s planned in %s: hints.%s", r.kind, f.Name(), field)
					switch {
					case got == want:
						obs = append(obs, core.Ob(rule, key, p.Pos(call.Pos()), core.FuncName(f), core.Held, got))
					case got == "unknown":
						obs = append(obs, core.Ob(rule, key, p.Pos(call.Pos()), core.FuncName(f), core.Undecided, fmt.Sprintf("the value of hints.%s passed here cannot be traced (stores that do not dominate the call, or a record of unrecognised construction)", field)))
					default:
						obs = append(obs, core.Ob(rule, key, p.Pos(call.Pos()), core.FuncName(f), core.Violated, fmt.Sprintf("hints.%s is %s for the children of a %s, the reference has it %s: the storage is told the wrong enclosing function/grouping for these selects", field, got, r.kind, want)))
					}
				}
			}
		})
	}
	return obs
}

// rangeOrigin names one result of one select-range computation: the instruction in the analysed function that
// produced it (a call of getTimeRangesForVectorSelector, or of a helper that returns hints filled from one)
// and which of the two results it is (0 = start, 1 = end).
type rangeOrigin struct {
	call ssa.Instruction
	idx  int
}

// reachingStore finds the store that defines field (or the whole struct) of the local struct variable a at
// the instruction at: the last store that dominates at. A store that can execute between that one and at
// without dominating it makes the definition ambiguous (nil).
func reachingStore(fn *ssa.Function, a ssa.Value, field string, at ssa.Instruction) *ssa.Store {
	var last *ssa.Store
	var all []*ssa.Store
	core.EachInstr(fn, func(_ *ssa.BasicBlock, _ int, x ssa.Instruction) {
		st, ok := x.(*ssa.Store)
		if !ok {
			return
		}
		hit := st.Addr == a
		if fa, ok := st.Addr.(*ssa.FieldAddr); ok && fa.X == a {
			if _, f, _, ok := core.FieldRef(fa); ok && f == field {
				hit = true
			}
		}
		if !hit {
			return
		}
		all = append(all, st)
		if core.InstrDominates(st, at) && (last == nil || core.InstrDominates(last, st)) {
			last = st
		}
	})
	if last == nil {
		return nil
	}
	for _, st := range all {
		if st == last || core.InstrDominates(st, at) {
			continue
		}
		if !core.InstrDominates(last, st) {
			continue
		}
		if st.Block() != at.Block() {
			if core.Reaches(st.Block(), at.Block()) {
				return nil
			}
			continue
		}
		// same block, after at: reaches at only around a loop
		for _, succ := range st.Block().Succs {
			if core.Reaches(succ, at.Block()) {
				return nil
			}
		}
	}
	return last
}

// hintFieldOfResult: the helper h returns a SelectHints whose field (Start/End) is, on every return, the
// idx-th result of a range computation made in h. Returns idx, or -1.
func hintFieldOfResult(p *core.Program, h *ssa.Function, field string, depth int) int {
	if h == nil || h.Blocks == nil || !p.InRepo(h) || depth > 2 {
		return -1
	}
	res := -2
	core.EachInstr(h, func(b *ssa.BasicBlock, _ int, x ssa.Instruction) {
		ret, ok := x.(*ssa.Return)
		if !ok || b == h.Recover {
			return
		}
		idx := -1
		for _, r := range ret.Results { // not core.RetResults: the field stores into the returned variable matter
			if !core.TypeIs(r.Type(), pkgStorage, "SelectHints") {
				continue
			}
			if o := hintFieldOrigin(p, h, r, field, ret, depth); o != nil {
				idx = o.idx
			}
		}
		if res == -2 {
			res = idx
		} else if res != idx {
			res = -1
		}
	})
	if res < 0 {
		return -1
	}
	return res
}

// hintFieldOrigin resolves field (Start/End) of the SelectHints value hv as used by the instruction at.
func hintFieldOrigin(p *core.Program, fn *ssa.Function, hv ssa.Value, field string, at ssa.Instruction, depth int) *rangeOrigin {
	switch x := hv.(type) {
	case *ssa.UnOp:
		if x.Op != token.MUL {
			return nil
		}
		st := reachingStore(fn, x.X, field, x)
		if st == nil {
			return nil
		}
		if st.Addr == x.X {
			return hintFieldOrigin(p, fn, st.Val, field, st, depth) // the whole struct was assigned
		}
		return rangeValueOrigin(p, fn, st.Val, depth)
	case *ssa.Call:
		if idx := hintFieldOfResult(p, x.Call.StaticCallee(), field, depth+1); idx >= 0 {
			return &rangeOrigin{x, idx}
		}
	}
	return nil
}

// rangeValueOrigin resolves an int64 value to the range computation it comes from.
func rangeValueOrigin(p *core.Program, fn *ssa.Function, v ssa.Value, depth int) *rangeOrigin {
	switch x := v.(type) {
	case *ssa.Extract:
		if c, ok := x.Tuple.(*ssa.Call); ok && core.IsStatic(&c.Call, modExecution+".getTimeRangesForVectorSelector") && x.Index < 2 {
			return &rangeOrigin{c, x.Index}
		}
	case *ssa.UnOp:
		// a load of hints.Start / hints.End
		if x.Op != token.MUL {
			return nil
		}
		fa, ok := x.X.(*ssa.FieldAddr)
		if !ok {
			return nil
		}
		n, f, _, ok := core.FieldRef(fa)
		if !ok || n == nil || n.Obj().Name() != "SelectHints" || (f != "Start" && f != "End") {
			return nil
		}
		st := reachingStore(fn, fa.X, f, x)
		if st == nil {
			return nil
		}
		if st.Addr == fa.X {
			return hintFieldOrigin(p, fn, st.Val, f, st, depth)
		}
		return rangeValueOrigin(p, fn, st.Val, depth)
	case *ssa.Field:
		if c, ok := x.X.(*ssa.Call); ok && core.TypeIs(c.Type(), pkgStorage, "SelectHints") {
			st := c.Type().Underlying().(*types.Struct)
			f := st.Field(x.Field).Name()
			if idx := hintFieldOfResult(p, c.Call.StaticCallee(), f, depth+1); idx >= 0 {
				return &rangeOrigin{c, idx}
			}
		}
	}
	return nil
}

func ruleHintRange(p *core.Program) []core.Obligation {
	const rule = "R-HINTRANGE"
	var obs []core.Obligation
	for _, fn := range p.Funcs {
		if core.Rel(fn.Pkg.Pkg.Path()) != "execution" {
			continue
		}
		k := 0
		core.EachInstr(fn, func(b *ssa.BasicBlock, i int, ins ssa.Instruction) {
			call, ok := ins.(*ssa.Call)
			if !ok {
				return
			}
			name := core.CalleeName(&call.Call)
			if !strings.HasSuffix(name, "SelectorPool).GetSelector") && !strings.HasSuffix(name, "SelectorPool).GetFilteredSelector") {
				return
			}
			k++
			key := fmt.Sprintf("%s -> %s #%d", core.FuncName(fn), call.Call.StaticCallee().Name(), k)
			mint, maxt := call.Call.Args[1], call.Call.Args[2]
			var hints ssa.Value
			for _, a := range call.Call.Args {
				if core.TypeIs(a.Type(), pkgStorage, "SelectHints") {
					hints = a
				}
			}
			// both results of one range computation
			o1, o2 := rangeValueOrigin(p, fn, mint, 0), rangeValueOrigin(p, fn, maxt, 0)
			if o1 == nil || o2 == nil {
				obs = append(obs, core.Ob(rule, key, p.Pos(call.Pos()), core.FuncName(fn), core.Undecided, "the select range cannot be traced to getTimeRangesForVectorSelector (directly, through hints.Start/End or through a helper that returns the hints)"))
				return
			}
			if o1.call != o2.call || o1.idx != 0 || o2.idx != 1 {
				obs = append(obs, core.Ob(rule, key, p.Pos(call.Pos()), core.FuncName(fn), core.Violated, "the select range is not the (start, end) pair of one range computation"))
				return
			}
			// hints.Start/End as passed hold exactly these values
			var hs, he *rangeOrigin
			if hints != nil {
				hs, he = hintFieldOrigin(p, fn, hints, "Start", call, 0), hintFieldOrigin(p, fn, hints, "End", call, 0)
			}
			if hs != nil && he != nil && *hs == *o1 && *he == *o2 {
				obs = append(obs, core.Ob(rule, key, p.Pos(call.Pos()), core.FuncName(fn), core.Held, "hints.Start/End hold the very range passed to the selector"))
			} else {
				obs = append(obs, core.Ob(rule, key, p.Pos(call.Pos()), core.FuncName(fn), core.Violated, "hints.Start/End are not (re)assigned from the range passed to the selector: the select is issued with the range inherited from the enclosing expression"))
			}
		})
	}
	return obs
}

func ruleLinear(p *core.Program) []core.Obligation {
	const rule = "R-LINEAR"
	var obs []core.Obligation
	isOp := func(t types.Type) bool { return isVectorOperatorIface(t) && !isPointer(t) }
	for _, fn := range p.Funcs {
		if core.Rel(fn.Pkg.Pkg.Path()) != "execution" {
			continue
		}
		// operator values produced in this function
		var vals []ssa.Value
		core.EachInstr(fn, func(b *ssa.BasicBlock, i int, ins ssa.Instruction) {
			switch x := ins.(type) {
			case *ssa.Extract:
				if isOp(x.Type()) {
					vals = append(vals, x)
				}
			case *ssa.Call:
				if isOp(x.Type()) {
					vals = append(vals, x)
				}
			case *ssa.MakeInterface:
				if isOp(x.Type()) {
					vals = append(vals, x)
				}
			}
		})
		for vi, v := range vals {
			// consuming uses, following phis forward
			type use struct {
				ins ssa.Instruction
			}
			var uses []ssa.Instruction
			seen := map[ssa.Value]bool{}
			var walk func(x ssa.Value)
			walk = func(x ssa.Value) {
				if seen[x] {
					return
				}
				seen[x] = true
				for _, r := range core.Referrers(x) {
					switch y := r.(type) {
					case *ssa.Phi:
						walk(y)
					case *ssa.Call:
						for _, a := range y.Call.Args {
							if a == x {
								uses = append(uses, y)
							}
						}
					case *ssa.Store:
						if y.Val == x {
							uses = append(uses, y)
						}
					case *ssa.Return:
						uses = append(uses, y)
					case *ssa.MakeInterface, *ssa.ChangeInterface:
						walk(y.(ssa.Value))
					}
				}
			}
			walk(v)
			if len(uses) == 0 {
				continue
			}
			key := fmt.Sprintf("%s operator value #%d (%s)", core.FuncName(fn), vi, v.Name())
			bad := ""
			for i := 0; i < len(uses) && bad == ""; i++ {
				// the same instruction consuming the value twice (two arguments)
				if c, ok := uses[i].(*ssa.Call); ok {
					var opArgs []ssa.Value
					for _, a := range c.Call.Args {
						if seen[a] {
							opArgs = append(opArgs, a)
						}
					}
					for x := 0; x < len(opArgs); x++ {
						for y := x + 1; y < len(opArgs); y++ {
							if sameOnSomePath(opArgs[x], opArgs[y]) {
								bad = "passed twice to " + strings.ReplaceAll(core.CalleeName(&c.Call), core.Module+"/", "")
							}
						}
					}
				}
				for j := i + 1; j < len(uses) && bad == ""; j++ {
					a, b := uses[i], uses[j]
					if a == b {
						continue
					}
					if a.Block() == b.Block() || core.Reaches(a.Block(), b.Block()) || core.Reaches(b.Block(), a.Block()) {
						// a swap through phis consumes each value once per path: only flag when one use can follow the other without the value being redefined
						if _, isPhiFed := v.(*ssa.Phi); isPhiFed {
							continue
						}
						bad = fmt.Sprintf("consumed at %s and again at %s", p.Pos(a.Pos()), p.Pos(b.Pos()))
					}
				}
			}
			if bad != "" {
				obs = append(obs, core.Ob(rule, key, p.Pos(v.Pos()), core.FuncName(fn), core.Violated, "an operator is "+bad+": two consumers would pull batches from one stream, each seeing only part of it"))
			} else {
				obs = append(obs, core.Ob(rule, key, p.Pos(v.Pos()), core.FuncName(fn), core.Held, fmt.Sprintf("%d consuming use(s), mutually exclusive", len(uses))))
			}
		}
	}
	return obs
}

// sameOnSomePath reports whether two argument values of one call can be the same operator on some
// path: identical values, or phis of one block that select the same value on the same incoming edge.
func sameOnSomePath(a, b ssa.Value) bool {
	if a == b {
		return true
	}
	pa, okA := a.(*ssa.Phi)
	pb, okB := b.(*ssa.Phi)
	if okA && okB && pa.Block() == pb.Block() {
		for k := range pa.Edges {
			if sameOnSomePath(pa.Edges[k], pb.Edges[k]) {
				return true
			}
		}
		return false
	}
	if okA && !okB {
		for _, e := range pa.Edges {
			if e == b {
				return true
			}
		}
	}
	if okB && !okA {
		for _, e := range pb.Edges {
			if e == a {
				return true
			}
		}
	}
	return false
}

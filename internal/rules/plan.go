package rules

import (
	"fmt"
	"go/ast"
	"go/types"
	"sort"
	"strings"

	"golang.org/x/tools/go/ssa"

	"verif/internal/core"
)

func init() {
	register(&Rule{ID: "R-HINTXFER", Min: 12, Run: ruleHintXfer,
		Doc: "for every recursive planning call below a node kind, the Func/Grouping/By fields of the by-value hints record are inherited, reset or set exactly as the reference derives them from the path: Func is set by Call/AggregateExpr, reset by BinaryExpr and inherited otherwise; Grouping/By are set by AggregateExpr and reset by every other node kind (the case lists of the pinned extractFuncFromPath/extractGroupsFromPath are re-read from the module source on every run)"})
	register(&Rule{ID: "R-HINTRANGE", Min: 2, Run: ruleHintRange,
		Doc: "at every GetSelector/GetFilteredSelector call the (mint, maxt) arguments are the very values stored into hints.Start/End before the call, both results of one getTimeRangesForVectorSelector call"})
	register(&Rule{ID: "R-LINEAR", Min: 15, Run: ruleLinear,
		Doc: "in plan construction every operator value is consumed at most once on any path (as a constructor argument, a slice element or a return value): the physical plan is a tree and no operator is pulled by two consumers"})

	mutant(Mutant{Rule: "R-HINTXFER", Name: "binary-inherits-hints", File: "execution/execution.go",
		Old: "\t\thints.Func = \"\"\n\t\thints.Grouping = nil\n\t\thints.By = false\n\t\tif e.LHS.Type()", New: "\t\tif e.LHS.Type()", Expect: "BinaryExpr"})
	mutant(Mutant{Rule: "R-HINTXFER", Name: "histogram-branch-before-reset", File: "execution/execution.go",
		Old: "\t\thints.Func = e.Func.Name\n\t\thints.Grouping = nil\n\t\thints.By = false\n\n\t\tif e.Func.Name == \"histogram_quantile\" {\n\t\t\tnextOperators := make([]model.VectorOperator, len(e.Args))\n\t\t\tfor i := range e.Args {\n\t\t\t\tnext, err := newOperator(e.Args[i], storage, opts, hints)\n\t\t\t\tif err != nil {\n\t\t\t\t\treturn nil, err\n\t\t\t\t}\n\t\t\t\tnextOperators[i] = next\n\t\t\t}\n\n\t\t\treturn function.NewHistogramOperator(model.NewVectorPool(stepsBatch), e.Args, nextOperators, stepsBatch)\n\t\t}\n",
		New: "\t\tif e.Func.Name == \"histogram_quantile\" {\n\t\t\tnextOperators := make([]model.VectorOperator, len(e.Args))\n\t\t\tfor i := range e.Args {\n\t\t\t\tnext, err := newOperator(e.Args[i], storage, opts, hints)\n\t\t\t\tif err != nil {\n\t\t\t\t\treturn nil, err\n\t\t\t\t}\n\t\t\t\tnextOperators[i] = next\n\t\t\t}\n\n\t\t\treturn function.NewHistogramOperator(model.NewVectorPool(stepsBatch), e.Args, nextOperators, stepsBatch)\n\t\t}\n\t\thints.Func = e.Func.Name\n\t\thints.Grouping = nil\n\t\thints.By = false\n\n", Expect: "Call"})
	mutant(Mutant{Rule: "R-HINTRANGE", Name: "stale-hint-range", File: "execution/execution.go",
		Old: "\t\tstart, end := getTimeRangesForVectorSelector(e, opts, 0)\n\t\thints.Start = start\n\t\thints.End = end\n\t\tfilter := storage.GetSelector(", New: "\t\tstart, end := getTimeRangesForVectorSelector(e, opts, 0)\n\t\tfilter := storage.GetSelector(", Expect: "GetSelector"})
	mutant(Mutant{Rule: "R-LINEAR", Name: "operand-used-twice", File: "execution/execution.go",
		Old: "return binary.NewVectorOperator(model.NewVectorPool(stepsBatch), leftOperator, rightOperator, e.VectorMatching, e.Op, e.ReturnBool)", New: "_ = rightOperator\n\treturn binary.NewVectorOperator(model.NewVectorPool(stepsBatch), leftOperator, leftOperator, e.VectorMatching, e.Op, e.ReturnBool)", Expect: "newVectorBinaryOperator"})
}

// referenceHintShape re-reads the case lists of the pinned reference's path helpers.
func referenceHintShape(p *core.Program) (funcCases, groupCases []string, err error) {
	pk := p.Deps[pkgPromql]
	if pk == nil {
		return nil, nil, fmt.Errorf("promql package not loaded")
	}
	var file string
	for _, f := range pk.GoFiles {
		if strings.HasSuffix(f, "/engine.go") {
			file = f
		}
	}
	if file == "" {
		return nil, nil, fmt.Errorf("engine.go of the pinned promql package not found")
	}
	af, err := parseFile(file)
	if err != nil {
		return nil, nil, err
	}
	collect := func(name string) []string {
		var out []string
		ast.Inspect(af, func(n ast.Node) bool {
			fd, ok := n.(*ast.FuncDecl)
			if !ok || fd.Name.Name != name {
				return true
			}
			ast.Inspect(fd.Body, func(m ast.Node) bool {
				if cc, ok := m.(*ast.CaseClause); ok {
					for _, e := range cc.List {
						out = append(out, strings.TrimPrefix(types.ExprString(e), "*parser."))
					}
				}
				return true
			})
			return false
		})
		sort.Strings(out)
		return out
	}
	return collect("extractFuncFromPath"), collect("extractGroupsFromPath"), nil
}

// nodeKindAt returns the node kind whose type-switch case (or typed parameter) governs ins.
func nodeKindAt(fn *ssa.Function, ins ssa.Instruction) string {
	// nearest dominating successful type assertion of the expression parameter
	best, bestBlock := "", (*ssa.BasicBlock)(nil)
	for _, b := range fn.Blocks {
		iff := core.IfOf(b)
		if iff == nil {
			continue
		}
		ex, ok := iff.Cond.(*ssa.Extract)
		if !ok || ex.Index != 1 {
			continue
		}
		ta, ok := ex.Tuple.(*ssa.TypeAssert)
		if !ok || !ta.CommaOk {
			continue
		}
		if _, isParam := ta.X.(*ssa.Parameter); !isParam {
			continue
		}
		if !core.BranchDominates(b, 0, ins.Block()) {
			continue
		}
		if bestBlock == nil || bestBlock.Dominates(b) {
			n := core.NamedOf(ta.AssertedType)
			if n != nil {
				best, bestBlock = n.Obj().Name(), b
			}
		}
	}
	if best != "" {
		return best
	}
	for _, pr := range fn.Params {
		if n := core.NamedOf(pr.Type()); n != nil && n.Obj().Pkg() != nil && (n.Obj().Pkg().Path() == pkgParser || n.Obj().Pkg().Path() == modLogical) {
			if _, isIface := n.Underlying().(*types.Interface); !isIface {
				return n.Obj().Name()
			}
		}
	}
	return ""
}

func ruleHintXfer(p *core.Program) []core.Obligation {
	const rule = "R-HINTXFER"
	var obs []core.Obligation
	fc, gc, err := referenceHintShape(p)
	if err != nil {
		return []core.Obligation{core.Ob(rule, "reference shape", "-", "", core.Lost, err.Error())}
	}
	// the expectations below are those of a reference whose helpers have exactly these case lists
	if strings.Join(fc, ",") != "AggregateExpr,BinaryExpr,Call" || strings.Join(gc, ",") != "AggregateExpr" {
		return []core.Obligation{core.Ob(rule, "reference shape", "-", "", core.Lost, fmt.Sprintf("the pinned extractFuncFromPath/extractGroupsFromPath have cases %v / %v; the rule's table was written for [AggregateExpr BinaryExpr Call] / [AggregateExpr]", fc, gc))}
	}
	obs = append(obs, core.Ob(rule, "reference shape", "-", "", core.Held, "extractFuncFromPath cases "+strings.Join(fc, ",")+"; extractGroupsFromPath cases "+strings.Join(gc, ",")))
	expectFunc := map[string]string{"Call": "set", "AggregateExpr": "set", "BinaryExpr": "reset"}
	expectGroup := func(kind string) string {
		if kind == "AggregateExpr" {
			return "set"
		}
		return "reset"
	}
	constrained := map[string]bool{"Call": true, "AggregateExpr": true, "BinaryExpr": true, "ParenExpr": true, "UnaryExpr": true, "StepInvariantExpr": true}

	newOp := p.Func("execution", "newOperator")
	if newOp == nil {
		return append(obs, core.Ob(rule, "execution.newOperator", "-", "", core.Lost, "not found"))
	}
	// planning functions: newOperator and the helpers that take hints and call it
	planners := map[*ssa.Function]bool{newOp: true}
	for _, fn := range p.Funcs {
		if core.Rel(fn.Pkg.Pkg.Path()) != "execution" {
			continue
		}
		hasHints := false
		for _, pr := range fn.Params {
			if core.TypeIs(pr.Type(), pkgStorage, "SelectHints") {
				hasHints = true
			}
		}
		if hasHints {
			planners[fn] = true
		}
	}
	// state of a hints field at an instruction inside fn: the last dominating store, else "inherit"
	stateAt := func(fn *ssa.Function, at ssa.Instruction, field string) string {
		state := "inherit"
		var best ssa.Instruction
		core.EachInstr(fn, func(b *ssa.BasicBlock, i int, ins ssa.Instruction) {
			st, ok := ins.(*ssa.Store)
			if !ok || !core.IsFieldOf(st.Addr, pkgStorage, "SelectHints", field) {
				return
			}
			if _, isLocal := st.Addr.(*ssa.FieldAddr).X.(*ssa.Alloc); !isLocal {
				return
			}
			if !core.InstrDominates(st, at) {
				return
			}
			if best != nil && !core.InstrDominates(best, st) {
				return
			}
			best = st
			if c, ok := st.Val.(*ssa.Const); ok && (c.Value == nil || c.Value.String() == `""` || c.Value.String() == "false") {
				state = "reset"
			} else {
				state = "set"
			}
		})
		return state
	}
	var planFns []*ssa.Function
	for fn := range planners {
		planFns = append(planFns, fn)
	}
	sort.Slice(planFns, func(i, j int) bool { return planFns[i].String() < planFns[j].String() })
	for _, fn := range planFns {
		core.EachInstr(fn, func(b *ssa.BasicBlock, i int, ins ssa.Instruction) {
			call, ok := ins.(*ssa.Call)
			if !ok || call.Call.StaticCallee() != newOp {
				return
			}
			kind := nodeKindAt(fn, call)
			if !constrained[kind] {
				return
			}
			for _, field := range []string{"Func", "Grouping", "By"} {
				got := stateAt(fn, call, field)
				// a helper inherits what its caller established before calling it
				if got == "inherit" && fn != newOp {
					for _, cs := range p.CallSitesOf(fn) {
						if cs == nil {
							continue
						}
						var at ssa.Instruction
						core.EachInstr(newOp, func(b *ssa.BasicBlock, i int, x ssa.Instruction) {
							if core.CallCommon(x) == cs {
								at = x
							}
						})
						if at != nil {
							got = stateAt(newOp, at, field)
						}
					}
				}
				want := "inherit"
				if field == "Func" {
					if w, ok := expectFunc[kind]; ok {
						want = w
					}
				} else {
					want = expectGroup(kind)
				}
				key := fmt.Sprintf("child of %s planned in %s: hints.%s", kind, fn.Name(), field)
				if got == want {
					obs = append(obs, core.Ob(rule, key, p.Pos(call.Pos()), core.FuncName(fn), core.Held, got))
				} else {
					obs = append(obs, core.Ob(rule, key, p.Pos(call.Pos()), core.FuncName(fn), core.Violated, fmt.Sprintf("hints.%s is %s for the children of a %s, the reference has it %s: the storage is told the wrong enclosing function/grouping for these selects", field, got, kind, want)))
				}
			}
		})
	}
	return obs
}

func ruleHintRange(p *core.Program) []core.Obligation {
	const rule = "R-HINTRANGE"
	var obs []core.Obligation
	for _, fn := range p.Funcs {
		if core.Rel(fn.Pkg.Pkg.Path()) != "execution" {
			continue
		}
		k := 0
		core.EachInstr(fn, func(b *ssa.BasicBlock, i int, ins ssa.Instruction) {
			call, ok := ins.(*ssa.Call)
			if !ok {
				return
			}
			name := core.CalleeName(&call.Call)
			if !strings.HasSuffix(name, "SelectorPool).GetSelector") && !strings.HasSuffix(name, "SelectorPool).GetFilteredSelector") {
				return
			}
			k++
			key := fmt.Sprintf("%s -> %s #%d", core.FuncName(fn), call.Call.StaticCallee().Name(), k)
			mint, maxt := call.Call.Args[1], call.Call.Args[2]
			// both extracts of one range computation
			e1, ok1 := mint.(*ssa.Extract)
			e2, ok2 := maxt.(*ssa.Extract)
			if !ok1 || !ok2 || e1.Tuple != e2.Tuple || e1.Index != 0 || e2.Index != 1 {
				obs = append(obs, core.Ob(rule, key, p.Pos(call.Pos()), core.FuncName(fn), core.Violated, "the select range is not the (start, end) pair of one range computation"))
				return
			}
			if c, ok := e1.Tuple.(*ssa.Call); !ok || !core.IsStatic(&c.Call, modExecution+".getTimeRangesForVectorSelector") {
				obs = append(obs, core.Ob(rule, key, p.Pos(call.Pos()), core.FuncName(fn), core.Undecided, "range does not come from getTimeRangesForVectorSelector"))
				return
			}
			// the last stores into hints.Start/End dominating the call store exactly these values
			okS, okE := false, false
			var lastS, lastE *ssa.Store
			core.EachInstr(fn, func(b *ssa.BasicBlock, i int, x ssa.Instruction) {
				st, ok := x.(*ssa.Store)
				if !ok || !core.InstrDominates(st, call) {
					return
				}
				if core.IsFieldOf(st.Addr, pkgStorage, "SelectHints", "Start") && (lastS == nil || core.InstrDominates(lastS, st)) {
					lastS = st
				}
				if core.IsFieldOf(st.Addr, pkgStorage, "SelectHints", "End") && (lastE == nil || core.InstrDominates(lastE, st)) {
					lastE = st
				}
			})
			okS = lastS != nil && lastS.Val == mint
			okE = lastE != nil && lastE.Val == maxt
			if okS && okE {
				obs = append(obs, core.Ob(rule, key, p.Pos(call.Pos()), core.FuncName(fn), core.Held, "hints.Start/End hold the very range passed to the selector"))
			} else {
				obs = append(obs, core.Ob(rule, key, p.Pos(call.Pos()), core.FuncName(fn), core.Violated, "hints.Start/End are not (re)assigned from the range passed to the selector: the select is issued with the range inherited from the enclosing expression"))
			}
		})
	}
	return obs
}

func ruleLinear(p *core.Program) []core.Obligation {
	const rule = "R-LINEAR"
	var obs []core.Obligation
	isOp := func(t types.Type) bool { return isVectorOperatorIface(t) && !isPointer(t) }
	for _, fn := range p.Funcs {
		if core.Rel(fn.Pkg.Pkg.Path()) != "execution" {
			continue
		}
		// operator values produced in this function
		var vals []ssa.Value
		core.EachInstr(fn, func(b *ssa.BasicBlock, i int, ins ssa.Instruction) {
			switch x := ins.(type) {
			case *ssa.Extract:
				if isOp(x.Type()) {
					vals = append(vals, x)
				}
			case *ssa.Call:
				if isOp(x.Type()) {
					vals = append(vals, x)
				}
			case *ssa.MakeInterface:
				if isOp(x.Type()) {
					vals = append(vals, x)
				}
			}
		})
		for vi, v := range vals {
			// consuming uses, following phis forward
			type use struct {
				ins ssa.Instruction
			}
			var uses []ssa.Instruction
			seen := map[ssa.Value]bool{}
			var walk func(x ssa.Value)
			walk = func(x ssa.Value) {
				if seen[x] {
					return
				}
				seen[x] = true
				for _, r := range core.Referrers(x) {
					switch y := r.(type) {
					case *ssa.Phi:
						walk(y)
					case *ssa.Call:
						for _, a := range y.Call.Args {
							if a == x {
								uses = append(uses, y)
							}
						}
					case *ssa.Store:
						if y.Val == x {
							uses = append(uses, y)
						}
					case *ssa.Return:
						uses = append(uses, y)
					case *ssa.MakeInterface, *ssa.ChangeInterface:
						walk(y.(ssa.Value))
					}
				}
			}
			walk(v)
			if len(uses) == 0 {
				continue
			}
			key := fmt.Sprintf("%s operator value #%d (%s)", core.FuncName(fn), vi, v.Name())
			bad := ""
			for i := 0; i < len(uses) && bad == ""; i++ {
				// the same instruction consuming the value twice (two arguments)
				if c, ok := uses[i].(*ssa.Call); ok {
					var opArgs []ssa.Value
					for _, a := range c.Call.Args {
						if seen[a] {
							opArgs = append(opArgs, a)
						}
					}
					for x := 0; x < len(opArgs); x++ {
						for y := x + 1; y < len(opArgs); y++ {
							if sameOnSomePath(opArgs[x], opArgs[y]) {
								bad = "passed twice to " + strings.ReplaceAll(core.CalleeName(&c.Call), core.Module+"/", "")
							}
						}
					}
				}
				for j := i + 1; j < len(uses) && bad == ""; j++ {
					a, b := uses[i], uses[j]
					if a == b {
						continue
					}
					if a.Block() == b.Block() || core.Reaches(a.Block(), b.Block()) || core.Reaches(b.Block(), a.Block()) {
						// a swap through phis consumes each value once per path: only flag when one use can follow the other without the value being redefined
						if _, isPhiFed := v.(*ssa.Phi); isPhiFed {
							continue
						}
						bad = fmt.Sprintf("consumed at %s and again at %s", p.Pos(a.Pos()), p.Pos(b.Pos()))
					}
				}
			}
			if bad != "" {
				obs = append(obs, core.Ob(rule, key, p.Pos(v.Pos()), core.FuncName(fn), core.Violated, "an operator is "+bad+": two consumers would pull batches from one stream, each seeing only part of it"))
			} else {
				obs = append(obs, core.Ob(rule, key, p.Pos(v.Pos()), core.FuncName(fn), core.Held, fmt.Sprintf("%d consuming use(s), mutually exclusive", len(uses))))
			}
		}
	}
	return obs
}

// sameOnSomePath reports whether two argument values of one call can be the same operator on some
// path: identical values, or phis of one block that select the same value on the same incoming edge.
func sameOnSomePath(a, b ssa.Value) bool {
	if a == b {
		return true
	}
	pa, okA := a.(*ssa.Phi)
	pb, okB := b.(*ssa.Phi)
	if okA && okB && pa.Block() == pb.Block() {
		for k := range pa.Edges {
			if sameOnSomePath(pa.Edges[k], pb.Edges[k]) {
				return true
			}
		}
		return false
	}
	if okA && !okB {
		for _, e := range pa.Edges {
			if e == b {
				return true
			}
		}
	}
	if okB && !okA {
		for _, e := range pb.Edges {
			if e == a {
				return true
			}
		}
	}
	return false
}

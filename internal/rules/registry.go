// Package rules holds the repository-specific static rules of pqlint.
package rules

import (
	"sort"
	"strings"

	"verif/internal/core"
)

// Rule is one static rule: it enumerates its instances from the program and returns one
// obligation per instance.
type Rule struct {
	ID  string
	Doc string // the rule applied, in one or two sentences (copied into the evidence)
	// Min is the number of instances confirmed by hand on the pinned tree. Finding fewer
	// fails the check: a rule that matches nothing passes vacuously forever.
	Min int
	Run func(p *core.Program) []core.Obligation
}

var registry = map[string]*Rule{}

func register(r *Rule) { registry[r.ID] = r }

// Get returns the rule with the given id.
func Get(id string) *Rule { return registry[id] }

// All returns all rule ids, sorted.
func All() []string {
	var ids []string
	for id := range registry {
		ids = append(ids, id)
	}
	sort.Strings(ids)
	return ids
}

// Property describes what is decided for one property.
type Property struct {
	ID    string
	Level string
	Rules []string
	// Scope narrows a rule shared with other properties to the constructs this property is about:
	// rule id -> substrings of the obligation key (any match keeps the obligation). A rule without
	// an entry contributes all its obligations.
	Scope       map[string][]string
	Explanation string   // what the rules decide (the structural clauses)
	NotDecided  []string // what is not decided: copied into evidence.assumptions
}

// InScope reports whether the obligation of the rule belongs to the property.
func (p *Property) InScope(rule string, o core.Obligation) bool {
	subs, ok := p.Scope[rule]
	if !ok {
		return true
	}
	for _, s := range subs {
		if strings.Contains(o.Key, s) {
			return true
		}
	}
	return false
}

var properties = map[string]*Property{}

func property(p *Property) { properties[p.ID] = p }

// PropertyOf returns the description of a claimed property (nil if not claimed).
func PropertyOf(id string) *Property { return properties[id] }

// Properties returns the ids of all claimed properties, sorted.
func Properties() []string {
	var ids []string
	for id := range properties {
		ids = append(ids, id)
	}
	sort.Strings(ids)
	return ids
}

// Paths of external packages the rules refer to.
const (
	pkgStorage  = "github.com/prometheus/prometheus/storage"
	pkgChunkenc = "github.com/prometheus/prometheus/tsdb/chunkenc"
	pkgPromql   = "github.com/prometheus/prometheus/promql"
	pkgParser   = "github.com/prometheus/prometheus/promql/parser"
	pkgLabels   = "github.com/prometheus/prometheus/model/labels"
	pkgValue    = "github.com/prometheus/prometheus/model/value"
	pkgErrors   = "github.com/efficientgo/core/errors"

	modExecution = core.Module + "/execution"
	modModel     = core.Module + "/execution/model"
	modFunction  = core.Module + "/execution/function"
	modParse     = core.Module + "/execution/parse"
	modLogical   = core.Module + "/logicalplan"
	modEngine    = core.Module + "/engine"
	modQuery     = core.Module + "/query"
	modWorker    = core.Module + "/worker"
	modAPI       = core.Module + "/api"
)

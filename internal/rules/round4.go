package rules

import (
	"fmt"
	"go/ast"
	"go/token"
	"go/types"
	"strings"

	"golang.org/x/tools/go/ssa"

	"verif/internal/core"
)

// Rules added while re-reading the misses of rounds 2 and 3 (see DESIGN.md, "Validation").

func init() {
	register(&Rule{ID: "R-JOIN", Min: 3, Run: ruleJoin,
		Doc: "a goroutine that can reach the storage (an operator's Series/Next, a querier, an iterator) is joined by the function that started it on every path to a return: the path passes through a plain receive from the channel the goroutine closes on exit, or through Wait() of the WaitGroup it releases. A receive that is one case of a select joins only on the branch of that case. Otherwise Exec can return while a select is still running and its querier still open"})

	mutant(Mutant{Rule: "R-JOIN", Name: "rhs-failure-leaves-lhs-loader-running", File: "execution/binary/vector.go",
		Old: "\t\t// Wait for the loader of the left-hand side: it must not outlive the query.\n\t\t<-errChan\n", New: "", Expect: "initOutputs"})
	mutant(Mutant{Rule: "R-JOIN", Name: "consumer-stops-waiting-on-cancel", File: "execution/exchange/concurrent.go",
		Old: "\tr, ok := <-c.buffer\n\tif !ok {\n\t\treturn nil, nil\n\t}\n", New: "\tvar r maybeStepVector\n\tvar ok bool\n\tselect {\n\tcase <-ctx.Done():\n\t\treturn nil, ctx.Err()\n\tcase r, ok = <-c.buffer:\n\t}\n\tif !ok {\n\t\treturn nil, nil\n\t}\n", Expect: "concurrencyOperator).Next"})
	mutant(Mutant{Rule: "R-JOIN", Name: "coalesce-first-error-wins", File: "execution/exchange/coalesce.go",
		Old: "\tc.wg.Wait()\n\tclose(errChan)\n\n\tif err := errChan.getError(); err != nil {\n\t\treturn nil, err\n\t}\n\n\tif out == nil {",
		New: "\tif len(errChan) > 0 {\n\t\treturn nil, <-errChan\n\t}\n\tc.wg.Wait()\n\tclose(errChan)\n\n\tif err := errChan.getError(); err != nil {\n\t\treturn nil, err\n\t}\n\n\tif out == nil {", Expect: "coalesceOperator).Next"})
}

// joinSignal names the object through which a goroutine announces that it has finished: a variable of
// the spawner captured by the goroutine's closure (alloc), or a struct field (field).
type joinSignal struct {
	alloc ssa.Value // the spawner's Alloc (or other value) bound to the closure's free variable
	field *types.Var
	what  string
}

func fieldVarOf(v ssa.Value) *types.Var {
	fa, ok := v.(*ssa.FieldAddr)
	if !ok {
		return nil
	}
	pt, ok := fa.X.Type().Underlying().(*types.Pointer)
	if !ok {
		return nil
	}
	st, ok := pt.Elem().Underlying().(*types.Struct)
	if !ok {
		return nil
	}
	return st.Field(fa.Field)
}

// signalOperand resolves the operand of close(x) / wg.Done() inside the goroutine body to a joinSignal.
// bindings maps the body's free variables to the spawner's values (nil for a named function).
func signalOperand(x ssa.Value, body *ssa.Function, bindings, goArgs []ssa.Value, what string) *joinSignal {
	if u, ok := x.(*ssa.UnOp); ok && u.Op == token.MUL {
		x = u.X
	}
	switch y := x.(type) {
	case *ssa.FreeVar:
		for i, fv := range body.FreeVars {
			if fv == y && i < len(bindings) {
				return &joinSignal{alloc: bindings[i], what: what}
			}
		}
	case *ssa.Alloc:
		// a parameter spilled into a local because a closure of the goroutine captures it
		var prm *ssa.Parameter
		stores := 0
		for _, r := range core.Referrers(y) {
			if st, ok := r.(*ssa.Store); ok && st.Addr == y {
				stores++
				prm, _ = st.Val.(*ssa.Parameter)
			}
		}
		if stores == 1 && prm != nil {
			return signalOperand(prm, body, bindings, goArgs, what)
		}
	case *ssa.Parameter:
		// a named goroutine function that is handed the channel / WaitGroup: go o.load(ctx, &dst, errChan)
		for i, prm := range body.Params {
			if prm == y && i < len(goArgs) {
				a := goArgs[i]
				for {
					if ct, ok := a.(*ssa.ChangeType); ok {
						a = ct.X
						continue
					}
					break
				}
				return &joinSignal{alloc: a, what: what}
			}
		}
	case *ssa.FieldAddr:
		if f := fieldVarOf(y); f != nil {
			return &joinSignal{field: f, what: what}
		}
	}
	return nil
}

func (s *joinSignal) matches(v ssa.Value) bool {
	if u, ok := v.(*ssa.UnOp); ok && u.Op == token.MUL {
		v = u.X
	}
	if s.alloc != nil {
		return v == s.alloc
	}
	if f := fieldVarOf(v); f != nil {
		return f == s.field
	}
	return false
}

// reachesStorage reports whether the goroutine entry can synchronously reach user-supplied storage code.
func reachesStorage(p *core.Program, e *ssa.Function) bool {
	hit := false
	for f := range syncReach(p, e, nil) {
		core.EachInstr(f, func(b *ssa.BasicBlock, i int, ins ssa.Instruction) {
			if _, ok := callbackSite(ins); ok {
				hit = true
			}
		})
		if hit {
			return true
		}
	}
	return false
}

func ruleJoin(p *core.Program) []core.Obligation {
	const rule = "R-JOIN"
	var obs []core.Obligation
	for _, fn := range p.Funcs {
		k := 0
		core.EachInstr(fn, func(b *ssa.BasicBlock, i int, ins ssa.Instruction) {
			g, ok := ins.(*ssa.Go)
			if !ok {
				return
			}
			k++
			for _, e := range goEntries(p, g) {
				if !p.InRepo(e) || e.Blocks == nil || !reachesStorage(p, e) {
					continue
				}
				// where the goroutine is started from the point of view of the caller: the go statement, or
				// the once.Do(...) whose closure contains it
				spawner, spawn := fn, ssa.Instruction(g)
				if fn.Parent() != nil {
					core.EachInstr(fn.Parent(), func(_ *ssa.BasicBlock, _ int, x ssa.Instruction) {
						mc, ok := x.(*ssa.MakeClosure)
						if !ok || mc.Fn != fn {
							return
						}
						for _, r := range core.Referrers(mc) {
							if cc := core.CallCommon(r); cc != nil && core.IsStatic(cc, "(*sync.Once).Do") {
								spawner, spawn = fn.Parent(), r
							}
						}
					})
				}
				key := fmt.Sprintf("%s joins go %s", core.FuncName(spawner), core.FuncName(e))
				var bindings, goArgs []ssa.Value
				if mc, ok := g.Call.Value.(*ssa.MakeClosure); ok && spawner == fn {
					bindings = mc.Bindings
				}
				if g.Call.StaticCallee() == e && spawner == fn {
					goArgs = g.Call.Args
				}
				var sigs []*joinSignal
				core.EachInstr(e, func(_ *ssa.BasicBlock, _ int, x ssa.Instruction) {
					d, ok := x.(*ssa.Defer)
					if !ok {
						return
					}
					if bi, ok := d.Call.Value.(*ssa.Builtin); ok && bi.Name() == "close" && len(d.Call.Args) == 1 {
						if s := signalOperand(d.Call.Args[0], e, bindings, goArgs, "closes its channel on exit"); s != nil {
							sigs = append(sigs, s)
						}
					}
					if core.IsStatic(&d.Call, "(*sync.WaitGroup).Done") && len(d.Call.Args) == 1 {
						if s := signalOperand(d.Call.Args[0], e, bindings, goArgs, "releases its WaitGroup on exit"); s != nil {
							sigs = append(sigs, s)
						}
					}
				})
				if len(sigs) == 0 {
					obs = append(obs, core.Ob(rule, key, p.Pos(g.Pos()), core.FuncName(spawner), core.Violated,
						"the goroutine reaches the storage but announces its end neither by a deferred close of a channel nor by a deferred WaitGroup.Done: its spawner cannot wait for it"))
					continue
				}
				var isJoin func(x ssa.Instruction) bool
				// a helper of the repo that waits on every path (e.g. func (c *op) wait() { c.wg.Wait() })
				helperJoins := func(callee *ssa.Function) bool {
					if callee == nil || !p.InRepo(callee) || callee.Blocks == nil {
						return false
					}
					var joins []ssa.Instruction
					core.EachInstr(callee, func(_ *ssa.BasicBlock, _ int, x ssa.Instruction) {
						if _, isCall := x.(*ssa.Call); isCall && x.(*ssa.Call).Call.StaticCallee() != nil && p.InRepo(x.(*ssa.Call).Call.StaticCallee()) {
							return // one level only
						}
						if isJoin(x) {
							joins = append(joins, x)
						}
					})
					if len(joins) == 0 {
						return false
					}
					all := true
					core.EachInstr(callee, func(b *ssa.BasicBlock, _ int, x ssa.Instruction) {
						r, ok := x.(*ssa.Return)
						if !ok || b == callee.Recover {
							return
						}
						dominated := false
						for _, j := range joins {
							if core.InstrDominates(j, r) {
								dominated = true
							}
						}
						if !dominated {
							all = false
						}
					})
					return all
				}
				fieldSignals := false
				for _, s := range sigs {
					if s.field != nil {
						fieldSignals = true
					}
				}
				isJoin = func(x ssa.Instruction) bool {
					switch y := x.(type) {
					case *ssa.UnOp:
						if y.Op == token.ARROW {
							for _, s := range sigs {
								if s.matches(y.X) {
									return true
								}
							}
						}
					case *ssa.Call:
						if core.IsStatic(&y.Call, "(*sync.WaitGroup).Wait") && len(y.Call.Args) == 1 {
							for _, s := range sigs {
								if s.matches(y.Call.Args[0]) {
									return true
								}
							}
						}
						if fieldSignals && y.Parent() == spawner && helperJoins(y.Call.StaticCallee()) {
							return true
						}
						// the signal channel handed to a helper that receives from it on every path
						// (c.buffer.receive() on a named channel type)
						if callee := y.Call.StaticCallee(); callee != nil && callee.Blocks != nil && p.InRepo(callee) {
							for ai, a := range y.Call.Args {
								if ai >= len(callee.Params) {
									break
								}
								hit := false
								for _, s := range sigs {
									if s.matches(a) {
										hit = true
									}
								}
								if hit && receivesOnEveryPath(callee, callee.Params[ai]) {
									return true
								}
							}
						}
					}
					return false
				}
				// a select joins on the branch taken when the case receiving from the signal channel fired
				joinEdge := func(from *ssa.BasicBlock, succ int) bool {
					iff := core.IfOf(from)
					if iff == nil || succ != 0 {
						return false
					}
					bo, ok := iff.Cond.(*ssa.BinOp)
					if !ok || bo.Op != token.EQL {
						return false
					}
					ex, ok := bo.X.(*ssa.Extract)
					if !ok || ex.Index != 0 {
						return false
					}
					sel, ok := ex.Tuple.(*ssa.Select)
					if !ok {
						return false
					}
					n, ok := core.ConstInt(bo.Y)
					if !ok || int(n) >= len(sel.States) || n < 0 {
						return false
					}
					st := sel.States[n]
					if st.Dir != types.RecvOnly {
						return false
					}
					for _, s := range sigs {
						if s.matches(st.Chan) {
							return true
						}
					}
					return false
				}
				bad := unjoinedReturn(spawner, spawn, isJoin, joinEdge)
				// a start-up helper (func (c *op) start(ctx) { go c.pull(ctx) ... }) returns at once by design: when
				// the goroutine signals through a field, the wait is looked for at the helper's call sites
				// (again through a once.Do closure)
				for lift := 0; bad != nil && fieldSignals && lift < 2; lift++ {
					if spawner.Parent() != nil || token.IsExported(spawner.Name()) {
						break
					}
					type siteT struct {
						fn *ssa.Function
						at ssa.Instruction
					}
					var sites []siteT
					for _, caller := range p.Funcs {
						core.EachInstr(caller, func(_ *ssa.BasicBlock, _ int, x ssa.Instruction) {
							if c, ok := x.(*ssa.Call); ok && c.Call.StaticCallee() == spawner {
								sites = append(sites, siteT{caller, x})
							}
						})
					}
					if len(sites) != 1 {
						break
					}
					st := sites[0]
					if st.fn.Parent() != nil {
						// the closure handed to once.Do in the parent
						lifted := false
						core.EachInstr(st.fn.Parent(), func(_ *ssa.BasicBlock, _ int, x ssa.Instruction) {
							mc, ok := x.(*ssa.MakeClosure)
							if !ok || mc.Fn != st.fn {
								return
							}
							for _, r := range core.Referrers(mc) {
								if cc := core.CallCommon(r); cc != nil && core.IsStatic(cc, "(*sync.Once).Do") {
									st, lifted = siteT{st.fn.Parent(), r}, true
								}
							}
						})
						if !lifted {
							break
						}
					}
					spawner, spawn = st.fn, st.at
					key = fmt.Sprintf("%s joins go %s", core.FuncName(spawner), core.FuncName(e))
					bad = unjoinedReturn(spawner, spawn, isJoin, joinEdge)
				}
				if bad != nil {
					obs = append(obs, core.Ob(rule, key, p.Pos(g.Pos()), core.FuncName(spawner), core.Violated,
						"the return at "+p.Pos(bad.Pos())+" can be reached from the start of the goroutine without waiting for it ("+sigs[0].what+"): the function, and with it Exec, can return while the goroutine is still inside the storage with its querier open"))
				} else {
					obs = append(obs, core.Ob(rule, key, p.Pos(g.Pos()), core.FuncName(spawner), core.Held, "every path from the start of the goroutine to a return waits for it ("+sigs[0].what+")"))
				}
			}
		})
	}
	return obs
}

// receivesOnEveryPath: every return of fn is dominated by a receive from the channel parameter prm.
func receivesOnEveryPath(fn *ssa.Function, prm *ssa.Parameter) bool {
	var recvs []ssa.Instruction
	core.EachInstr(fn, func(_ *ssa.BasicBlock, _ int, x ssa.Instruction) {
		if u, ok := x.(*ssa.UnOp); ok && u.Op == token.ARROW && u.X == ssa.Value(prm) {
			recvs = append(recvs, u)
		}
	})
	if len(recvs) == 0 {
		return false
	}
	all := true
	core.EachInstr(fn, func(b *ssa.BasicBlock, _ int, x ssa.Instruction) {
		r, ok := x.(*ssa.Return)
		if !ok || b == fn.Recover {
			return
		}
		dom := false
		for _, rc := range recvs {
			if core.InstrDominates(rc, r) {
				dom = true
			}
		}
		if !dom {
			all = false
		}
	})
	return all
}

// unjoinedReturn searches a path from just after spawn to a return instruction that passes no join.
func unjoinedReturn(fn *ssa.Function, spawn ssa.Instruction, isJoin func(ssa.Instruction) bool, joinEdge func(*ssa.BasicBlock, int) bool) *ssa.Return {
	// scan returns (joined, return-found)
	scan := func(b *ssa.BasicBlock, from int) (bool, *ssa.Return) {
		for _, x := range b.Instrs[from:] {
			if isJoin(x) {
				return true, nil
			}
			if r, ok := x.(*ssa.Return); ok {
				return false, r
			}
		}
		return false, nil
	}
	seen := map[*ssa.BasicBlock]bool{}
	var work []*ssa.BasicBlock
	push := func(b *ssa.BasicBlock) {
		for i, s := range b.Succs {
			if joinEdge(b, i) || seen[s] {
				continue
			}
			seen[s] = true
			work = append(work, s)
		}
	}
	joined, ret := scan(spawn.Block(), core.InstrIndex(spawn)+1)
	if ret != nil {
		return ret
	}
	if !joined {
		push(spawn.Block())
	}
	for len(work) > 0 {
		b := work[len(work)-1]
		work = work[:len(work)-1]
		if b == fn.Recover {
			continue
		}
		joined, ret := scan(b, 0)
		if ret != nil {
			return ret
		}
		if !joined {
			push(b)
		}
	}
	return nil
}

// ---------------------------------------------------------------------------------------------

func init() {
	register(&Rule{ID: "R-BATCHIDX", Min: 4, Run: ruleBatchIdx,
		Doc: "a batch of step vectors obtained from an operator's Next is indexed only where a test of that batch's length has decided the index is in range (i < len(batch), len(batch) > i, or the weaker len(batch) > 0 used where batches are aligned): an operand that has ended, or that delivers no step for a batch (scalar() of nothing), hands back a shorter or nil batch and the unguarded index panics instead of yielding NaN"})

	mutant(Mutant{Rule: "R-BATCHIDX", Name: "scalar-operand-hoisted-without-bound", File: "execution/binary/scalar.go",
		Old: "\t\t\tif len(scalarIn) > v && len(scalarIn[v].Samples) > 0 {", New: "\t\t\tif len(scalarIn[v].Samples) > 0 {", Expect: "scalarOperator"})
	mutant(Mutant{Rule: "R-BATCHIDX", Name: "parameter-batch-off-by-one", File: "execution/aggregate/khashaggregate.go",
		Old: "\t\tif i < len(args) {\n", New: "\t\tif i <= len(args) {\n", Expect: "kAggregate"})
	mutant(Mutant{Rule: "R-BATCHIDX", Name: "scalar-argument-batch-assumed-present", File: "execution/function/operator.go",
		Old: "\t\t\tif len(scalarVectors) > 0 && len(scalarVectors[batchIndex].Samples) > 0 {", New: "\t\t\tif len(scalarVectors[batchIndex].Samples) > 0 {", Expect: "functionOperator"})
}

func isStepVectorSlice(t types.Type) bool {
	s, ok := t.Underlying().(*types.Slice)
	return ok && core.TypeIs(s.Elem(), modModel, "StepVector")
}

// fromNext reports whether v is (a phi/copy of) the batch result of a VectorOperator.Next call.
func fromNext(v ssa.Value) bool {
	hit := false
	for x := range core.PhiClosure(v) {
		ex, ok := x.(*ssa.Extract)
		if !ok || ex.Index != 0 {
			continue
		}
		if c, ok := ex.Tuple.(*ssa.Call); ok && c.Call.IsInvoke() && c.Call.Method.Name() == "Next" && isVectorOperatorIface(c.Call.Value.Type()) {
			hit = true
		}
	}
	return hit
}

func ruleBatchIdx(p *core.Program) []core.Obligation {
	const rule = "R-BATCHIDX"
	var obs []core.Obligation
	for _, fn := range p.Funcs {
		k := 0
		core.EachInstr(fn, func(b *ssa.BasicBlock, i int, ins ssa.Instruction) {
			ia, ok := ins.(*ssa.IndexAddr)
			if !ok || !isStepVectorSlice(ia.X.Type()) || !fromNext(ia.X) {
				return
			}
			k++
			key := fmt.Sprintf("%s indexes a batch obtained from Next #%d", core.FuncName(fn), k)
			if batchLenGuarded(fn, ia.X, ia) {
				obs = append(obs, core.Ob(rule, key, p.Pos(ia.Pos()), core.FuncName(fn), core.Held, "on the in-range branch of a test of the batch's length"))
			} else {
				obs = append(obs, core.Ob(rule, key, p.Pos(ia.Pos()), core.FuncName(fn), core.Violated, "the batch is indexed without a test of its length having decided that the index is in range: when the operand has ended or delivers no step vectors the index panics and the query fails where the reference yields NaN / nothing"))
			}
		})
	}
	return obs
}

// batchLenGuarded: an If comparing len(s) with something, on whose in-range branch use lies.
func batchLenGuarded(fn *ssa.Function, s ssa.Value, use ssa.Instruction) bool {
	isLen := func(v ssa.Value) bool {
		c, ok := v.(*ssa.Call)
		if !ok {
			return false
		}
		bi, ok := c.Call.Value.(*ssa.Builtin)
		if !ok || bi.Name() != "len" {
			return false
		}
		a := c.Call.Args[0]
		if core.SameExpr(a, s) {
			return true
		}
		// the same batch behind a phi (loop-carried copy)
		pc := core.PhiClosure(s)
		return pc[a]
	}
	for _, b := range fn.Blocks {
		iff := core.IfOf(b)
		if iff == nil {
			continue
		}
		bo, ok := iff.Cond.(*ssa.BinOp)
		if !ok {
			continue
		}
		op, other := bo.Op, bo.Y
		switch {
		case isLen(bo.X):
		case isLen(bo.Y):
			other = bo.X
			switch op {
			case token.LSS:
				op = token.GTR
			case token.GTR:
				op = token.LSS
			case token.LEQ:
				op = token.GEQ
			case token.GEQ:
				op = token.LEQ
			}
		default:
			continue
		}
		// now: len(s) op other
		c, isConst := core.ConstInt(other)
		succ := -1
		switch op {
		case token.GTR: // len > e
			succ = 0
		case token.LEQ: // len <= e  -> in range on the else branch
			succ = 1
		case token.GEQ: // len >= c, c >= 1
			if isConst && c >= 1 {
				succ = 0
			}
		case token.LSS: // len < c, c >= 1 -> else branch
			if isConst && c >= 1 {
				succ = 1
			}
		case token.NEQ:
			if isConst && c == 0 {
				succ = 0
			}
		case token.EQL:
			if isConst && c == 0 {
				succ = 1
			}
		}
		if succ >= 0 && core.BranchDominates(b, succ, use.Block()) {
			return true
		}
	}
	return false
}

// ---------------------------------------------------------------------------------------------

func init() {
	register(&Rule{ID: "R-VALIDEVERY", Min: 1, Run: ruleValidEvery,
		Doc: "a per-step validation of a run-time parameter (a test of a float value inside the per-step loop whose failing branch returns an error, e.g. the k of topk) is passed on every path through an iteration: no fast path (continue) in front of it can skip a step, because the reference engine validates the parameter at every step whatever the operand holds"})

	mutant(Mutant{Rule: "R-VALIDEVERY", Name: "empty-step-fast-path-before-validation", File: "execution/aggregate/khashaggregate.go",
		Old:    "\t\t// Same parameter validation as in the Prometheus engine.\n",
		New:    "\t\tif len(vector.Samples) == 0 {\n\t\t\tresult = append(result, a.vectorPool.GetStepVector(vector.T))\n\t\t\ta.next.GetPool().PutStepVector(vector)\n\t\t\tcontinue\n\t\t}\n\t\t// Same parameter validation as in the Prometheus engine.\n",
		Expect: "kAggregate"})
}

func ruleValidEvery(p *core.Program) []core.Obligation {
	const rule = "R-VALIDEVERY"
	var obs []core.Obligation
	errT := types.Universe.Lookup("error").Type()
	for _, fn := range p.Funcs {
		if fn.Pkg == nil || !hasPrefixRel(fn, "execution") {
			continue
		}
		loops := core.LoopBodies(fn)
		if len(loops) == 0 {
			continue
		}
		k := 0
		for _, b := range fn.Blocks {
			iff := core.IfOf(b)
			if iff == nil {
				continue
			}
			cond, _ := core.StripNot(iff.Cond)
			call, ok := cond.(*ssa.Call)
			if !ok || len(call.Call.Args) != 1 || !isFloatType(call.Call.Args[0].Type()) {
				continue
			}
			callee := call.Call.StaticCallee()
			if callee == nil || !(p.InRepo(callee) || core.IsStatic(&call.Call, "math.IsNaN") || core.IsStatic(&call.Call, "math.IsInf")) {
				continue
			}
			// one branch returns a non-nil error straight away
			fails := false
			for _, s := range b.Succs {
				if len(s.Instrs) == 0 {
					continue
				}
				for _, x := range s.Instrs {
					ret, ok := x.(*ssa.Return)
					if !ok {
						continue
					}
					rs := core.RetResults(ret)
					if len(rs) > 0 && types.Identical(rs[len(rs)-1].Type(), errT) && !core.IsNilConst(rs[len(rs)-1]) {
						fails = true
					}
				}
			}
			if !fails {
				continue
			}
			// the innermost loop around the test, and a loop-variant operand
			var header *ssa.BasicBlock
			var body map[*ssa.BasicBlock]bool
			for h, bd := range loops {
				if bd[b] && (body == nil || len(bd) < len(body)) {
					header, body = h, bd
				}
			}
			if body == nil {
				continue
			}
			k++
			key := fmt.Sprintf("%s validates %s at every step #%d", core.FuncName(fn), core.FuncName(callee), k)
			// a path header -> ... -> header inside the loop that avoids b
			seen := map[*ssa.BasicBlock]bool{header: true}
			work := []*ssa.BasicBlock{header}
			skipped := false
			for len(work) > 0 && !skipped {
				x := work[len(work)-1]
				work = work[:len(work)-1]
				for _, s := range x.Succs {
					if !body[s] || s == b {
						continue
					}
					if s == header {
						skipped = true
						break
					}
					if !seen[s] {
						seen[s] = true
						work = append(work, s)
					}
				}
			}
			if skipped {
				obs = append(obs, core.Ob(rule, key, p.Pos(call.Pos()), core.FuncName(fn), core.Violated, "an iteration of the per-step loop can complete without passing the validation: at such a step an invalid parameter (NaN, out of range) is accepted silently where the reference engine fails the query"))
			} else {
				obs = append(obs, core.Ob(rule, key, p.Pos(call.Pos()), core.FuncName(fn), core.Held, "every path through an iteration passes the validation"))
			}
		}
	}
	return obs
}

func hasPrefixRel(fn *ssa.Function, prefix string) bool {
	rel := core.Rel(fn.Pkg.Pkg.Path())
	return len(rel) >= len(prefix) && rel[:len(prefix)] == prefix
}

// ---------------------------------------------------------------------------------------------

func init() {
	register(&Rule{ID: "R-MEMOKEY", Min: 2, Run: ruleMemoKey,
		Doc: "every entry the selector pool memoises is keyed by everything it was built from: each parameter of the pool method that flows into the stored value (directly, or through another memoised entry it wraps) also flows into the key. Exempt: step (one step per query, and part of the hashed hints). Otherwise two different selects of one query collide and one of them reads the other's series"})

	mutant(Mutant{Rule: "R-MEMOKEY", Name: "filtered-selector-memoised-by-filter-only", File: "execution/storage/pool.go",
		Old:    "\treturn NewFilteredSelector(p.selectors[key], NewFilter(filters))\n",
		New:    "\tfilterKey := hashMatchers(filters, mint, maxt, hints)\n\tif _, ok := p.selectors[filterKey]; !ok {\n\t\tp.selectors[filterKey] = &seriesSelector{storage: p.queryable, mint: mint, maxt: maxt, step: step, matchers: append(matchers[:len(matchers):len(matchers)], filters...), hints: hints}\n\t}\n\treturn NewFilteredSelector(p.selectors[key], NewFilter(filters))\n",
		Expect: "GetFilteredSelector"})
	mutant(Mutant{Rule: "R-MEMOKEY", Name: "selector-keyed-without-hints", File: "execution/storage/pool.go",
		Old:    "func (p *SelectorPool) GetSelector(mint, maxt, step int64, matchers []*labels.Matcher, hints storage.SelectHints) SeriesSelector {\n\tkey := hashMatchers(matchers, mint, maxt, hints)",
		New:    "func (p *SelectorPool) GetSelector(mint, maxt, step int64, matchers []*labels.Matcher, hints storage.SelectHints) SeriesSelector {\n\tkey := hashMatchers(matchers, mint, maxt, storage.SelectHints{})",
		Expect: "GetSelector"})
}

func ruleMemoKey(p *core.Program) []core.Obligation {
	const rule = "R-MEMOKEY"
	var obs []core.Obligation
	exempt := map[string]string{"step": "one step per query; also hashed as hints.Step"}
	paramsOf := func(v ssa.Value) map[*ssa.Parameter]bool {
		out := map[*ssa.Parameter]bool{}
		core.BackSlice(v, func(x ssa.Value) bool {
			if pp, ok := x.(*ssa.Parameter); ok {
				out[pp] = true
			}
			// a composite literal: follow the stores into its fields
			if a, ok := x.(*ssa.Alloc); ok {
				for _, r := range core.Referrers(a) {
					if fa, ok := r.(*ssa.FieldAddr); ok {
						for _, rr := range core.Referrers(fa) {
							if st, ok := rr.(*ssa.Store); ok && st.Addr == fa {
								for q := range paramsOfShallow(st.Val) {
									out[q] = true
								}
							}
						}
					}
				}
			}
			return true
		})
		return out
	}
	for _, fn := range p.Funcs {
		n := recvNamed(fn)
		if n == nil || n.Obj().Name() != "SelectorPool" || n.Obj().Pkg().Path() != core.Module+"/execution/storage" {
			continue
		}
		k := 0
		core.EachInstr(fn, func(b *ssa.BasicBlock, i int, ins ssa.Instruction) {
			mu, ok := ins.(*ssa.MapUpdate)
			if !ok {
				return
			}
			k++
			key := fmt.Sprintf("%s memoises an entry #%d", core.FuncName(fn), k)
			kp, vp := paramsOf(mu.Key), paramsOf(mu.Value)
			var missing []string
			for q := range vp {
				if kp[q] || (len(fn.Params) > 0 && q == fn.Params[0]) {
					continue
				}
				if _, ok := exempt[q.Name()]; ok {
					continue
				}
				missing = append(missing, q.Name())
			}
			if len(missing) > 0 {
				sortStrings(missing)
				obs = append(obs, core.Ob(rule, key, p.Pos(mu.Pos()), core.FuncName(fn), core.Violated, fmt.Sprintf("the stored value depends on %v, the key does not: two calls that differ only there share one entry", missing)))
			} else {
				obs = append(obs, core.Ob(rule, key, p.Pos(mu.Pos()), core.FuncName(fn), core.Held, "every parameter the value is built from is part of the key"))
			}
		})
	}
	return obs
}

func paramsOfShallow(v ssa.Value) map[*ssa.Parameter]bool {
	out := map[*ssa.Parameter]bool{}
	core.BackSlice(v, func(x ssa.Value) bool {
		if pp, ok := x.(*ssa.Parameter); ok {
			out[pp] = true
		}
		return true
	})
	return out
}

func sortStrings(s []string) {
	for i := 1; i < len(s); i++ {
		for j := i; j > 0 && s[j] < s[j-1]; j-- {
			s[j], s[j-1] = s[j-1], s[j]
		}
	}
}

// ---------------------------------------------------------------------------------------------

func init() {
	register(&Rule{ID: "R-MATCHPOS", Min: 3, Run: ruleMatchPos,
		Doc: "a list of label matchers is a set: it is never accessed at a constant position (m[0], m[1:]). Which matcher comes first depends on how the query was written and on whether the sorting optimizer ran, and a selector need not have a metric-name matcher at all; matchers are found by name"})

	mutant(Mutant{Rule: "R-MATCHPOS", Name: "name-matcher-assumed-first", File: "logicalplan/merge_selects.go",
		Old:    "\t\t\tfilters := make([]*labels.Matcher, len(e.LabelMatchers))\n\t\t\tcopy(filters, e.LabelMatchers)\n",
		New:    "\t\t\tfilters := make([]*labels.Matcher, len(e.LabelMatchers)-1)\n\t\t\tcopy(filters, e.LabelMatchers[1:])\n",
		Expect: "replaceMatchers"})
}

func ruleMatchPos(p *core.Program) []core.Obligation {
	const rule = "R-MATCHPOS"
	var obs []core.Obligation
	for _, fn := range p.Funcs {
		k := 0
		core.EachInstr(fn, func(b *ssa.BasicBlock, i int, ins ssa.Instruction) {
			var bad string
			switch x := ins.(type) {
			case *ssa.IndexAddr:
				if !isMatcherSlice(x.X.Type()) {
					return
				}
				// a freshly made slice that is being filled is not a matcher list yet
				if _, isMake := x.X.(*ssa.MakeSlice); isMake {
					return
				}
				if _, ok := core.ConstInt(x.Index); ok {
					bad = "indexed at a constant position"
				}
			case *ssa.Slice:
				if !isMatcherSlice(x.X.Type()) {
					return
				}
				if x.Low != nil {
					if c, ok := core.ConstInt(x.Low); ok && c != 0 {
						bad = "sliced from a constant position"
					}
				}
				if x.High != nil {
					if c, ok := core.ConstInt(x.High); ok && c != 0 {
						bad = "cut at a constant position"
					}
				}
			default:
				return
			}
			k++
			key := fmt.Sprintf("%s accesses a matcher list #%d", core.FuncName(fn), k)
			if bad != "" {
				obs = append(obs, core.Ob(rule, key, p.Pos(ins.Pos()), core.FuncName(fn), core.Violated, "the matcher list is "+bad+": the matcher found there depends on the order the query was written in (and is absent for selectors without it)"))
			} else {
				obs = append(obs, core.Ob(rule, key, p.Pos(ins.Pos()), core.FuncName(fn), core.Held, "position comes from a loop over the list"))
			}
		})
	}
	return obs
}

// ---------------------------------------------------------------------------------------------

func init() {
	register(&Rule{ID: "R-LABELPOS", Min: 3, Run: ruleLabelPos,
		Doc: "a label set is never accessed at a constant position (l[0], l[1:]): where a label sits depends on the other label names of the series (upper-case names sort before __name__), so the metric name and every other label are found by name or by a loop over the set"})

	mutant(Mutant{Rule: "R-LABELPOS", Name: "metric-name-assumed-first", File: "execution/function/operator.go",
		Old:    "\treturn dropLabel(l, labels.MetricName)\n",
		New:    "\tif len(l) == 0 || l[0].Name != labels.MetricName {\n\t\treturn l, labels.Label{}\n\t}\n\treturn l[1:], l[0]\n",
		Expect: "DropMetricName"})
}

func ruleLabelPos(p *core.Program) []core.Obligation {
	const rule = "R-LABELPOS"
	var obs []core.Obligation
	isLabels := func(t types.Type) bool {
		if core.TypeIs(t, pkgLabels, "Labels") {
			return true
		}
		s, ok := t.Underlying().(*types.Slice)
		return ok && core.TypeIs(s.Elem(), pkgLabels, "Label")
	}
	for _, fn := range p.Funcs {
		k := 0
		core.EachInstr(fn, func(b *ssa.BasicBlock, i int, ins ssa.Instruction) {
			bad := ""
			switch x := ins.(type) {
			case *ssa.IndexAddr:
				if !isLabels(x.X.Type()) {
					return
				}
				if _, isMake := x.X.(*ssa.MakeSlice); isMake {
					return
				}
				if c, ok := core.ConstInt(x.Index); ok && !exactLenGuard(fn, x.X, c+1, x) {
					bad = "indexed at a constant position"
				}
			case *ssa.Slice:
				if !isLabels(x.X.Type()) {
					return
				}
				if x.Low != nil {
					if c, ok := core.ConstInt(x.Low); ok && c != 0 {
						bad = "sliced from a constant position"
					}
				}
				if x.High != nil {
					if c, ok := core.ConstInt(x.High); ok && c != 0 {
						bad = "cut at a constant position"
					}
				}
			default:
				return
			}
			k++
			key := fmt.Sprintf("%s accesses a label set #%d", core.FuncName(fn), k)
			if bad != "" {
				obs = append(obs, core.Ob(rule, key, p.Pos(ins.Pos()), core.FuncName(fn), core.Violated, "the label set is "+bad+": which label is found there depends on the other label names of the series"))
			} else {
				obs = append(obs, core.Ob(rule, key, p.Pos(ins.Pos()), core.FuncName(fn), core.Held, "position comes from a loop or a search over the set"))
			}
		})
	}
	return obs
}

// exactLenGuard: use lies on the true branch of len(s) == n (the set has exactly n elements, so its
// positions are known).
func exactLenGuard(fn *ssa.Function, s ssa.Value, n int64, use ssa.Instruction) bool {
	for _, b := range fn.Blocks {
		iff := core.IfOf(b)
		if iff == nil {
			continue
		}
		bo, ok := iff.Cond.(*ssa.BinOp)
		if !ok || bo.Op != token.EQL {
			continue
		}
		lc, ok := bo.X.(*ssa.Call)
		cv := bo.Y
		if !ok {
			lc, ok = bo.Y.(*ssa.Call)
			cv = bo.X
		}
		if !ok {
			continue
		}
		bi, isB := lc.Call.Value.(*ssa.Builtin)
		if !isB || bi.Name() != "len" || !core.SameExpr(lc.Call.Args[0], s) {
			continue
		}
		if c, ok := core.ConstInt(cv); ok && c == n && core.BranchDominates(b, 0, use.Block()) {
			return true
		}
	}
	return false
}

// ---------------------------------------------------------------------------------------------

func init() {
	register(&Rule{ID: "R-FILLRANGE", Min: 2, Run: ruleFillRange,
		Doc: "a per-step scratch buffer held in an operator field that one loop of Next fills and a later loop reads is filled for every index the reader uses: the filling loop ranges over the buffer itself or over the very collection the reading loop ranges over (not over another operand's batch, which may be shorter or absent)"})

	mutant(Mutant{Rule: "R-FILLRANGE", Name: "scalar-points-filled-per-scalar-batch", File: "execution/function/operator.go",
		Old: "\t\tfor batchIndex := range vectors {\n\t\t\tval := math.NaN()\n\t\t\tif len(scalarVectors) > 0 && len(scalarVectors[batchIndex].Samples) > 0 {", New: "\t\tfor batchIndex := range scalarVectors {\n\t\t\tval := math.NaN()\n\t\t\tif len(scalarVectors[batchIndex].Samples) > 0 {", Expect: "scalarPoints"})
}

// loopCollection returns the collection whose length bounds the loop index idx (idx < len(c)), if any.
func loopCollection(fn *ssa.Function, idx ssa.Value) ssa.Value {
	cands := core.PhiClosure(idx)
	cands[idx] = true
	// i := phi; i+1 compared ... : also accept the increment of a phi in the closure
	for _, b := range fn.Blocks {
		iff := core.IfOf(b)
		if iff == nil {
			continue
		}
		bo, ok := iff.Cond.(*ssa.BinOp)
		if !ok || bo.Op != token.LSS {
			continue
		}
		lhs := bo.X
		match := cands[lhs]
		if !match {
			for c := range cands {
				if add, ok := c.(*ssa.BinOp); ok && add == lhs {
					match = true
				}
			}
			// idx itself may be the incremented value (range loops): idx == lhs
		}
		if !match {
			// lhs may be the phi whose increment is idx
			if add, ok := idx.(*ssa.BinOp); ok && add.Op == token.ADD && (add.X == lhs || cands[add.X] && lhs == add.X) {
				match = true
			}
		}
		if !match {
			continue
		}
		if lc, ok := bo.Y.(*ssa.Call); ok {
			if bi, ok := lc.Call.Value.(*ssa.Builtin); ok && bi.Name() == "len" {
				return lc.Call.Args[0]
			}
		}
	}
	return nil
}

func ruleFillRange(p *core.Program) []core.Obligation {
	const rule = "R-FILLRANGE"
	var obs []core.Obligation
	for _, fn := range p.Funcs {
		if !isOperatorMethod(fn) || !hasPrefixRel(fn, "execution") {
			continue
		}
		type access struct {
			ia    *ssa.IndexAddr
			coll  ssa.Value
			write bool
		}
		byField := map[string][]access{}
		core.EachInstr(fn, func(b *ssa.BasicBlock, i int, ins ssa.Instruction) {
			ia, ok := ins.(*ssa.IndexAddr)
			if !ok {
				return
			}
			addr := core.Deref(ia.X)
			if addr == nil {
				return
			}
			n, f, base, ok := core.FieldRef(addr)
			if !ok || n == nil || !rootedAtReceiver(fn, base) {
				return
			}
			if _, isSlice := ia.X.Type().Underlying().(*types.Slice); !isSlice {
				return
			}
			coll := loopCollection(fn, ia.Index)
			if coll == nil {
				return
			}
			// written: a store through the element address, or through a deeper index of it
			write, read := false, false
			var scan func(v ssa.Value, depth int)
			scan = func(v ssa.Value, depth int) {
				for _, r := range core.Referrers(v) {
					switch x := r.(type) {
					case *ssa.Store:
						if x.Addr == v {
							write = true
						}
					case *ssa.UnOp:
						if x.Op == token.MUL {
							if depth < 2 {
								// the element is itself a slice: follow one more index level
								sawDeeper := false
								for _, rr := range core.Referrers(x) {
									if ia2, ok := rr.(*ssa.IndexAddr); ok {
										sawDeeper = true
										scan(ia2, depth+1)
									}
								}
								if !sawDeeper {
									read = true
								}
							} else {
								read = true
							}
						}
					}
				}
			}
			scan(ia, 0)
			key := n.Obj().Name() + "." + f
			if write {
				byField[key] = append(byField[key], access{ia, coll, true})
			}
			if read {
				byField[key] = append(byField[key], access{ia, coll, false})
			}
		})
		for field, accs := range byField {
			var writers, readers []access
			for _, a := range accs {
				if a.write {
					writers = append(writers, a)
				} else {
					readers = append(readers, a)
				}
			}
			if len(writers) == 0 || len(readers) == 0 {
				continue
			}
			key := fmt.Sprintf("%s fills %s for every index it reads", core.FuncName(fn), field)
			bad := ""
			for _, w := range writers {
				// the writer ranges over the buffer itself
				if core.SameExpr(w.coll, w.ia.X) {
					continue
				}
				for _, r := range readers {
					if r.ia.Block() == w.ia.Block() {
						continue // same iteration
					}
					if !core.SameExpr(w.coll, r.coll) {
						bad = fmt.Sprintf("filled in a loop over %s (%s) but read in a loop over %s (%s)", w.coll.Name(), p.Pos(w.ia.Pos()), r.coll.Name(), p.Pos(r.ia.Pos()))
					}
				}
			}
			if bad != "" {
				obs = append(obs, core.Ob(rule, key, p.Pos(writers[0].ia.Pos()), core.FuncName(fn), core.Violated, bad+": indexes the filling loop does not visit keep the values of an earlier batch (or zero)"))
			} else {
				obs = append(obs, core.Ob(rule, key, p.Pos(writers[0].ia.Pos()), core.FuncName(fn), core.Held, "the filling loop covers the reader's index set"))
			}
		}
	}
	return obs
}

// ---------------------------------------------------------------------------------------------

func init() {
	register(&Rule{ID: "R-STEPEVERY", Min: 5, Run: ruleStepEvery,
		Doc: "in an operator's Next, a per-step loop that appends step vectors to the output batch appends one on every path through an iteration (or leaves the function): no fast path (continue) may skip a step, because consumers pair batches by position. The only accepted skip is the failing branch of a test of an input batch's length (an operand that has ended)"})

	mutant(Mutant{Rule: "R-STEPEVERY", Name: "empty-operand-step-skipped", File: "execution/binary/vector.go",
		Old: "\t\tif i < len(rhs) {\n\t\t\tstep, err := o.table.execBinaryOperation(lhs[i], rhs[i], o.returnBool)",
		New: "\t\tif i < len(rhs) {\n\t\t\tif len(lhs[i].Samples) == 0 || len(rhs[i].Samples) == 0 {\n\t\t\t\to.rhs.GetPool().PutStepVector(rhs[i])\n\t\t\t\tcontinue\n\t\t\t}\n\t\t\tstep, err := o.table.execBinaryOperation(lhs[i], rhs[i], o.returnBool)", Expect: "vectorOperator"})
}

func ruleStepEvery(p *core.Program) []core.Obligation {
	const rule = "R-STEPEVERY"
	var obs []core.Obligation
	for _, fn := range p.Funcs {
		if fn.Parent() != nil || !isOperatorMethod(fn) || !hasPrefixRel(fn, "execution") {
			continue
		}
		loops := core.LoopBodies(fn)
		depth := core.LoopDepth(fn)
		k := 0
		// deterministic order
		var headers []*ssa.BasicBlock
		for h := range loops {
			headers = append(headers, h)
		}
		sortBlocks(headers)
		for _, h := range headers {
			body := loops[h]
			if depth[h] != 1 {
				continue
			}
			// appends to a batch directly in this loop (not in a nested loop)
			appendBlocks := map[*ssa.BasicBlock]bool{}
			for b := range body {
				if depth[b] != 1 {
					continue
				}
				for _, ins := range b.Instrs {
					if call, ok := ins.(*ssa.Call); ok {
						if bi, ok := call.Call.Value.(*ssa.Builtin); ok && bi.Name() == "append" && isBatchType(call.Type()) {
							appendBlocks[b] = true
						}
					}
				}
			}
			if len(appendBlocks) == 0 {
				continue
			}
			k++
			key := fmt.Sprintf("%s per-step loop #%d appends a step vector on every path", core.FuncName(fn), k)
			// batch-length guard: an If comparing something with len(x), x a []StepVector
			lenGuardFalse := func(b *ssa.BasicBlock) int {
				iff := core.IfOf(b)
				if iff == nil {
					return -1
				}
				bo, ok := iff.Cond.(*ssa.BinOp)
				if !ok {
					return -1
				}
				isBatchLen := func(v ssa.Value) bool {
					c, ok := v.(*ssa.Call)
					if !ok {
						return false
					}
					bi, ok := c.Call.Value.(*ssa.Builtin)
					return ok && bi.Name() == "len" && isStepVectorSlice(c.Call.Args[0].Type())
				}
				switch {
				case bo.Op == token.LSS && isBatchLen(bo.Y), bo.Op == token.GTR && isBatchLen(bo.X):
					return 1 // i < len(batch): the false branch is the "operand ended" skip
				case (bo.Op == token.LEQ || bo.Op == token.EQL) && isBatchLen(bo.X) && len(b.Succs) == 2 && appendBlocks[b.Succs[0]]:
					return 1 // if len(batch) <= step { batch = append(batch, ...) }: otherwise the step vector exists already
				case bo.Op == token.GEQ && isBatchLen(bo.Y), bo.Op == token.LEQ && isBatchLen(bo.X):
					return 0
				}
				return -1
			}
			seen := map[*ssa.BasicBlock]bool{h: true}
			work := []*ssa.BasicBlock{h}
			var skip *ssa.BasicBlock
			for len(work) > 0 && skip == nil {
				x := work[len(work)-1]
				work = work[:len(work)-1]
				if appendBlocks[x] {
					continue
				}
				exempt := lenGuardFalse(x)
				for i, s := range x.Succs {
					if !body[s] || i == exempt {
						continue
					}
					if s == h {
						skip = x
						break
					}
					if !seen[s] {
						seen[s] = true
						work = append(work, s)
					}
				}
			}
			if skip != nil {
				pos := "-"
				for _, ins := range skip.Instrs {
					if ins.Pos().IsValid() {
						pos = p.Pos(ins.Pos())
					}
				}
				obs = append(obs, core.Ob(rule, key, p.Pos(h.Instrs[0].Pos()), core.FuncName(fn), core.Violated, "an iteration can reach the next one (through "+pos+") without appending a step vector: the output batch then has fewer step vectors than steps and every consumer that pairs batches by position reads the wrong step"))
			} else {
				obs = append(obs, core.Ob(rule, key, p.Pos(h.Instrs[0].Pos()), core.FuncName(fn), core.Held, "every path through an iteration appends or leaves the function"))
			}
		}
	}
	return obs
}

func sortBlocks(bs []*ssa.BasicBlock) {
	for i := 1; i < len(bs); i++ {
		for j := i; j > 0 && bs[j].Index < bs[j-1].Index; j-- {
			bs[j], bs[j-1] = bs[j-1], bs[j]
		}
	}
}

func init() {
	mutant(Mutant{Rule: "R-ONEPERSTEP", Name: "vector-per-series-in-partial-batch", File: "execution/scan/vector_selector.go",
		Old: "if len(vectors) <= currStep {", New: "if len(vectors) < o.numSteps {", Expect: "vectorSelector"})
}

// ---------------------------------------------------------------------------------------------

func init() {
	register(&Rule{ID: "R-PINNEDPLAN", Min: 1, Run: rulePinnedPlan,
		Doc: "the expression below a StepInvariantExpr (an @-pinned or otherwise step-invariant part) is planned only with the query window collapsed to a single instant (the options returned by WithEndTime), whatever its type: it is evaluated once and its result repeated, never re-evaluated per step with offsets that were computed for the query start"})

	mutant(Mutant{Rule: "R-PINNEDPLAN", Name: "scalar-invariant-evaluated-per-step", File: "execution/execution.go",
		Old:    "\t\tnext, err := newOperator(e.Expr, storage, opts.WithEndTime(opts.Start), hints)\n",
		New:    "\t\tif e.Expr.Type() == parser.ValueTypeScalar {\n\t\t\treturn newOperator(e.Expr, storage, opts, hints)\n\t\t}\n\t\tnext, err := newOperator(e.Expr, storage, opts.WithEndTime(opts.Start), hints)\n",
		Expect: "StepInvariantExpr"})
}

func rulePinnedPlan(p *core.Program) []core.Obligation {
	const rule = "R-PINNEDPLAN"
	fn := plannerFunc(p)
	if fn == nil {
		return []core.Obligation{core.Ob(rule, "execution.newOperator plans below StepInvariantExpr", "-", "", core.Lost, "newOperator not found")}
	}
	var obs []core.Obligation
	k := 0
	// the planning call may sit in newOperator or in a helper of package execution that a case body was moved into
	for _, host := range p.Funcs {
		if core.Rel(host.Pkg.Pkg.Path()) != "execution" {
			continue
		}
		obs = append(obs, pinnedPlanIn(p, rule, fn, host, &k)...)
	}
	return obs
}

func pinnedPlanIn(p *core.Program, rule string, fn, host *ssa.Function, kp *int) []core.Obligation {
	var obs []core.Obligation
	k := *kp
	defer func() { *kp = k }()
	core.EachInstr(host, func(b *ssa.BasicBlock, i int, ins ssa.Instruction) {
		call, ok := ins.(*ssa.Call)
		if !ok || call.Call.StaticCallee() != fn {
			return
		}
		// the expression argument derives from the Expr field of a *parser.StepInvariantExpr
		fromInvariant := false
		for _, a := range call.Call.Args {
			if !core.TypeIs(a.Type(), pkgParser, "Expr") {
				continue
			}
			core.BackSlice(a, func(x ssa.Value) bool {
				if n, f, _, ok := core.FieldRef(x); ok && n != nil && f == "Expr" && n.Obj().Name() == "StepInvariantExpr" && n.Obj().Pkg().Path() == pkgParser {
					fromInvariant = true
				}
				return !fromInvariant
			})
		}
		if !fromInvariant {
			return
		}
		k++
		key := fmt.Sprintf("execution.newOperator plans below StepInvariantExpr #%d with a collapsed window", k)
		// the options the child is planned with come from WithEndTime: the options argument itself, or the
		// receiver / builder value that carries them (b.withOptions(opts.WithEndTime(...)).newOperator(...))
		pinned := false
		for _, a := range call.Call.Args {
			if core.TypeIs(a.Type(), pkgParser, "Expr") || core.TypeIs(a.Type(), pkgStorage, "SelectHints") {
				continue
			}
			all, some := true, false
			for v := range core.PhiClosure(a) {
				found := false
				core.BackSlice(v, func(x ssa.Value) bool {
					if c, ok := x.(*ssa.Call); ok && strings.HasSuffix(core.CalleeName(&c.Call), "query.Options).WithEndTime") {
						found = true
					}
					return !found
				})
				if found {
					some = true
				} else {
					all = false
				}
			}
			if some && all {
				pinned = true
			}
		}
		if pinned {
			obs = append(obs, core.Ob(rule, key, p.Pos(call.Pos()), "newOperator", core.Held, "the options come from WithEndTime"))
		} else {
			obs = append(obs, core.Ob(rule, key, p.Pos(call.Pos()), "newOperator", core.Violated, "the step-invariant expression is planned with the full query window: it is re-evaluated at every step while its selectors carry offsets computed for the first step, so the pinned value drifts and disappears after one look-back delta"))
		}
	})
	return obs
}

// ---------------------------------------------------------------------------------------------

func init() {
	register(&Rule{ID: "R-ERRIDENT", Min: 2, Run: ruleErrIdent,
		Doc: "the only errors whose identity the repository tests (errors.Is / errors.As / == on error values) are the planner's own sentinels of execution/parse ('not supported', 'not implemented'): an error that comes from the storage, from the context or from an operator is never classified, and therefore never filtered out, on its way to the query's result"})

	mutant(Mutant{Rule: "R-ERRIDENT", Name: "cancelled-shard-errors-skipped", File: "execution/exchange/coalesce.go",
		Old: "func (c errorChan) getError() error {\n\tfor err := range c {\n\t\tif err != nil {", New: "func (c errorChan) getError() error {\n\tfor err := range c {\n\t\tif errors.Is(err, context.Canceled) {\n\t\t\tcontinue\n\t\t}\n\t\tif err != nil {", Expect: "getError"})
}

func ruleErrIdent(p *core.Program) []core.Obligation {
	const rule = "R-ERRIDENT"
	var obs []core.Obligation
	errT := types.Universe.Lookup("error").Type()
	sentinels := sentinelGlobals(p)
	isSentinel := func(v ssa.Value) bool {
		ok := false
		core.BackSlice(v, func(x ssa.Value) bool {
			if g, isG := x.(*ssa.Global); isG && sentinels[g] {
				ok = true
			}
			return !ok
		})
		return ok
	}
	for _, fn := range p.Funcs {
		k := 0
		core.EachInstr(fn, func(b *ssa.BasicBlock, i int, ins ssa.Instruction) {
			var target ssa.Value
			what := ""
			switch x := ins.(type) {
			case *ssa.Call:
				callee := x.Call.StaticCallee()
				if callee == nil || callee.Pkg == nil || len(x.Call.Args) != 2 {
					return
				}
				path := callee.Pkg.Pkg.Path()
				if !(path == "errors" || strings.HasSuffix(path, "/errors")) || (callee.Name() != "Is" && callee.Name() != "As") {
					return
				}
				target, what = x.Call.Args[1], "errors."+callee.Name()
			case *ssa.BinOp:
				if (x.Op != token.EQL && x.Op != token.NEQ) || !types.Identical(x.X.Type(), errT) || !types.Identical(x.Y.Type(), errT) {
					return
				}
				if core.IsNilConst(x.X) || core.IsNilConst(x.Y) {
					return
				}
				target, what = x.Y, "comparison of two error values"
				if isSentinel(x.X) {
					target = x.X
				}
			default:
				return
			}
			k++
			key := fmt.Sprintf("%s tests the identity of an error #%d", core.FuncName(fn), k)
			if isSentinel(target) {
				obs = append(obs, core.Ob(rule, key, p.Pos(ins.Pos()), core.FuncName(fn), core.Held, what+" against a sentinel of execution/parse"))
			} else {
				obs = append(obs, core.Ob(rule, key, p.Pos(ins.Pos()), core.FuncName(fn), core.Violated, what+" against something other than the planner's sentinels: a run-time error (storage, context, operator) is being classified, and whatever is done on that branch instead of returning it hides a failure from the query's result"))
			}
		})
	}
	return obs
}

// ---------------------------------------------------------------------------------------------

func init() {
	register(&Rule{ID: "R-LOCKDEFER", Min: 3, Run: ruleLockDefer,
		Doc: "a mutex that is held while code runs that can reach a user-supplied callback (storage select, series set, iterator, remote query) is released by a deferred Unlock: a panic raised by the callback is recovered further up and turned into the query's error, and a lock released only on the normal path would stay locked and hang every other goroutine of the query"})

	mutant(Mutant{Rule: "R-LOCKDEFER", Name: "filtered-selector-load-under-plain-lock", File: "execution/storage/filtered_selector.go",
		Old:  "func (f *filteredSelector) GetSeries(ctx context.Context, shard, numShards int) ([]SignedSeries, error) {\n\tvar err error\n\tf.once.Do(func() { err = f.loadSeries(ctx) })\n",
		New:  "func (f *filteredSelector) GetSeries(ctx context.Context, shard, numShards int) ([]SignedSeries, error) {\n\tvar err error\n\tlockForLoad.Lock()\n\tf.once.Do(func() { err = f.loadSeries(ctx) })\n\tlockForLoad.Unlock()\n",
		Old2: "type filteredSelector struct {", New2: "var lockForLoad sync.Mutex\n\ntype filteredSelector struct {",
		Expect: "filteredSelector"})
}

func ruleLockDefer(p *core.Program) []core.Obligation {
	const rule = "R-LOCKDEFER"
	var obs []core.Obligation
	isLock := func(c *ssa.CallCommon) bool {
		n := core.CalleeName(c)
		return n == "(*sync.Mutex).Lock" || n == "(*sync.RWMutex).Lock" || n == "(*sync.RWMutex).RLock"
	}
	isUnlock := func(c *ssa.CallCommon) bool {
		n := core.CalleeName(c)
		return n == "(*sync.Mutex).Unlock" || n == "(*sync.RWMutex).Unlock" || n == "(*sync.RWMutex).RUnlock"
	}
	reachCache := map[*ssa.Function]bool{}
	reaches := func(f *ssa.Function) bool {
		if v, ok := reachCache[f]; ok {
			return v
		}
		v := reachesStorage(p, f)
		reachCache[f] = v
		return v
	}
	for _, fn := range p.Funcs {
		k := 0
		core.EachInstr(fn, func(b *ssa.BasicBlock, i int, ins ssa.Instruction) {
			call, ok := ins.(*ssa.Call)
			if !ok || !isLock(&call.Call) || len(call.Call.Args) != 1 {
				return
			}
			k++
			m := call.Call.Args[0]
			key := fmt.Sprintf("%s holds a mutex #%d", core.FuncName(fn), k)
			// released by a defer?
			deferred := false
			core.EachInstr(fn, func(_ *ssa.BasicBlock, _ int, x ssa.Instruction) {
				if d, ok := x.(*ssa.Defer); ok && isUnlock(&d.Call) && len(d.Call.Args) == 1 && (d.Call.Args[0] == m || core.SameExpr(d.Call.Args[0], m)) {
					deferred = true
				}
			})
			if deferred {
				obs = append(obs, core.Ob(rule, key, p.Pos(call.Pos()), core.FuncName(fn), core.Held, "released by a deferred Unlock"))
				return
			}
			// the critical section: everything reachable from the Lock before an Unlock of the same mutex
			var witness string
			seen := map[*ssa.BasicBlock]bool{}
			var scan func(bb *ssa.BasicBlock, from int)
			scan = func(bb *ssa.BasicBlock, from int) {
				for _, x := range bb.Instrs[from:] {
					if cc := core.CallCommon(x); cc != nil {
						if isUnlock(cc) && len(cc.Args) == 1 && (cc.Args[0] == m || core.SameExpr(cc.Args[0], m)) {
							return
						}
						if _, ok := callbackSite(x); ok {
							witness = p.Pos(x.Pos())
						}
						for _, callee := range callees(p, x) {
							if p.InRepo(callee) && reaches(callee) {
								witness = p.Pos(x.Pos()) + " -> " + core.FuncName(callee)
							}
						}
					}
					if mc, ok := x.(*ssa.MakeClosure); ok && !onlyGoUse(mc) {
						if cf, ok := mc.Fn.(*ssa.Function); ok && reaches(cf) {
							witness = p.Pos(x.Pos()) + " -> " + core.FuncName(cf)
						}
					}
				}
				for _, s := range bb.Succs {
					if !seen[s] {
						seen[s] = true
						scan(s, 0)
					}
				}
			}
			scan(b, i+1)
			if witness != "" {
				obs = append(obs, core.Ob(rule, key, p.Pos(call.Pos()), core.FuncName(fn), core.Violated, "the mutex is held across "+witness+", which can reach a storage callback, and is released by a plain Unlock: a panic there (recovered further up) leaves it locked"))
			} else {
				obs = append(obs, core.Ob(rule, key, p.Pos(call.Pos()), core.FuncName(fn), core.Held, "no user callback is reachable while the mutex is held"))
			}
		})
	}
	return obs
}

// ---------------------------------------------------------------------------------------------

func init() {
	register(&Rule{ID: "R-CANCELLOCK", Min: 2, Run: ruleCancelLock,
		Doc: "Cancel() and Close() of a query never wait for a mutex that another method holds while the query is being evaluated (a critical section from which the storage is reachable): they must be able to cancel a running Exec from another goroutine, so the only lock they take is one that Exec holds for a few statements"})

	mutant(Mutant{Rule: "R-CANCELLOCK", Name: "close-waits-for-exec", File: "engine/engine.go",
		Old:  "func (q *compatibilityQuery) Exec(ctx context.Context) (ret *promql.Result) {\n",
		New:  "func (q *compatibilityQuery) Exec(ctx context.Context) (ret *promql.Result) {\n\tq.cancelMtx.Lock()\n\tdefer q.cancelMtx.Unlock()\n",
		Old2: "\tq.cancelMtx.Lock()\n\tq.cancel = cancel\n\tq.cancelMtx.Unlock()\n", New2: "\tq.cancel = cancel\n",
		Expect: "Cancel"})
}

func mutexField(v ssa.Value) *types.Var {
	if fa, ok := v.(*ssa.FieldAddr); ok {
		return fieldVarOf(fa)
	}
	return nil
}

func ruleCancelLock(p *core.Program) []core.Obligation {
	const rule = "R-CANCELLOCK"
	var obs []core.Obligation
	isLock := func(c *ssa.CallCommon) bool {
		n := core.CalleeName(c)
		return n == "(*sync.Mutex).Lock" || n == "(*sync.RWMutex).Lock" || n == "(*sync.RWMutex).RLock"
	}
	isUnlock := func(c *ssa.CallCommon) bool {
		n := core.CalleeName(c)
		return n == "(*sync.Mutex).Unlock" || n == "(*sync.RWMutex).Unlock" || n == "(*sync.RWMutex).RUnlock"
	}
	// mutex fields held across an evaluation
	longHeld := map[*types.Var]string{}
	for _, fn := range p.Funcs {
		core.EachInstr(fn, func(b *ssa.BasicBlock, i int, ins ssa.Instruction) {
			call, ok := ins.(*ssa.Call)
			if !ok || !isLock(&call.Call) || len(call.Call.Args) != 1 {
				return
			}
			f := mutexField(call.Call.Args[0])
			if f == nil {
				return
			}
			deferred := false
			core.EachInstr(fn, func(_ *ssa.BasicBlock, _ int, x ssa.Instruction) {
				if d, ok := x.(*ssa.Defer); ok && isUnlock(&d.Call) && len(d.Call.Args) == 1 && mutexField(d.Call.Args[0]) == f {
					deferred = true
				}
			})
			seen := map[*ssa.BasicBlock]bool{}
			long := false
			var scan func(bb *ssa.BasicBlock, from int)
			scan = func(bb *ssa.BasicBlock, from int) {
				for _, x := range bb.Instrs[from:] {
					if cc := core.CallCommon(x); cc != nil {
						if !deferred && isUnlock(cc) && len(cc.Args) == 1 && mutexField(cc.Args[0]) == f {
							return
						}
						if _, ok := callbackSite(x); ok {
							long = true
						}
						for _, callee := range callees(p, x) {
							if p.InRepo(callee) && reachesStorage(p, callee) {
								long = true
							}
						}
					}
				}
				for _, s := range bb.Succs {
					if !seen[s] {
						seen[s] = true
						scan(s, 0)
					}
				}
			}
			scan(b, i+1)
			if long {
				longHeld[f] = core.FuncName(fn)
			}
		})
	}
	for _, fn := range p.Funcs {
		if fn.Parent() != nil || (fn.Name() != "Cancel" && fn.Name() != "Close") || recvNamed(fn) == nil || core.Rel(fn.Pkg.Pkg.Path()) != "engine" {
			continue
		}
		key := core.FuncName(fn) + " does not wait for a running evaluation"
		bad := ""
		for f := range syncReach(p, fn, nil) {
			core.EachInstr(f, func(_ *ssa.BasicBlock, _ int, ins ssa.Instruction) {
				if call, ok := ins.(*ssa.Call); ok && isLock(&call.Call) && len(call.Call.Args) == 1 {
					if mf := mutexField(call.Call.Args[0]); mf != nil {
						if holder, ok := longHeld[mf]; ok {
							bad = fmt.Sprintf("locks %s at %s, which %s holds while the query is evaluated", mf.Name(), p.Pos(call.Pos()), holder)
						}
					}
				}
			})
		}
		if bad != "" {
			obs = append(obs, core.Ob(rule, key, p.Pos(fn.Pos()), core.FuncName(fn), core.Violated, bad+": called from another goroutine it blocks until Exec has finished instead of cancelling it"))
		} else {
			obs = append(obs, core.Ob(rule, key, p.Pos(fn.Pos()), core.FuncName(fn), core.Held, "takes no lock that is held across an evaluation"))
		}
	}
	return obs
}

// ---------------------------------------------------------------------------------------------

func init() {
	register(&Rule{ID: "R-ONEBATCHSIZE", Min: 1, Run: ruleOneBatchSize,
		Doc: "one batch size per plan: every value stored into query.Options.StepsBatch is the package constant execution.stepsBatch, the same constant every operator constructor receives. Operators pair the batches of their operands by position and size their per-step state by it, so an operator emitting larger batches breaks its consumers"})

	mutant(Mutant{Rule: "R-ONEBATCHSIZE", Name: "remote-result-in-one-batch", File: "execution/remote/operator.go",
		Old: "\tremoteOpts.LookbackDelta = 0\n", New: "\tremoteOpts.LookbackDelta = 0\n\tremoteOpts.StepsBatch = 1 << 30\n", Expect: "NewExecution"})
}

func ruleOneBatchSize(p *core.Program) []core.Obligation {
	const rule = "R-ONEBATCHSIZE"
	var obs []core.Obligation
	var want int64 = -1
	if pk := p.Pkg("execution"); pk != nil {
		if c, ok := pk.Types.Scope().Lookup("stepsBatch").(*types.Const); ok {
			if v, ok := constantInt64(c); ok {
				want = v
			}
		}
	}
	if want < 0 {
		return []core.Obligation{core.Ob(rule, "execution.stepsBatch", "-", "", core.Lost, "constant not found")}
	}
	for _, fn := range p.Funcs {
		k := 0
		core.EachInstr(fn, func(b *ssa.BasicBlock, i int, ins ssa.Instruction) {
			st, ok := ins.(*ssa.Store)
			if !ok || !core.IsFieldOf(st.Addr, core.Module+"/query", "Options", "StepsBatch") {
				return
			}
			k++
			key := fmt.Sprintf("%s sets Options.StepsBatch #%d", core.FuncName(fn), k)
			v := st.Val
			if cv, ok := v.(*ssa.Convert); ok {
				v = cv.X
			}
			if c, ok := core.ConstInt(v); ok && c == want {
				obs = append(obs, core.Ob(rule, key, p.Pos(st.Pos()), core.FuncName(fn), core.Held, "the package constant stepsBatch"))
			} else {
				obs = append(obs, core.Ob(rule, key, p.Pos(st.Pos()), core.FuncName(fn), core.Violated, fmt.Sprintf("a batch size other than the plan-wide constant stepsBatch (%d) is configured: this operator's batches no longer line up with those of its siblings and exceed the per-step state of its consumers", want)))
			}
		})
	}
	return obs
}

func constantInt64(c *types.Const) (int64, bool) {
	s := c.Val().ExactString()
	var v int64
	if _, err := fmt.Sscanf(s, "%d", &v); err != nil {
		return 0, false
	}
	return v, true
}

// ---------------------------------------------------------------------------------------------

func init() {
	register(&Rule{ID: "R-CURSORRESET", Min: 2, Run: ruleCursorReset,
		Doc: "in the selectors' nested loops (series outside, steps inside) the timestamp cursor advanced by the step loop starts afresh for every series: it is not carried from one series to the next (no loop-carried value of the outer loop feeds it). Otherwise only the first series of a shard is evaluated at the batch's own timestamps, and results depend on how series are distributed over shards"})

	mutant(Mutant{Rule: "R-CURSORRESET", Name: "series-cursor-hoisted", File: "execution/scan/matrix_selector.go",
		Old: "\tfor i := 0; i < len(o.scanners); i++ {\n\t\tvar (\n\t\t\tseries   = o.scanners[i]\n\t\t\tseriesTs = ts\n\t\t)\n", New: "\tseriesTs := ts\n\tfor i := 0; i < len(o.scanners); i++ {\n\t\tvar (\n\t\t\tseries = o.scanners[i]\n\t\t)\n", Expect: "matrixSelector"})
}

func ruleCursorReset(p *core.Program) []core.Obligation {
	const rule = "R-CURSORRESET"
	var obs []core.Obligation
	for _, fn := range p.Funcs {
		if fn.Parent() != nil || !isOperatorMethod(fn) || core.Rel(fn.Pkg.Pkg.Path()) != "execution/scan" {
			continue
		}
		loops := core.LoopBodies(fn)
		depth := core.LoopDepth(fn)
		k := 0
		var headers []*ssa.BasicBlock
		for h := range loops {
			headers = append(headers, h)
		}
		sortBlocks(headers)
		for _, inner := range headers {
			if depth[inner] != 2 {
				continue
			}
			// the enclosing loop
			var outer *ssa.BasicBlock
			for _, h := range headers {
				if h != inner && depth[h] == 1 && loops[h][inner] {
					outer = h
				}
			}
			if outer == nil {
				continue
			}
			for _, ins := range inner.Instrs {
				ph, ok := ins.(*ssa.Phi)
				if !ok || !isInt64Basic(ph.Type()) {
					continue
				}
				// advanced inside the inner loop by an addition
				advanced := false
				var init []ssa.Value
				for i, e := range ph.Edges {
					pred := inner.Preds[i]
					if loops[inner][pred] {
						if bo, ok := e.(*ssa.BinOp); ok && bo.Op == token.ADD {
							advanced = true
						}
					} else {
						init = append(init, e)
					}
				}
				if !advanced || len(init) == 0 {
					continue
				}
				k++
				key := fmt.Sprintf("%s step cursor #%d starts afresh for every series", core.FuncName(fn), k)
				carried := false
				for _, v := range init {
					core.BackSlice(v, func(x ssa.Value) bool {
						if op, ok := x.(*ssa.Phi); ok && op.Block() == outer {
							// a value carried around the outer loop that is (transitively) fed by this cursor
							for _, e := range op.Edges {
								core.BackSlice(e, func(y ssa.Value) bool {
									if y == ph {
										carried = true
									}
									return !carried
								})
							}
						}
						return !carried
					})
				}
				if carried {
					obs = append(obs, core.Ob(rule, key, p.Pos(ph.Pos()), core.FuncName(fn), core.Violated, "the cursor the step loop advances is carried over to the next series: the second series of a shard starts where the first one stopped and its samples land in the wrong step vectors"))
				} else {
					obs = append(obs, core.Ob(rule, key, p.Pos(ph.Pos()), core.FuncName(fn), core.Held, "initialised from a value that does not depend on the previous series' iterations"))
				}
			}
		}
	}
	return obs
}

// ---------------------------------------------------------------------------------------------

func init() {
	register(&Rule{ID: "R-COPYWRITE", Min: 3, Run: ruleCopyWrite,
		Doc: "no lost update through a copy: a store into a field of a local struct variable is followed, on some path and before the variable is overwritten as a whole, by a use of that variable (a read, a copy back into the slice or map it came from, a call). Otherwise the update was made to a copy of a slice element or map value and is lost (`last := buckets[i]; last.count += x`)"})

	mutant(Mutant{Rule: "R-COPYWRITE", Name: "bucket-count-added-to-a-copy", File: "execution/function/quantile.go",
		Old: "\tlast := buckets[0]\n\ti := 0\n\tfor _, b := range buckets[1:] {\n\t\tif b.upperBound == last.upperBound {\n\t\t\tlast.count += b.count\n\t\t} else {\n\t\t\tbuckets[i] = last\n\t\t\tlast = b\n\t\t\ti++\n\t\t}\n\t}\n\tbuckets[i] = last\n",
		New: "\ti := 0\n\tfor _, b := range buckets[1:] {\n\t\tlast := buckets[i]\n\t\tif b.upperBound == last.upperBound {\n\t\t\tlast.count += b.count\n\t\t\tcontinue\n\t\t}\n\t\ti++\n\t\tbuckets[i] = b\n\t}\n", Expect: "coalesceBuckets"})
}

func ruleCopyWrite(p *core.Program) []core.Obligation {
	const rule = "R-COPYWRITE"
	var obs []core.Obligation
	for _, fn := range p.Funcs {
		k := 0
		core.EachInstr(fn, func(b *ssa.BasicBlock, i int, ins ssa.Instruction) {
			st, ok := ins.(*ssa.Store)
			if !ok {
				return
			}
			fa, ok := st.Addr.(*ssa.FieldAddr)
			if !ok {
				return
			}
			a, ok := fa.X.(*ssa.Alloc)
			if !ok || a.Heap {
				return
			}
			if _, isStruct := a.Type().Underlying().(*types.Pointer).Elem().Underlying().(*types.Struct); !isStruct {
				return
			}
			k++
			key := fmt.Sprintf("%s updates a field of local %s #%d", core.FuncName(fn), a.Comment, k)
			// uses of the variable: anything but stores into it (whole or field) and the field addresses themselves
			isUse := func(x ssa.Instruction) bool {
				switch y := x.(type) {
				case *ssa.UnOp:
					if y.Op == token.MUL {
						if y.X == a {
							return true
						}
						if f2, ok := y.X.(*ssa.FieldAddr); ok && f2.X == a {
							return true
						}
					}
				case *ssa.Store:
					// storing the variable's address or value elsewhere
					if y.Val == a {
						return true
					}
				case *ssa.DebugRef:
					return false
				default:
					// the address handed to a call, a closure, a conversion ...
					for _, op := range x.Operands(nil) {
						if op != nil && *op == a {
							if _, isFA := x.(*ssa.FieldAddr); !isFA {
								return true
							}
						}
					}
				}
				return false
			}
			kills := func(x ssa.Instruction) bool {
				s2, ok := x.(*ssa.Store)
				return ok && s2.Addr == a
			}
			// field addresses escaping (passed to calls) count as uses too
			escapes := false
			for _, r := range core.Referrers(a) {
				if f2, ok := r.(*ssa.FieldAddr); ok {
					for _, rr := range core.Referrers(f2) {
						switch z := rr.(type) {
						case *ssa.Store:
							if z.Val == f2 {
								escapes = true
							}
						case *ssa.UnOp, *ssa.DebugRef:
						case *ssa.FieldAddr, *ssa.IndexAddr:
							// nested addressing: be conservative
							escapes = true
						default:
							escapes = true
						}
					}
				}
			}
			if escapes {
				obs = append(obs, core.Ob(rule, key, p.Pos(st.Pos()), core.FuncName(fn), core.Held, "the field's address is handed on"))
				return
			}
			found := false
			seen := map[*ssa.BasicBlock]bool{}
			var scan func(bb *ssa.BasicBlock, from int)
			scan = func(bb *ssa.BasicBlock, from int) {
				for _, x := range bb.Instrs[from:] {
					if found {
						return
					}
					if isUse(x) {
						found = true
						return
					}
					if kills(x) {
						return
					}
				}
				for _, s := range bb.Succs {
					if !seen[s] {
						seen[s] = true
						scan(s, 0)
					}
				}
			}
			scan(b, i+1)
			if found {
				obs = append(obs, core.Ob(rule, key, p.Pos(st.Pos()), core.FuncName(fn), core.Held, "the variable is used afterwards"))
			} else {
				obs = append(obs, core.Ob(rule, key, p.Pos(st.Pos()), core.FuncName(fn), core.Violated, "after this field update the variable is never used again before it is overwritten: the update went into a copy and is lost"))
			}
		})
	}
	return obs
}

// ---------------------------------------------------------------------------------------------

// scalarOperandFields: operator fields that hold a *scalar* operand. A scalar without a value is NaN
// for the reference engine; it never ends the stream of the operator that consumes it.
var scalarOperandFields = map[string]string{
	"scalarOperator.scalar": "the scalar side of a vector/scalar binary operation",
	"aggregate.paramOp":     "the parameter of quantile",
	"kAggregate.paramOp":    "the parameter k of topk/bottomk",
}

func init() {
	register(&Rule{ID: "R-SCALAREND", Min: 3, Run: ruleScalarEnd,
		Doc: "the batch of a scalar operand (scalar side of a binary operation, aggregation parameter) never decides the end of the consumer's stream: no `return nil, nil` of Next is taken on a branch that tests that batch for nil or for its length. A scalar that has no value at a step (scalar() of nothing) is NaN, not the end of the query"})

	mutant(Mutant{Rule: "R-SCALAREND", Name: "missing-scalar-ends-the-stream", File: "execution/binary/scalar.go",
		Old: "\tout := o.pool.GetVectorBatch()\n\tfor v, vector := range in {", New: "\tif scalarIn == nil {\n\t\to.next.GetPool().PutVectors(in)\n\t\treturn nil, nil\n\t}\n\n\tout := o.pool.GetVectorBatch()\n\tfor v, vector := range in {", Expect: "scalarOperator"})
}

func ruleScalarEnd(p *core.Program) []core.Obligation {
	const rule = "R-SCALAREND"
	var obs []core.Obligation
	found := map[string]bool{}
	for _, fn := range p.Funcs {
		// Next itself or a helper method of the operator that Next delegates the pull to
		if fn.Parent() != nil || !hasPrefixRel(fn, "execution") {
			continue
		}
		rn := recvNamed(fn)
		if rn == nil {
			continue
		}
		core.EachInstr(fn, func(b *ssa.BasicBlock, i int, ins ssa.Instruction) {
			call, ok := ins.(*ssa.Call)
			if !ok {
				return
			}
			// the pull: X.Next(ctx) on the field itself, or a helper of the repository that is handed the field's
			// operator and pulls from that parameter (readStepParams(ctx, a.paramOp, a.params))
			var addr ssa.Value
			batches := map[ssa.Value]bool{}
			if call.Call.IsInvoke() && call.Call.Method.Name() == "Next" && isVectorOperatorIface(call.Call.Value.Type()) {
				addr = core.Deref(call.Call.Value)
				for _, r := range core.Referrers(call) {
					if ex, ok := r.(*ssa.Extract); ok && ex.Index == 0 {
						batches[ex] = true
					}
				}
			} else if h := call.Call.StaticCallee(); h != nil && h.Blocks != nil && p.InRepo(h) {
				for ai, a := range call.Call.Args {
					if ai >= len(h.Params) || !isVectorOperatorIface(a.Type()) || core.Deref(a) == nil {
						continue
					}
					prm := h.Params[ai]
					pulls := false
					core.EachInstr(h, func(_ *ssa.BasicBlock, _ int, x ssa.Instruction) {
						if c, ok := x.(*ssa.Call); ok && c.Call.IsInvoke() && c.Call.Method.Name() == "Next" && c.Call.Value == ssa.Value(prm) {
							pulls = true
						}
					})
					if pulls {
						addr = core.Deref(a)
					}
				}
				if addr != nil {
					// what the helper hands back stands for the batch (a count, a flag)
					errT := types.Universe.Lookup("error").Type()
					if call.Call.Signature().Results().Len() == 1 && !types.Identical(call.Type(), errT) {
						batches[call] = true
					}
					for _, r := range core.Referrers(call) {
						if ex, ok := r.(*ssa.Extract); ok && !types.Identical(ex.Type(), errT) {
							batches[ex] = true
						}
					}
				}
			}
			if addr == nil {
				return
			}
			n, f, _, ok := core.FieldRef(addr)
			if !ok || n == nil {
				return
			}
			fieldKey := n.Obj().Name() + "." + f
			if _, isScalar := scalarOperandFields[fieldKey]; !isScalar {
				return
			}
			found[fieldKey] = true
			key := fmt.Sprintf("%s: the batch of %s never ends the stream", core.FuncName(fn), fieldKey)
			if len(batches) == 0 {
				obs = append(obs, core.Ob(rule, key, p.Pos(call.Pos()), core.FuncName(fn), core.Held, "the batch is not used"))
				return
			}
			dependsOnBatch := func(v ssa.Value) bool {
				hit := false
				core.BackSlice(v, func(x ssa.Value) bool {
					if batches[x] {
						hit = true
					}
					if _, isCall := x.(*ssa.Call); isCall {
						if c := x.(*ssa.Call); c.Call.Value != nil {
							if bi, ok := c.Call.Value.(*ssa.Builtin); !ok || bi.Name() != "len" {
								return false
							}
						}
					}
					return !hit
				})
				return hit
			}
			bad := ""
			for _, bb := range fn.Blocks {
				iff := core.IfOf(bb)
				if iff == nil || !dependsOnBatch(iff.Cond) {
					continue
				}
				core.EachInstr(fn, func(rb *ssa.BasicBlock, _ int, x ssa.Instruction) {
					ret, ok := x.(*ssa.Return)
					if !ok || rb == fn.Recover {
						return
					}
					rs := core.RetResults(ret)
					if len(rs) != 2 || !core.IsNilConst(rs[0]) || !core.IsNilConst(rs[1]) {
						return
					}
					for s := 0; s < 2; s++ {
						if core.BranchDominates(bb, s, rb) {
							bad = p.Pos(ret.Pos())
						}
					}
				})
			}
			if bad != "" {
				obs = append(obs, core.Ob(rule, key, p.Pos(call.Pos()), core.FuncName(fn), core.Violated, "the end-of-stream return at "+bad+" is taken on a branch that tests the scalar operand's batch ("+scalarOperandFields[fieldKey]+"): a scalar without a value ends the query where the reference computes with NaN"))
			} else {
				obs = append(obs, core.Ob(rule, key, p.Pos(call.Pos()), core.FuncName(fn), core.Held, "no end-of-stream return depends on that batch"))
			}
		})
	}
	for f := range scalarOperandFields {
		if !found[f] {
			obs = append(obs, core.Ob(rule, "scalar operand "+f, "-", "", core.Lost, "no Next pulls from this field any more"))
		}
	}
	return obs
}

// ---------------------------------------------------------------------------------------------

func init() {
	register(&Rule{ID: "R-FILTERALL", Min: 1, Run: ruleFilterAll,
		Doc: "the in-engine filter of a merged select applies every matcher to every series, with the semantics of a storage select: each call of Matcher.Matches in execution/storage is made on a matcher taken from a loop over the filter's matcher list, with the value looked up by name (Labels.Get, which yields the empty value for an absent label). A filter driven by the labels the series happens to have never applies a matcher whose label is absent, and a map keyed by label name collapses repeated names"})

	mutant(Mutant{Rule: "R-FILTERALL", Name: "filter-driven-by-series-labels", File: "execution/storage/filter.go",
		Old: "\tlbls := series.Labels()\n\tfor _, m := range f.matchers {\n\t\tif !m.Matches(lbls.Get(m.Name)) {\n\t\t\treturn false\n\t\t}\n\t}\n",
		New: "\tfor _, l := range series.Labels() {\n\t\tfor _, m := range f.matchers {\n\t\t\tif m.Name == l.Name && !m.Matches(l.Value) {\n\t\t\t\treturn false\n\t\t\t}\n\t\t}\n\t}\n", Expect: "Matches"})
}

func ruleFilterAll(p *core.Program) []core.Obligation {
	const rule = "R-FILTERALL"
	var obs []core.Obligation
	for _, fn := range p.Funcs {
		if core.Rel(fn.Pkg.Pkg.Path()) != "execution/storage" {
			continue
		}
		k := 0
		core.EachInstr(fn, func(b *ssa.BasicBlock, i int, ins ssa.Instruction) {
			call, ok := ins.(*ssa.Call)
			if !ok || core.CalleeName(&call.Call) != "(*"+pkgLabels+".Matcher).Matches" || len(call.Call.Args) != 2 {
				return
			}
			k++
			key := fmt.Sprintf("%s applies a matcher #%d", core.FuncName(fn), k)
			// the matcher: an element of a []*Matcher (range over the list), not a map lookup
			fromList, fromMap := false, false
			core.BackSlice(call.Call.Args[0], func(x ssa.Value) bool {
				switch y := x.(type) {
				case *ssa.IndexAddr:
					if isMatcherSlice(y.X.Type()) {
						fromList = true
					}
				case *ssa.Index:
					if isMatcherSlice(y.X.Type()) {
						fromList = true
					}
				case *ssa.Lookup:
					fromMap = true
				}
				return true
			})
			// the value: result of Labels.Get
			viaGet := false
			core.BackSlice(call.Call.Args[1], func(x ssa.Value) bool {
				if c, ok := x.(*ssa.Call); ok && core.CalleeName(&c.Call) == "("+pkgLabels+".Labels).Get" {
					viaGet = true
				}
				return !viaGet
			})
			switch {
			case fromMap || !fromList:
				obs = append(obs, core.Ob(rule, key, p.Pos(call.Pos()), core.FuncName(fn), core.Violated, "the matcher comes from a lookup keyed by a label of the series, not from a loop over the matcher list: a matcher whose label the series does not have is never applied (a=\"x\" lets series without label a pass), and repeated label names collapse into one matcher"))
			case !viaGet:
				obs = append(obs, core.Ob(rule, key, p.Pos(call.Pos()), core.FuncName(fn), core.Violated, "the value handed to the matcher is not looked up with Labels.Get(name): a label absent from the series is not matched as the empty value"))
			default:
				obs = append(obs, core.Ob(rule, key, p.Pos(call.Pos()), core.FuncName(fn), core.Held, "matcher from the list, value by name"))
			}
		})
	}
	return obs
}

// ---------------------------------------------------------------------------------------------

func init() {
	register(&Rule{ID: "R-SORTCOPY", Min: 3, Run: ruleSortCopy,
		Doc: "an operator never sorts in place a slice that belongs to the parsed expression (grouping labels, matching labels, matchers): every slice handed to slices.Sort / sort.Strings / sort.Slice / sort.Sort in execution/... is traced back (through parameters to the call sites) and must not originate from a field of a parser node. The select hints alias those slices and are read by the storage after the operators were built, and the expression is what the query prints"})

	mutant(Mutant{Rule: "R-SORTCOPY", Name: "matching-labels-sorted-in-place", File: "execution/binary/vector.go",
		Old: "\tgroupings := make([]string, len(matching.MatchingLabels))\n\tcopy(groupings, matching.MatchingLabels)\n\tslices.Sort(groupings)\n", New: "\tgroupings := matching.MatchingLabels\n\tslices.Sort(groupings)\n", Expect: "NewVectorOperator"})
}

func ruleSortCopy(p *core.Program) []core.Obligation {
	const rule = "R-SORTCOPY"
	var obs []core.Obligation
	isSort := func(name string) bool {
		switch name {
		case "sort.Strings", "sort.Slice", "sort.SliceStable", "sort.Sort", "sort.Stable", "sort.Float64s", "sort.Ints":
			return true
		}
		return strings.HasSuffix(name, "slices.Sort") || strings.HasSuffix(name, "slices.SortFunc") || strings.HasSuffix(name, "slices.SortStableFunc") ||
			strings.Contains(name, "slices.Sort[") || strings.Contains(name, "slices.SortFunc[")
	}
	for _, fn := range p.Funcs {
		if !hasPrefixRel(fn, "execution") {
			continue
		}
		k := 0
		core.EachInstr(fn, func(b *ssa.BasicBlock, i int, ins ssa.Instruction) {
			call, ok := ins.(*ssa.Call)
			if !ok || len(call.Call.Args) == 0 || !isSort(core.CalleeName(&call.Call)) {
				return
			}
			k++
			key := fmt.Sprintf("%s sorts a slice #%d", core.FuncName(fn), k)
			origin := ""
			seen := map[ssa.Value]bool{}
			var trace func(v ssa.Value, depth int)
			trace = func(v ssa.Value, depth int) {
				core.BackSlice(v, func(x ssa.Value) bool {
					if seen[x] || origin != "" {
						return false
					}
					seen[x] = true
					if n, f, _, ok := core.FieldRef(x); ok && n != nil && n.Obj().Pkg() != nil && n.Obj().Pkg().Path() == pkgParser {
						origin = "parser." + n.Obj().Name() + "." + f
						return false
					}
					switch y := x.(type) {
					case *ssa.MakeSlice, *ssa.Alloc:
						return false // freshly allocated
					case *ssa.Call:
						// append([]T(nil), xs...) and slices.Clone produce copies; other calls: opaque
						return false
					case *ssa.Parameter:
						if depth > 0 {
							pf := y.Parent()
							for idx, q := range pf.Params {
								if q != y {
									continue
								}
								for _, cs := range p.CallSitesOf(pf) {
									if cs != nil && idx < len(cs.Args) {
										trace(cs.Args[idx], depth-1)
									}
								}
							}
						}
						return false
					}
					return true
				})
			}
			trace(call.Call.Args[0], 3)
			if origin != "" {
				obs = append(obs, core.Ob(rule, key, p.Pos(call.Pos()), core.FuncName(fn), core.Violated, "the sorted slice is "+origin+" of the parsed expression, sorted in place: the select hints built from the same slice reach the storage reordered, and the query's own expression is rewritten"))
			} else {
				obs = append(obs, core.Ob(rule, key, p.Pos(call.Pos()), core.FuncName(fn), core.Held, "the slice is the operator's own (allocated or copied)"))
			}
		})
	}
	return obs
}

// ---------------------------------------------------------------------------------------------

func init() {
	register(&Rule{ID: "R-MATCHGROW", Min: 2, Run: ruleMatchGrow,
		Doc: "an optimizer gives a selector a new matcher list only by growing the list it has (append onto the selector's own LabelMatchers) or by taking over, whole, a list collected from another selector: it never assigns a list rebuilt from scratch out of a map or a filtered loop, which is how the metric-name matcher and matchers with a repeated label name get lost"})
	register(&Rule{ID: "R-DROPEXACT", Min: 1, Run: ruleDropExact,
		Doc: "a matcher is deleted from a matcher list only when it has been identified by name, type and value: a deletion decided on the label name alone also removes every other matcher with that name (foo{a=~\"x|z\", a!=\"z\"}; a second metric-name matcher)"})

	mutant(Mutant{Rule: "R-MATCHGROW", Name: "selector-gets-rebuilt-union", File: "logicalplan/propagate_selectors.go",
		Old: "\tlhSelector.LabelMatchers = withMatchers(lhSelector.LabelMatchers, rhMatchers)\n", New: "\tlhSelector.LabelMatchers = append([]*labels.Matcher{}, rhMatchers...)\n", Expect: "propagateMatchers"})
	mutant(Mutant{Rule: "R-DROPEXACT", Name: "matcher-dropped-by-name", File: "logicalplan/merge_selects.go",
		Old: "\t\tif l.Name == m.Name && l.Type == m.Type && l.Value == m.Value {\n\t\t\toriginalMatchers = append(", New: "\t\tif l.Name == m.Name {\n\t\t\toriginalMatchers = append(", Expect: "dropEqualMatcher"})
}

func isSelectorMatchersField(v ssa.Value) bool {
	n, f, _, ok := core.FieldRef(v)
	return ok && n != nil && f == "LabelMatchers" && n.Obj().Name() == "VectorSelector" && n.Obj().Pkg().Path() == pkgParser
}

func ruleMatchGrow(p *core.Program) []core.Obligation {
	const rule = "R-MATCHGROW"
	var obs []core.Obligation
	// origin classifies where a matcher list comes from: "" = fine, otherwise the reason it is not
	var origin func(v ssa.Value, env map[*ssa.Parameter]ssa.Value, depth int) string
	origin = func(v ssa.Value, env map[*ssa.Parameter]ssa.Value, depth int) string {
		if depth > 12 {
			return "origin too deep to follow"
		}
		switch x := v.(type) {
		case *ssa.Phi:
			for _, e := range x.Edges {
				if e == x {
					continue
				}
				if r := origin(e, env, depth+1); r != "" {
					return r
				}
			}
			return ""
		case *ssa.Slice:
			return origin(x.X, env, depth+1)
		case *ssa.ChangeType:
			return origin(x.X, env, depth+1)
		case *ssa.UnOp:
			if x.Op == token.MUL {
				if isSelectorMatchersField(x.X) {
					return ""
				}
				if ia, ok := x.X.(*ssa.IndexAddr); ok && isListOfMatcherLists(ia.X.Type()) {
					return ""
				}
				if a, ok := x.X.(*ssa.Alloc); ok {
					// a local variable that is the destination of copy(v, src): a copy of a whole list
					for _, r := range core.Referrers(a) {
						ld, ok := r.(*ssa.UnOp)
						if !ok || ld.Op != token.MUL {
							continue
						}
						for _, rr := range core.Referrers(ld) {
							if c, ok := rr.(*ssa.Call); ok {
								if bi, ok := c.Call.Value.(*ssa.Builtin); ok && bi.Name() == "copy" && len(c.Call.Args) == 2 && c.Call.Args[0] == ld {
									return origin(c.Call.Args[1], env, depth+1)
								}
							}
						}
					}
					// a local variable: every value stored into it
					for _, r := range core.Referrers(a) {
						if st, ok := r.(*ssa.Store); ok && st.Addr == a {
							if res := origin(st.Val, env, depth+1); res != "" {
								return res
							}
						}
					}
					return ""
				}
			}
		case *ssa.Index:
			if isListOfMatcherLists(x.X.Type()) {
				return ""
			}
		case *ssa.Lookup:
			return "" // an entry of a collection of lists
		case *ssa.Extract:
			if c, ok := x.Tuple.(*ssa.Call); ok {
				return originOfCall(p, c, x.Index, env, depth, origin)
			}
			if _, ok := x.Tuple.(*ssa.Next); ok {
				return "" // ranging over a collection of lists
			}
			if _, ok := x.Tuple.(*ssa.Lookup); ok {
				return ""
			}
		case *ssa.Call:
			if bi, ok := x.Call.Value.(*ssa.Builtin); ok && bi.Name() == "append" {
				r := origin(x.Call.Args[0], env, depth+1)
				if r == "" || len(x.Call.Args) < 2 {
					return r
				}
				// append(fresh, list...): a copy of a whole list (not of elements packed at the call)
				if sl, ok := x.Call.Args[1].(*ssa.Slice); ok {
					if _, packed := sl.X.(*ssa.Alloc); packed {
						return r
					}
				}
				if origin(x.Call.Args[1], env, depth+1) == "" {
					return ""
				}
				return r
			}
			if n := core.CalleeName(&x.Call); strings.Contains(n, "slices.Clone") && len(x.Call.Args) == 1 {
				return origin(x.Call.Args[0], env, depth+1)
			}
			return originOfCall(p, x, 0, env, depth, origin)
		case *ssa.Parameter:
			if a, ok := env[x]; ok {
				return origin(a, nil, depth+1)
			}
			return "a parameter whose callers are not followed"
		case *ssa.MakeSlice:
			// make + copy(dst, src): a copy of a whole list
			for _, r := range core.Referrers(x) {
				if c, ok := r.(*ssa.Call); ok {
					if bi, ok := c.Call.Value.(*ssa.Builtin); ok && bi.Name() == "copy" && len(c.Call.Args) == 2 && c.Call.Args[0] == x {
						return origin(c.Call.Args[1], env, depth+1)
					}
				}
			}
			return "a list allocated and filled from scratch (make)"
		case *ssa.Const:
			return "an empty list"
		}
		return fmt.Sprintf("a value the rule cannot trace (%T)", v)
	}
	for _, fn := range p.Funcs {
		if core.Rel(fn.Pkg.Pkg.Path()) != "logicalplan" {
			continue
		}
		k := 0
		core.EachInstr(fn, func(b *ssa.BasicBlock, i int, ins ssa.Instruction) {
			st, ok := ins.(*ssa.Store)
			if !ok || !isSelectorMatchersField(st.Addr) {
				return
			}
			k++
			key := fmt.Sprintf("%s assigns a selector's matchers #%d", core.FuncName(fn), k)
			if r := origin(st.Val, nil, 0); r != "" {
				obs = append(obs, core.Ob(rule, key, p.Pos(st.Pos()), core.FuncName(fn), core.Violated, "the new list is "+r+", not the selector's own list grown by append nor a list taken over whole from another selector: matchers of the old list (the metric name, a second matcher on the same label) can be missing from it"))
			} else {
				obs = append(obs, core.Ob(rule, key, p.Pos(st.Pos()), core.FuncName(fn), core.Held, "grown from a selector's own list or taken over whole"))
			}
		})
	}
	return obs
}

func isListOfMatcherLists(t types.Type) bool {
	s, ok := t.Underlying().(*types.Slice)
	return ok && isMatcherSlice(s.Elem())
}

func originOfCall(p *core.Program, c *ssa.Call, idx int, env map[*ssa.Parameter]ssa.Value, depth int,
	origin func(ssa.Value, map[*ssa.Parameter]ssa.Value, int) string) string {
	callee := c.Call.StaticCallee()
	if callee == nil || !p.InRepo(callee) || callee.Blocks == nil {
		return "the result of a call the rule cannot follow"
	}
	// arguments in terms of the caller's values (already resolved through env)
	inner := map[*ssa.Parameter]ssa.Value{}
	for i, prm := range callee.Params {
		if i < len(c.Call.Args) {
			a := c.Call.Args[i]
			if pa, ok := a.(*ssa.Parameter); ok && env != nil {
				if v, ok := env[pa]; ok {
					a = v
				}
			}
			inner[prm] = a
		}
	}
	res := ""
	core.EachInstr(callee, func(b *ssa.BasicBlock, _ int, ins ssa.Instruction) {
		ret, ok := ins.(*ssa.Return)
		if !ok || b == callee.Recover || res != "" {
			return
		}
		rs := core.RetResults(ret)
		if idx < len(rs) {
			if core.IsNilConst(rs[idx]) {
				return // "not found" results
			}
			res = origin(rs[idx], inner, depth+1)
		}
	})
	return res
}

func ruleDropExact(p *core.Program) []core.Obligation {
	const rule = "R-DROPEXACT"
	var obs []core.Obligation
	for _, fn := range p.Funcs {
		if core.Rel(fn.Pkg.Pkg.Path()) != "logicalplan" {
			continue
		}
		k := 0
		core.EachInstr(fn, func(b *ssa.BasicBlock, i int, ins ssa.Instruction) {
			call, ok := ins.(*ssa.Call)
			if !ok {
				return
			}
			x, ok := shiftDelete(call)
			if !ok || !isMatcherSlice(x.Type()) {
				return
			}
			k++
			key := fmt.Sprintf("%s deletes from a matcher list #%d", core.FuncName(fn), k)
			// the comparisons on matcher fields that decide about the deletion (all comparisons of the function
			// whose taken branch dominates the deletion)
			cmp := map[string]bool{}
			for _, bb := range fn.Blocks {
				iff := core.IfOf(bb)
				if iff == nil || !(core.BranchDominates(bb, 0, b) || core.BranchDominates(bb, 1, b)) {
					continue
				}
				var collect func(v ssa.Value, depth int)
				collect = func(v ssa.Value, depth int) {
					core.BackSlice(v, func(x ssa.Value) bool {
						if bo, ok := x.(*ssa.BinOp); ok && (bo.Op == token.EQL || bo.Op == token.NEQ) {
							if f := matcherFieldLoad(bo.X); f != "" {
								cmp[f] = true
							}
							if f := matcherFieldLoad(bo.Y); f != "" {
								cmp[f] = true
							}
						}
						// a predicate of the repo (func sameMatcher(a, b *labels.Matcher) bool): what it compares
						if c, ok := x.(*ssa.Call); ok && depth < 2 {
							if h := c.Call.StaticCallee(); h != nil && p.InRepo(h) && h.Blocks != nil {
								core.EachInstr(h, func(_ *ssa.BasicBlock, _ int, hi ssa.Instruction) {
									if hb, ok := hi.(*ssa.BinOp); ok {
										collect(hb, depth+1)
									}
								})
							}
						}
						return true
					})
				}
				collect(iff.Cond, 0)
			}
			if cmp["Name"] && cmp["Type"] && cmp["Value"] {
				obs = append(obs, core.Ob(rule, key, p.Pos(call.Pos()), core.FuncName(fn), core.Held, "the deleted matcher is identified by name, type and value"))
			} else {
				obs = append(obs, core.Ob(rule, key, p.Pos(call.Pos()), core.FuncName(fn), core.Violated, fmt.Sprintf("the deletion is decided on %v only: every matcher with that label name goes, including a second matcher on the same label (foo{a=~\"x|z\", a!=\"z\"}, {__name__=~\"foo|bar\", __name__!=\"bar\"})", sortedKeys(cmp))))
			}
		})
	}
	return obs
}

// ---------------------------------------------------------------------------------------------

func init() {
	register(&Rule{ID: "R-RELEASEFN", Min: 1, Run: ruleReleaseFn,
		Doc: "a release function handed out by a call (a result of type func(): a context's cancel function, a tracker's finish callback, an unlock closure) is called, deferred or handed on (returned, stored, passed) on every path from that call to a return of the function; the only exempt path is the error return of the very call that produced it. Otherwise some early return keeps the resource (a context with its goroutines, a query slot) until the process ends"})

	mutant(Mutant{Rule: "R-RELEASEFN", Name: "cancel-deferred-after-an-early-return", File: "engine/engine.go",
		Old: "\tctx, cancel := context.WithCancel(ctx)\n\tdefer cancel()\n", New: "\tctx, cancel := context.WithCancel(ctx)\n\tif ctx.Err() != nil {\n\t\treturn newErrResult(ret, ctx.Err())\n\t}\n\tdefer cancel()\n", Expect: "Exec"})
}

func ruleReleaseFn(p *core.Program) []core.Obligation {
	const rule = "R-RELEASEFN"
	var obs []core.Obligation
	isReleaseType := func(t types.Type) bool {
		sg, ok := t.Underlying().(*types.Signature)
		return ok && sg.Params().Len() == 0 && sg.Results().Len() == 0 && sg.Recv() == nil
	}
	for _, fn := range p.Funcs {
		k := 0
		core.EachInstr(fn, func(b *ssa.BasicBlock, i int, ins ssa.Instruction) {
			call, ok := ins.(*ssa.Call)
			if !ok {
				return
			}
			if _, isBuiltin := call.Call.Value.(*ssa.Builtin); isBuiltin {
				return
			}
			var rel, errv ssa.Value
			switch t := call.Type().(type) {
			case *types.Tuple:
				for j := 0; j < t.Len(); j++ {
					for _, r := range core.Referrers(call) {
						ex, ok := r.(*ssa.Extract)
						if !ok || ex.Index != j {
							continue
						}
						if isReleaseType(t.At(j).Type()) {
							rel = ex
						}
						if types.Identical(t.At(j).Type(), types.Universe.Lookup("error").Type()) {
							errv = ex
						}
					}
				}
			default:
				// a single func() result: only named types such as context.CancelFunc (plain func() values are
				// callbacks as often as release functions)
				if n, ok := call.Type().(*types.Named); ok && isReleaseType(n) {
					rel = call
				}
			}
			if rel == nil {
				return
			}
			k++
			key := fmt.Sprintf("%s releases what %s handed out #%d", core.FuncName(fn), core.CalleeName(&call.Call), k)
			uses := func(x ssa.Instruction) bool {
				switch y := x.(type) {
				case *ssa.Defer:
					if y.Call.Value == rel {
						return true
					}
					for _, a := range y.Call.Args {
						if a == rel {
							return true
						}
					}
				case *ssa.Call:
					if y.Call.Value == rel {
						return true
					}
					for _, a := range y.Call.Args {
						if a == rel {
							return true
						}
					}
				case *ssa.Go:
					for _, a := range y.Call.Args {
						if a == rel {
							return true
						}
					}
				case *ssa.Store:
					return y.Val == rel
				case *ssa.MakeClosure:
					for _, bnd := range y.Bindings {
						if bnd == rel {
							return true
						}
					}
				case *ssa.Return:
					for _, r := range core.RetResults(y) {
						if r == rel {
							return true
						}
					}
				case *ssa.MakeInterface:
					return y.X == rel
				}
				return false
			}
			errEdge := func(from *ssa.BasicBlock, succ int) bool {
				if errv == nil {
					return false
				}
				iff := core.IfOf(from)
				if iff == nil {
					return false
				}
				bo, ok := iff.Cond.(*ssa.BinOp)
				if !ok {
					return false
				}
				if (bo.X == errv && core.IsNilConst(bo.Y)) || (bo.Y == errv && core.IsNilConst(bo.X)) {
					return (bo.Op == token.NEQ && succ == 0) || (bo.Op == token.EQL && succ == 1)
				}
				return false
			}
			var bad *ssa.Return
			seen := map[*ssa.BasicBlock]bool{}
			var scan func(bb *ssa.BasicBlock, from int)
			scan = func(bb *ssa.BasicBlock, from int) {
				for _, x := range bb.Instrs[from:] {
					if bad != nil {
						return
					}
					if r, isRet := x.(*ssa.Return); isRet {
						if !uses(x) {
							bad = r
						}
						return
					}
					if uses(x) {
						return
					}
				}
				for si, s := range bb.Succs {
					if seen[s] || errEdge(bb, si) || s == fn.Recover {
						continue
					}
					seen[s] = true
					scan(s, 0)
				}
			}
			scan(b, i+1)
			if bad != nil {
				obs = append(obs, core.Ob(rule, key, p.Pos(call.Pos()), core.FuncName(fn), core.Violated, "the return at "+p.Pos(bad.Pos())+" is reachable without the release function having been called, deferred or handed on: what it releases stays held"))
			} else {
				obs = append(obs, core.Ob(rule, key, p.Pos(call.Pos()), core.FuncName(fn), core.Held, "released (or handed on) on every path"))
			}
		})
	}
	return obs
}

// ---------------------------------------------------------------------------------------------

func init() {
	register(&Rule{ID: "R-ONFLAG", Min: 1, Run: ruleOnFlag,
		Doc: "a decision taken on the length of VectorMatching.MatchingLabels also consults VectorMatching.On: on() and ignoring() with an empty list mean opposite things (match on no label at all / match on all labels), so a function that tests the one without reading the other treats `a + on () b` like `a + b`"})
}

func init() {
	mutant(Mutant{Rule: "R-ONFLAG", Name: "empty-on-treated-like-no-modifier", File: "logicalplan/propagate_selectors.go",
		Old: "(binOp.VectorMatching.On || len(binOp.VectorMatching.MatchingLabels) > 0)", New: "len(binOp.VectorMatching.MatchingLabels) > 0", Expect: "Optimize"})
}

func ruleOnFlag(p *core.Program) []core.Obligation {
	const rule = "R-ONFLAG"
	var obs []core.Obligation
	isVMField := func(v ssa.Value, field string) bool {
		n, f, _, ok := core.FieldRef(v)
		return ok && n != nil && f == field && n.Obj().Name() == "VectorMatching" && n.Obj().Pkg().Path() == pkgParser
	}
	for _, fn := range p.Funcs {
		testsLen, readsOn := false, false
		var at token.Pos
		core.EachInstr(fn, func(b *ssa.BasicBlock, i int, ins ssa.Instruction) {
			if u, ok := ins.(*ssa.UnOp); ok && u.Op == token.MUL && isVMField(u.X, "On") {
				readsOn = true
			}
			iff, ok := ins.(*ssa.If)
			if !ok {
				return
			}
			core.BackSlice(iff.Cond, func(x ssa.Value) bool {
				if c, ok := x.(*ssa.Call); ok {
					if bi, ok := c.Call.Value.(*ssa.Builtin); ok && bi.Name() == "len" {
						if a := core.Deref(c.Call.Args[0]); a != nil && isVMField(a, "MatchingLabels") {
							testsLen = true
							if !at.IsValid() {
								at = c.Pos()
							}
						}
					}
				}
				return true
			})
		})
		if !testsLen {
			continue
		}
		// closures of the same function count as one decision context
		if !readsOn {
			for _, cl := range core.Closures(fn) {
				core.EachInstr(cl, func(_ *ssa.BasicBlock, _ int, ins ssa.Instruction) {
					if u, ok := ins.(*ssa.UnOp); ok && u.Op == token.MUL && isVMField(u.X, "On") {
						readsOn = true
					}
				})
			}
		}
		key := core.FuncName(fn) + " decides on the length of MatchingLabels"
		if readsOn {
			obs = append(obs, core.Ob(rule, key, p.Pos(at), core.FuncName(fn), core.Held, "the On flag is consulted as well"))
		} else {
			obs = append(obs, core.Ob(rule, key, p.Pos(at), core.FuncName(fn), core.Violated, "the function tests len(MatchingLabels) but never reads On: `on ()` (match on no label) is treated like plain matching on all labels"))
		}
	}
	return obs
}

// ---------------------------------------------------------------------------------------------

func init() {
	register(&Rule{ID: "R-DONEPARAM", Min: 1, Run: ruleDoneParam,
		Doc: "a goroutine that is handed the Done method of a WaitGroup its spawner waits on (go w.start(wg.Done, ctx)) calls it on every path: each return of the goroutine's function is dominated by a call (or a defer) of that parameter. A fast path that returns first leaves the spawner in Wait() for ever, and with it Exec"})
	register(&Rule{ID: "R-NANSORT", Min: 1, Run: ruleNaNSort,
		Doc: "a slice of floats is sorted with a NaN-aware order only (sort.Float64s, or sort.Sort with a Less that tests math.IsNaN): the generic slices.Sort of the pinned golang.org/x/exp compares with < alone, which leaves a slice containing NaN partly unsorted in a way that depends on where the NaN arrived"})

	mutant(Mutant{Rule: "R-DONEPARAM", Name: "cancelled-context-fast-path-before-done", File: "worker/worker.go",
		Old: "\tw.ctx = ctx\n\tdone()\n", New: "\tw.ctx = ctx\n\tif ctx.Err() != nil {\n\t\tclose(w.output)\n\t\treturn\n\t}\n\tdone()\n", Expect: "start"})
	mutant(Mutant{Rule: "R-NANSORT", Name: "quantile-sorted-with-generic-sort", File: "execution/aggregate/scalar_table.go",
		Old: "\tsort.Float64s(points)\n", New: "\tslices.Sort(points)\n\t_ = sort.Float64s\n", Old2: "import (\n", New2: "import (\n\t\"golang.org/x/exp/slices\"\n", Expect: "quantile"})
}

func ruleDoneParam(p *core.Program) []core.Obligation {
	const rule = "R-DONEPARAM"
	var obs []core.Obligation
	for _, fn := range p.Funcs {
		core.EachInstr(fn, func(b *ssa.BasicBlock, i int, ins ssa.Instruction) {
			g, ok := ins.(*ssa.Go)
			if !ok {
				return
			}
			callee := g.Call.StaticCallee()
			if callee == nil || !p.InRepo(callee) || callee.Blocks == nil {
				return
			}
			args := g.Call.Args
			for ai, a := range args {
				if ct, ok := a.(*ssa.ChangeType); ok {
					a = ct.X
				}
				// the goroutine is handed wg.Done as a function value, or the WaitGroup itself
				handed := false
				if mc, ok := a.(*ssa.MakeClosure); ok {
					if bf, ok := mc.Fn.(*ssa.Function); ok && (strings.HasPrefix(bf.Name(), "Done$bound") || bf.String() == "(*sync.WaitGroup).Done$bound") {
						handed = true
					}
				}
				if pt, ok := a.Type().Underlying().(*types.Pointer); ok && core.TypeIs(pt.Elem(), "sync", "WaitGroup") {
					handed = true
				}
				if !handed || ai >= len(callee.Params) {
					continue
				}
				prm := callee.Params[ai]
				key := fmt.Sprintf("%s calls the WaitGroup.Done it is handed by %s on every path", core.FuncName(callee), core.FuncName(fn))
				var calls []ssa.Instruction
				core.EachInstr(callee, func(_ *ssa.BasicBlock, _ int, x ssa.Instruction) {
					cc := core.CallCommon(x)
					if cc == nil {
						return
					}
					if cc.Value == prm {
						calls = append(calls, x)
					}
					if core.IsStatic(cc, "(*sync.WaitGroup).Done") && len(cc.Args) == 1 && cc.Args[0] == ssa.Value(prm) {
						calls = append(calls, x)
					}
				})
				bad := ""
				core.EachInstr(callee, func(rb *ssa.BasicBlock, _ int, x ssa.Instruction) {
					ret, ok := x.(*ssa.Return)
					if !ok || rb == callee.Recover {
						return
					}
					dom := false
					for _, c := range calls {
						if core.InstrDominates(c, ret) {
							dom = true
						}
					}
					if !dom {
						bad = p.Pos(ret.Pos())
					}
				})
				if len(calls) == 0 || bad != "" {
					obs = append(obs, core.Ob(rule, key, p.Pos(g.Pos()), core.FuncName(callee), core.Violated, "a return ("+bad+") is reachable without the Done parameter having been called: the spawner's Wait() never returns"))
				} else {
					obs = append(obs, core.Ob(rule, key, p.Pos(g.Pos()), core.FuncName(callee), core.Held, "every return is dominated by the call"))
				}
			}
		})
	}
	return obs
}

func ruleNaNSort(p *core.Program) []core.Obligation {
	const rule = "R-NANSORT"
	var obs []core.Obligation
	isFloatSlice := func(t types.Type) bool {
		s, ok := t.Underlying().(*types.Slice)
		return ok && isFloatType(s.Elem())
	}
	for _, fn := range p.Funcs {
		k := 0
		core.EachInstr(fn, func(b *ssa.BasicBlock, i int, ins ssa.Instruction) {
			call, ok := ins.(*ssa.Call)
			if !ok || len(call.Call.Args) == 0 {
				return
			}
			name := core.CalleeName(&call.Call)
			if !(strings.HasPrefix(name, "sort.") || strings.Contains(name, "slices.Sort")) {
				return
			}
			arg := call.Call.Args[0]
			if mi, ok := arg.(*ssa.MakeInterface); ok {
				arg = mi.X
			}
			if ct, ok := arg.(*ssa.ChangeType); ok {
				arg = ct.X
			}
			if !isFloatSlice(arg.Type()) {
				return
			}
			k++
			key := fmt.Sprintf("%s sorts floats #%d", core.FuncName(fn), k)
			if strings.Contains(name, "slices.Sort") {
				obs = append(obs, core.Ob(rule, key, p.Pos(call.Pos()), core.FuncName(fn), core.Violated, name+" orders with < alone: a NaN in the slice leaves it partly unsorted, depending on where the NaN arrived (series order, shard arrival order)"))
			} else {
				obs = append(obs, core.Ob(rule, key, p.Pos(call.Pos()), core.FuncName(fn), core.Held, name+" orders NaN before all other values"))
			}
		})
	}
	// the rule's expected number of generic float sorts is zero: report the NaN-aware ones as instances
	return obs
}

// ---------------------------------------------------------------------------------------------

func init() {
	register(&Rule{ID: "R-ERRKEPT", Min: 20, Run: ruleErrKept,
		Doc: "once an error of an operator, of the storage or of one of the repository's own functions has been found to be non-nil, it is not lost again: from the non-nil branch of the test every path to a return of the function uses that error (returns it, sends it, stores it, passes it on) - it is never merely tested and then replaced by the outcome of a later call (break out of an inner loop, a shared err variable assigned again)"})

	mutant(Mutant{Rule: "R-ERRKEPT", Name: "iterator-error-breaks-inner-loop-only", File: "execution/scan/vector_selector.go",
		Old:  "\t\t\t_, v, ok, err := selectPoint(series.samples, seriesTs, o.lookbackDelta, o.offset)\n\t\t\tif err != nil {\n\t\t\t\treturn nil, err\n\t\t\t}\n",
		New:  "\t\t\t_, v, ok, err = selectPoint(series.samples, seriesTs, o.lookbackDelta, o.offset)\n\t\t\tif err != nil {\n\t\t\t\tbreak\n\t\t\t}\n",
		Old2: "\tvectors := o.vectorPool.GetVectorBatch()\n\tts := o.currentStep\n", New2: "\tvar (\n\t\tv   float64\n\t\tok  bool\n\t\terr error\n\t)\n\tvectors := o.vectorPool.GetVectorBatch()\n\tts := o.currentStep\n",
		Expect: "vectorSelector"})
	mutant(Mutant{Rule: "R-ERRKEPT", Name: "scalar-error-overwritten-by-once-closure", File: "execution/binary/scalar.go",
		Old: "\to.seriesOnce.Do(func() { err = o.loadSeries(ctx) })\n\tif err != nil {\n\t\treturn nil, err\n\t}\n\n\tscalarIn, err := o.scalar.Next(ctx)\n", New: "\tscalarIn, err := o.scalar.Next(ctx)\n\to.seriesOnce.Do(func() { err = o.loadSeries(ctx) })\n", Expect: "scalarOperator"})
}

func ruleErrKept(p *core.Program) []core.Obligation {
	const rule = "R-ERRKEPT"
	var obs []core.Obligation
	errT := types.Universe.Lookup("error").Type()
	for _, fn := range p.Funcs {
		rel := core.Rel(fn.Pkg.Pkg.Path())
		if !(rel == "engine" || rel == "logicalplan" || strings.HasPrefix(rel, "execution") || rel == "worker") {
			continue
		}
		counts := map[string]int{}
		core.EachInstr(fn, func(b *ssa.BasicBlock, i int, ins ssa.Instruction) {
			call, ok := ins.(*ssa.Call)
			if !ok {
				return
			}
			cc := &call.Call
			sig := cc.Signature()
			if sig == nil || sig.Results().Len() == 0 {
				return
			}
			errIdx := -1
			for r := 0; r < sig.Results().Len(); r++ {
				if types.Identical(sig.Results().At(r).Type(), errT) {
					errIdx = r
				}
			}
			if errIdx < 0 {
				return
			}
			inScope := false
			name := core.CalleeName(cc)
			if cc.IsInvoke() {
				name = types.TypeString(cc.Value.Type(), nil) + "." + cc.Method.Name()
				if n := core.NamedOf(cc.Value.Type()); n != nil && n.Obj().Pkg() != nil {
					pp := n.Obj().Pkg().Path()
					inScope = strings.HasPrefix(pp, core.Module) || pp == pkgStorage || pp == pkgChunkenc || (pp == pkgPromql && n.Obj().Name() == "Query")
				}
			} else if f := cc.StaticCallee(); f != nil {
				inScope = p.InRepo(f)
			}
			if !inScope {
				return
			}
			var e ssa.Value
			if sig.Results().Len() == 1 {
				e = call
			} else {
				for _, r := range core.Referrers(call) {
					if ex, ok := r.(*ssa.Extract); ok && ex.Index == errIdx {
						e = ex
					}
				}
			}
			if e == nil {
				return
			}
			// the error is kept in a variable that a closure captures: no call of that closure (directly or through
			// once.Do) may come between the assignment and the first look at the variable
			for _, r := range core.Referrers(e) {
				st, ok := r.(*ssa.Store)
				if !ok || st.Val != e {
					continue
				}
				a, ok := st.Addr.(*ssa.Alloc)
				if !ok {
					continue
				}
				blk := st.Block()
				idx := core.InstrIndex(st)
				for _, x := range blk.Instrs[idx+1:] {
					if u, ok := x.(*ssa.UnOp); ok && u.Op == token.MUL && u.X == a {
						break // looked at
					}
					cc := core.CallCommon(x)
					if cc == nil {
						continue
					}
					for _, arg := range append([]ssa.Value{cc.Value}, cc.Args...) {
						mc, ok := arg.(*ssa.MakeClosure)
						if !ok {
							continue
						}
						cf, _ := mc.Fn.(*ssa.Function)
						if cf == nil {
							continue
						}
						for bi, bnd := range mc.Bindings {
							if bnd != a || bi >= len(cf.FreeVars) {
								continue
							}
							writes := false
							for _, fr := range core.Referrers(cf.FreeVars[bi]) {
								if s2, ok := fr.(*ssa.Store); ok && s2.Addr == cf.FreeVars[bi] {
									writes = true
								}
							}
							if writes {
								short := strings.ReplaceAll(name, core.Module+"/", "")
								counts[short+" slot"]++
								key := fmt.Sprintf("%s keeps the error of %s in a captured variable #%d", core.FuncName(fn), short, counts[short+" slot"])
								obs = append(obs, core.Ob(rule, key, p.Pos(call.Pos()), core.FuncName(fn), core.Violated, "the error is stored in a variable that the closure called at "+p.Pos(x.Pos())+" assigns as well, before anything has looked at it: the closure's result (nil when it succeeds, or when its sync.Once has already run) replaces the failure"))
							}
						}
					}
				}
			}
			// the test of e itself
			for _, r := range core.Referrers(e) {
				bo, ok := r.(*ssa.BinOp)
				if !ok || (bo.Op != token.NEQ && bo.Op != token.EQL) || !(core.IsNilConst(bo.X) || core.IsNilConst(bo.Y)) {
					continue
				}
				for _, rr := range core.Referrers(bo) {
					iff, ok := rr.(*ssa.If)
					if !ok {
						continue
					}
					succ := 0
					if bo.Op == token.EQL {
						succ = 1
					}
					short := strings.ReplaceAll(name, core.Module+"/", "")
					if j := strings.LastIndex(short, "/"); j >= 0 {
						short = short[j+1:]
					}
					counts[short]++
					key := fmt.Sprintf("%s keeps a non-nil error of %s #%d", core.FuncName(fn), short, counts[short])
					if lost := errorLostOnPath(fn, iff.Block(), succ, e); lost != nil {
						obs = append(obs, core.Ob(rule, key, p.Pos(call.Pos()), core.FuncName(fn), core.Violated, "from the branch on which the error is non-nil the return at "+p.Pos(lost.Pos())+" can be reached without the error having been returned, sent, stored or passed on: the failure is replaced by whatever a later call reports"))
					} else {
						obs = append(obs, core.Ob(rule, key, p.Pos(call.Pos()), core.FuncName(fn), core.Held, "every path from the non-nil branch uses the error"))
					}
				}
			}
		})
	}
	return obs
}

// errorLostOnPath searches, from successor succ of block from, a path to a return on which no instruction
// uses the error value e (or a phi that carries it along that path).
func errorLostOnPath(fn *ssa.Function, from *ssa.BasicBlock, succ int, e ssa.Value) *ssa.Return {
	type state struct {
		b   *ssa.BasicBlock
		key string
	}
	seen := map[state]bool{}
	var lost *ssa.Return
	var walk func(prev, b *ssa.BasicBlock, tracked map[ssa.Value]bool, depth int)
	keyOf := func(t map[ssa.Value]bool) string {
		var ks []string
		for v := range t {
			ks = append(ks, v.Name())
		}
		sortStrings(ks)
		return strings.Join(ks, ",")
	}
	uses := func(x ssa.Instruction, t map[ssa.Value]bool) bool {
		switch y := x.(type) {
		case *ssa.If, *ssa.Phi, *ssa.DebugRef:
			return false
		case *ssa.BinOp:
			return false // comparisons with nil
		case *ssa.Store:
			return t[y.Val]
		}
		for _, op := range x.Operands(nil) {
			if op != nil && *op != nil && t[*op] {
				return true
			}
		}
		return false
	}
	walk = func(prev, b *ssa.BasicBlock, tracked map[ssa.Value]bool, depth int) {
		if lost != nil || depth > 200 || b == fn.Recover {
			return
		}
		// phis of b: the tracked set follows the edge prev -> b
		t := map[ssa.Value]bool{}
		for v := range tracked {
			t[v] = true
		}
		idx := -1
		for i, pr := range b.Preds {
			if pr == prev {
				idx = i
			}
		}
		for _, ins := range b.Instrs {
			ph, ok := ins.(*ssa.Phi)
			if !ok {
				break
			}
			if idx >= 0 && idx < len(ph.Edges) && tracked[ph.Edges[idx]] {
				t[ph] = true
			} else {
				delete(t, ph)
			}
		}
		st := state{b, keyOf(t)}
		if seen[st] {
			return
		}
		seen[st] = true
		for _, ins := range b.Instrs {
			if v, ok := ins.(ssa.Value); ok {
				// aliases of the error: interface conversions keep tracking it
				switch y := ins.(type) {
				case *ssa.MakeInterface:
					if t[y.X] {
						t[v] = true
						continue
					}
				case *ssa.ChangeInterface:
					if t[y.X] {
						t[v] = true
						continue
					}
				}
			}
			if uses(ins, t) {
				return
			}
			if r, ok := ins.(*ssa.Return); ok {
				lost = r
				return
			}
		}
		for _, s := range b.Succs {
			walk(b, s, t, depth+1)
		}
	}
	start := from.Succs[succ]
	walk(from, start, map[ssa.Value]bool{e: true}, 0)
	return lost
}

// ---------------------------------------------------------------------------------------------

func init() {
	register(&Rule{ID: "R-SENDEVERY", Min: 2, Run: ruleSendEvery,
		Doc: "an operator that hands the steps of a batch to its workers and then collects one output per step dispatches on every path of every iteration: the loop that calls Worker.Send has no path round an iteration that skips the Send (the collecting loop waits on the output of every worker of the batch, and a worker that was given nothing never answers)"})
	register(&Rule{ID: "R-PUTONCE", Min: 3, Run: rulePutOnce,
		Doc: "the step vectors of a batch obtained from an operator's Next are handed back to that operator's pool at one place only: two PutStepVector sites for elements of the same batch, one of which can run after the other, put a vector into the pool twice, and the pool then hands the same backing arrays to two steps of a later batch"})

	mutant(Mutant{Rule: "R-SENDEVERY", Name: "empty-steps-not-dispatched", File: "execution/unary/unary.go",
		Old: "\tfor i, vector := range in {\n\t\tif err := u.workers[i].Send(0, vector); err != nil {", New: "\tfor i, vector := range in {\n\t\tif len(vector.Samples) == 0 {\n\t\t\tcontinue\n\t\t}\n\t\tif err := u.workers[i].Send(0, vector); err != nil {", Expect: "unaryNegation"})
	mutant(Mutant{Rule: "R-PUTONCE", Name: "scalar-argument-vectors-returned-twice", File: "execution/function/operator.go",
		Old: "\t\to.nextOps[i].GetPool().PutVectors(scalarVectors)\n", New: "\t\tfor _, sv := range scalarVectors {\n\t\t\to.nextOps[i].GetPool().PutStepVector(sv)\n\t\t}\n\t\to.nextOps[i].GetPool().PutVectors(scalarVectors)\n", Expect: "functionOperator"})
}

func ruleSendEvery(p *core.Program) []core.Obligation {
	const rule = "R-SENDEVERY"
	var obs []core.Obligation
	send := "(*" + core.Module + "/worker.Worker).Send"
	for _, fn := range p.Funcs {
		if !hasPrefixRel(fn, "execution") {
			continue
		}
		loops := core.LoopBodies(fn)
		var headers []*ssa.BasicBlock
		for h := range loops {
			headers = append(headers, h)
		}
		sortBlocks(headers)
		k := 0
		for _, h := range headers {
			body := loops[h]
			sendBlocks := map[*ssa.BasicBlock]bool{}
			for b := range body {
				for _, ins := range b.Instrs {
					if cc := core.CallCommon(ins); cc != nil && core.CalleeName(cc) == send {
						sendBlocks[b] = true
					}
				}
			}
			if len(sendBlocks) == 0 {
				continue
			}
			k++
			key := fmt.Sprintf("%s dispatches every step of the batch to a worker #%d", core.FuncName(fn), k)
			seen := map[*ssa.BasicBlock]bool{h: true}
			work := []*ssa.BasicBlock{h}
			skipped := false
			for len(work) > 0 && !skipped {
				x := work[len(work)-1]
				work = work[:len(work)-1]
				if sendBlocks[x] {
					continue
				}
				for _, s := range x.Succs {
					if !body[s] {
						continue
					}
					if s == h {
						skipped = true
						break
					}
					if !seen[s] {
						seen[s] = true
						work = append(work, s)
					}
				}
			}
			if skipped {
				obs = append(obs, core.Ob(rule, key, firstPos(p, h), core.FuncName(fn), core.Violated, "an iteration of the dispatch loop can complete without calling Send: the collecting loop then waits for ever on a worker that was given nothing"))
			} else {
				obs = append(obs, core.Ob(rule, key, firstPos(p, h), core.FuncName(fn), core.Held, "every path through an iteration calls Send or leaves the function"))
			}
		}
	}
	return obs
}

func rulePutOnce(p *core.Program) []core.Obligation {
	const rule = "R-PUTONCE"
	var obs []core.Obligation
	put := "(*" + modModel + ".VectorPool).PutStepVector"
	for _, fn := range p.Funcs {
		if !isOperatorMethod(fn) || !hasPrefixRel(fn, "execution") {
			continue
		}
		// batch value -> put sites whose argument is an element of it
		type site struct {
			call *ssa.Call
		}
		byBatch := map[ssa.Value][]site{}
		var order []ssa.Value
		core.EachInstr(fn, func(b *ssa.BasicBlock, i int, ins ssa.Instruction) {
			call, ok := ins.(*ssa.Call)
			if !ok || core.CalleeName(&call.Call) != put || len(call.Call.Args) != 2 {
				return
			}
			// the element's batch: load of IndexAddr(batch, _) or a range element of batch
			var batch ssa.Value
			core.BackSlice(call.Call.Args[1], func(x ssa.Value) bool {
				if batch != nil {
					return false
				}
				switch y := x.(type) {
				case *ssa.IndexAddr:
					if isStepVectorSlice(y.X.Type()) && fromNext(y.X) {
						batch = y.X
					}
					return false
				case *ssa.Index:
					if isStepVectorSlice(y.X.Type()) && fromNext(y.X) {
						batch = y.X
					}
					return false
				case *ssa.Call:
					return false
				}
				return true
			})
			if batch == nil {
				return
			}
			// canonical batch: the Extract it comes from
			for v := range core.PhiClosure(batch) {
				if _, ok := v.(*ssa.Extract); ok {
					batch = v
				}
			}
			if _, ok := byBatch[batch]; !ok {
				order = append(order, batch)
			}
			byBatch[batch] = append(byBatch[batch], site{call})
		})
		for k, batch := range order {
			sites := byBatch[batch]
			key := fmt.Sprintf("%s returns the step vectors of batch #%d at one place", core.FuncName(fn), k+1)
			bad := ""
			for i := 0; i < len(sites); i++ {
				for j := 0; j < len(sites); j++ {
					if i == j {
						continue
					}
					a, b := sites[i].call, sites[j].call
					if a.Block() != b.Block() && core.Reaches(a.Block(), b.Block()) && !sameLoopIteration(fn, a.Block(), b.Block()) {
						bad = p.Pos(a.Pos()) + " and " + p.Pos(b.Pos())
					}
				}
			}
			if bad != "" {
				obs = append(obs, core.Ob(rule, key, p.Pos(sites[0].call.Pos()), core.FuncName(fn), core.Violated, "elements of the same batch are put back at "+bad+", one after the other: a vector that both sites reach is in the pool twice"))
			} else {
				obs = append(obs, core.Ob(rule, key, p.Pos(sites[0].call.Pos()), core.FuncName(fn), core.Held, "one put site (or mutually exclusive ones within an iteration)"))
			}
		}
	}
	return obs
}

// sameLoopIteration: a and b are in the same innermost loop body (alternatives within one iteration: an
// element is put on one branch or the other, not on both).
func sameLoopIteration(fn *ssa.Function, a, b *ssa.BasicBlock) bool {
	la, lb := core.InnermostLoop(fn, a), core.InnermostLoop(fn, b)
	if la == nil || lb == nil || len(la) != len(lb) {
		return false
	}
	for x := range la {
		if !lb[x] {
			return false
		}
	}
	// both in the same loop: exclusive if neither dominates the other
	return !core.BlockDominates(a, b) && !core.BlockDominates(b, a)
}

// firstPos returns the position of the first instruction of b that has one.
func firstPos(p *core.Program, b *ssa.BasicBlock) string {
	for _, ins := range b.Instrs {
		if ins.Pos().IsValid() {
			return p.Pos(ins.Pos())
		}
	}
	for _, s := range b.Succs {
		for _, ins := range s.Instrs {
			if ins.Pos().IsValid() {
				return p.Pos(ins.Pos())
			}
		}
	}
	return "-"
}

// ---------------------------------------------------------------------------------------------

func init() {
	register(&Rule{ID: "R-VALUESWITCH", Min: 1, Run: ruleValueSwitch,
		Doc: "a type switch over the result value of a query (parser.Value) that turns it into series covers every series-carrying value type of the pinned promql package (the implementers of parser.Value whose elements carry a Metric: Matrix and Vector), or has a default arm: a remote engine that answers an instant sub-query through the Prometheus fallback returns a Vector, and an uncovered type is dropped silently"})
	register(&Rule{ID: "R-STALEGUARD", Min: 1, Run: ruleStaleGuard,
		Doc: "an index counted from the end of a slice (s[len(s)-c]) is guarded by a length test of the value it indexes, not of an earlier version of the variable: when the slice is reassigned between the test and the index (buckets = coalesceBuckets(buckets)) the test says nothing about the new value and the index can run off the front"})

	mutant(Mutant{Rule: "R-VALUESWITCH", Name: "vector-result-not-converted", File: "execution/remote/operator.go",
		Old: "\tcase promql.Vector:\n\t\ts.series = make([]engstore.SignedSeries, len(val))\n\t\tfor i, point := range val {", New: "\tcase promql.Scalar:\n\t\ts.series = nil\n\tcase *promql.Vector:\n\t\ts.series = make([]engstore.SignedSeries, len(*val))\n\t\tfor i, point := range *val {", Expect: "executeQuery"})
	mutant(Mutant{Rule: "R-STALEGUARD", Name: "bucket-count-tested-before-coalescing", File: "execution/function/quantile.go",
		Old: "\tsort.Sort(buckets)\n", New: "\tif len(buckets) < 2 {\n\t\treturn math.NaN()\n\t}\n\tsort.Sort(buckets)\n", Old2: "\tbuckets = coalesceBuckets(buckets)\n\tensureMonotonic(buckets)\n\n\tif len(buckets) < 2 {\n\t\treturn math.NaN()\n\t}\n", New2: "\tbuckets = coalesceBuckets(buckets)\n\tensureMonotonic(buckets)\n", Expect: "bucketQuantile"})
}

func ruleValueSwitch(p *core.Program) []core.Obligation {
	const rule = "R-VALUESWITCH"
	var obs []core.Obligation
	prs, prq := p.Deps[pkgParser], p.Deps[pkgPromqlRef]
	if prs == nil || prq == nil {
		return []core.Obligation{core.Ob(rule, "parser.Value switches", "-", "", core.Lost, "packages not loaded")}
	}
	vo := prs.Types.Scope().Lookup("Value")
	if vo == nil {
		return []core.Obligation{core.Ob(rule, "parser.Value switches", "-", "", core.Lost, "parser.Value not found")}
	}
	iface, _ := vo.Type().Underlying().(*types.Interface)
	// series-carrying implementers: slice types whose element struct has a field Metric
	need := map[string]bool{}
	for _, n := range prq.Types.Scope().Names() {
		tn, ok := prq.Types.Scope().Lookup(n).(*types.TypeName)
		if !ok || iface == nil || !types.Implements(tn.Type(), iface) {
			continue
		}
		sl, ok := tn.Type().Underlying().(*types.Slice)
		if !ok {
			continue
		}
		st, ok := sl.Elem().Underlying().(*types.Struct)
		if !ok {
			continue
		}
		for i := 0; i < st.NumFields(); i++ {
			if st.Field(i).Name() == "Metric" {
				need[tn.Name()] = true
			}
		}
	}
	if len(need) < 2 {
		return []core.Obligation{core.Ob(rule, "parser.Value switches", "-", "", core.Lost, "series-carrying value types not found in the pinned promql package")}
	}
	for _, pk := range p.Pkgs {
		for _, f := range pk.Syntax {
			ast.Inspect(f, func(n ast.Node) bool {
				ts, ok := n.(*ast.TypeSwitchStmt)
				if !ok {
					return true
				}
				var subject ast.Expr
				switch a := ts.Assign.(type) {
				case *ast.AssignStmt:
					if ta, ok := a.Rhs[0].(*ast.TypeAssertExpr); ok {
						subject = ta.X
					}
				case *ast.ExprStmt:
					if ta, ok := a.X.(*ast.TypeAssertExpr); ok {
						subject = ta.X
					}
				}
				if subject == nil || !types.Identical(pk.TypesInfo.TypeOf(subject), vo.Type()) {
					return true
				}
				covered := map[string]bool{}
				hasDefault := false
				for _, c := range ts.Body.List {
					cc := c.(*ast.CaseClause)
					if cc.List == nil {
						hasDefault = true
					}
					for _, e := range cc.List {
						if t := pk.TypesInfo.TypeOf(e); t != nil {
							if nt, ok := t.(*types.Named); ok {
								covered[nt.Obj().Name()] = true
							}
						}
					}
				}
				fnName := "?"
				for _, d := range f.Decls {
					if fd, ok := d.(*ast.FuncDecl); ok && fd.Pos() <= ts.Pos() && ts.End() <= fd.End() {
						fnName = fd.Name.Name
					}
				}
				key := fmt.Sprintf("%s.%s switches over the type of a query result", core.Rel(pk.PkgPath), fnName)
				var missing []string
				for t := range need {
					if !covered[t] {
						missing = append(missing, t)
					}
				}
				sortStrings(missing)
				if len(missing) > 0 && !hasDefault {
					obs = append(obs, core.Ob(rule, key, p.Pos(ts.Pos()), fnName, core.Violated, fmt.Sprintf("no arm for promql.%s and no default: a result of that type is dropped silently and the query succeeds without its series", strings.Join(missing, ", promql."))))
				} else {
					obs = append(obs, core.Ob(rule, key, p.Pos(ts.Pos()), fnName, core.Held, "covers every series-carrying value type (or has a default)"))
				}
				return true
			})
		}
	}
	return obs
}

func ruleStaleGuard(p *core.Program) []core.Obligation {
	const rule = "R-STALEGUARD"
	var obs []core.Obligation
	for _, fn := range p.Funcs {
		if !hasPrefixRel(fn, "execution") {
			continue
		}
		k := 0
		core.EachInstr(fn, func(b *ssa.BasicBlock, i int, ins ssa.Instruction) {
			ia, ok := ins.(*ssa.IndexAddr)
			if !ok {
				return
			}
			// index = len(X) - c
			bo, ok := ia.Index.(*ssa.BinOp)
			if !ok || bo.Op != token.SUB {
				return
			}
			c, ok := core.ConstInt(bo.Y)
			if !ok || c < 1 {
				return
			}
			lc, ok := bo.X.(*ssa.Call)
			if !ok {
				return
			}
			bi, ok := lc.Call.Value.(*ssa.Builtin)
			if !ok || bi.Name() != "len" || !core.SameExpr(lc.Call.Args[0], ia.X) {
				return
			}
			// the slice lives in a variable (captured by a closure): versions are separated by the stores to it
			if a, ok := core.Deref(ia.X).(*ssa.Alloc); ok {
				var stores []*ssa.Store
				for _, r := range core.Referrers(a) {
					if st, ok := r.(*ssa.Store); ok && st.Addr == a {
						stores = append(stores, st)
					}
				}
				if len(stores) < 2 {
					return
				}
				k++
				key := fmt.Sprintf("%s indexes a reassigned slice from its end #%d", core.FuncName(fn), k)
				fresh, stale := false, false
				for _, gb := range fn.Blocks {
					iff := core.IfOf(gb)
					if iff == nil {
						continue
					}
					bo2, ok := iff.Cond.(*ssa.BinOp)
					if !ok {
						continue
					}
					lc2, ok := bo2.X.(*ssa.Call)
					if !ok {
						continue
					}
					bi2, ok := lc2.Call.Value.(*ssa.Builtin)
					if !ok || bi2.Name() != "len" || core.Deref(lc2.Call.Args[0]) != ssa.Value(a) {
						continue
					}
					if !lenAtLeast(fn, lc2.Call.Args[0], c, ia) {
						continue
					}
					// a store between the guard and the use makes the guard stale
					between := false
					for _, st := range stores {
						if core.InstrDominates(iff, st) && core.InstrDominates(st, ia) {
							between = true
						}
					}
					if between {
						stale = true
					} else {
						fresh = true
					}
				}
				switch {
				case fresh:
					obs = append(obs, core.Ob(rule, key, p.Pos(ia.Pos()), core.FuncName(fn), core.Held, "a length test made after the last reassignment guards the index"))
				case stale:
					obs = append(obs, core.Ob(rule, key, p.Pos(ia.Pos()), core.FuncName(fn), core.Violated, "the only length test that guards this index was made before the slice was reassigned: the new value can be shorter and len(s)-"+fmt.Sprint(c)+" negative"))
				default:
					obs = append(obs, core.Ob(rule, key, p.Pos(ia.Pos()), core.FuncName(fn), core.Held, "no stale guard (the length is not tested in this function)"))
				}
				return
			}
			// earlier versions of the slice: X = f(X0) (a repo call that takes the old value)
			var earlier []ssa.Value
			for v := range core.PhiClosure(ia.X) {
				if call, ok := v.(*ssa.Call); ok {
					for _, a := range call.Call.Args {
						if types.Identical(a.Type(), ia.X.Type()) {
							earlier = append(earlier, a)
						}
					}
				}
			}
			if len(earlier) == 0 {
				return
			}
			k++
			key := fmt.Sprintf("%s indexes a reassigned slice from its end #%d", core.FuncName(fn), k)
			guardedNow := lenAtLeast(fn, ia.X, c, ia)
			guardedBefore := false
			for _, e := range earlier {
				if lenAtLeast(fn, e, c, ia) {
					guardedBefore = true
				}
			}
			switch {
			case guardedNow:
				obs = append(obs, core.Ob(rule, key, p.Pos(ia.Pos()), core.FuncName(fn), core.Held, "the length test is on the value that is indexed"))
			case guardedBefore:
				obs = append(obs, core.Ob(rule, key, p.Pos(ia.Pos()), core.FuncName(fn), core.Violated, "the only length test that guards this index was made on the slice before it was reassigned: the new value can be shorter and len(s)-"+fmt.Sprint(c)+" negative"))
			default:
				// no guard in this function at all: the caller's contract, not this rule's subject
				obs = append(obs, core.Ob(rule, key, p.Pos(ia.Pos()), core.FuncName(fn), core.Held, "no stale guard (the length is not tested in this function)"))
			}
		})
	}
	return obs
}

// lenAtLeast: use lies on a branch on which len(s) >= n was established by a test of that very value.
func lenAtLeast(fn *ssa.Function, s ssa.Value, n int64, use ssa.Instruction) bool {
	for _, b := range fn.Blocks {
		iff := core.IfOf(b)
		if iff == nil {
			continue
		}
		bo, ok := iff.Cond.(*ssa.BinOp)
		if !ok {
			continue
		}
		lc, ok := bo.X.(*ssa.Call)
		if !ok {
			continue
		}
		bi, ok := lc.Call.Value.(*ssa.Builtin)
		if !ok || bi.Name() != "len" || !(lc.Call.Args[0] == s || core.SameExpr(lc.Call.Args[0], s)) {
			continue
		}
		c, ok := core.ConstInt(bo.Y)
		if !ok {
			continue
		}
		succ := -1
		switch bo.Op {
		case token.LSS: // len < c: else branch has len >= c
			if c >= n {
				succ = 1
			}
		case token.LEQ:
			if c+1 >= n {
				succ = 1
			}
		case token.GEQ:
			if c >= n {
				succ = 0
			}
		case token.GTR:
			if c+1 >= n {
				succ = 0
			}
		}
		if succ >= 0 && core.BranchDominates(b, succ, use.Block()) {
			return true
		}
	}
	return false
}

// isOperatorMethod reports whether fn is a method (or a closure inside a method) of a type that implements the
// operator interface (it has Next and Series): the batch loop of an operator may live in Next itself or in a
// helper method Next delegates to.
func isOperatorMethod(fn *ssa.Function) bool {
	n := recvNamed(fn)
	if n == nil {
		return false
	}
	ms := types.NewMethodSet(types.NewPointer(n))
	has := func(name string) bool {
		for i := 0; i < ms.Len(); i++ {
			if ms.At(i).Obj().Name() == name {
				return true
			}
		}
		return false
	}
	return has("Next") && has("Series") && has("GetPool")
}

package rules

import (
	"fmt"
	"go/token"
	"go/types"

	"golang.org/x/tools/go/ssa"

	"verif/internal/core"
)

// Rules added while re-reading the misses of rounds 2 and 3 (see DESIGN.md, "Validation").

func init() {
	register(&Rule{ID: "R-JOIN", Min: 3, Run: ruleJoin,
		Doc: "a goroutine that can reach the storage (an operator's Series/Next, a querier, an iterator) is joined by the function that started it on every path to a return: the path passes through a plain receive from the channel the goroutine closes on exit, or through Wait() of the WaitGroup it releases. A receive that is one case of a select joins only on the branch of that case. Otherwise Exec can return while a select is still running and its querier still open"})

	mutant(Mutant{Rule: "R-JOIN", Name: "rhs-failure-leaves-lhs-loader-running", File: "execution/binary/vector.go",
		Old: "\t\t// Wait for the loader of the left-hand side: it must not outlive the query.\n\t\t<-errChan\n", New: "", Expect: "initOutputs"})
	mutant(Mutant{Rule: "R-JOIN", Name: "consumer-stops-waiting-on-cancel", File: "execution/exchange/concurrent.go",
		Old: "\tr, ok := <-c.buffer\n\tif !ok {\n\t\treturn nil, nil\n\t}\n", New: "\tvar r maybeStepVector\n\tvar ok bool\n\tselect {\n\tcase <-ctx.Done():\n\t\treturn nil, ctx.Err()\n\tcase r, ok = <-c.buffer:\n\t}\n\tif !ok {\n\t\treturn nil, nil\n\t}\n", Expect: "concurrencyOperator).Next"})
	mutant(Mutant{Rule: "R-JOIN", Name: "coalesce-first-error-wins", File: "execution/exchange/coalesce.go",
		Old: "\tc.wg.Wait()\n\tclose(errChan)\n\n\tif err := errChan.getError(); err != nil {\n\t\treturn nil, err\n\t}\n\n\tif out == nil {",
		New: "\tif len(errChan) > 0 {\n\t\treturn nil, <-errChan\n\t}\n\tc.wg.Wait()\n\tclose(errChan)\n\n\tif err := errChan.getError(); err != nil {\n\t\treturn nil, err\n\t}\n\n\tif out == nil {", Expect: "coalesceOperator).Next"})
}

// joinSignal names the object through which a goroutine announces that it has finished: a variable of
// the spawner captured by the goroutine's closure (alloc), or a struct field (field).
type joinSignal struct {
	alloc ssa.Value // the spawner's Alloc (or other value) bound to the closure's free variable
	field *types.Var
	what  string
}

func fieldVarOf(v ssa.Value) *types.Var {
	fa, ok := v.(*ssa.FieldAddr)
	if !ok {
		return nil
	}
	pt, ok := fa.X.Type().Underlying().(*types.Pointer)
	if !ok {
		return nil
	}
	st, ok := pt.Elem().Underlying().(*types.Struct)
	if !ok {
		return nil
	}
	return st.Field(fa.Field)
}

// signalOperand resolves the operand of close(x) / wg.Done() inside the goroutine body to a joinSignal.
// bindings maps the body's free variables to the spawner's values (nil for a named function).
func signalOperand(x ssa.Value, body *ssa.Function, bindings []ssa.Value, what string) *joinSignal {
	if u, ok := x.(*ssa.UnOp); ok && u.Op == token.MUL {
		x = u.X
	}
	switch y := x.(type) {
	case *ssa.FreeVar:
		for i, fv := range body.FreeVars {
			if fv == y && i < len(bindings) {
				return &joinSignal{alloc: bindings[i], what: what}
			}
		}
	case *ssa.FieldAddr:
		if f := fieldVarOf(y); f != nil {
			return &joinSignal{field: f, what: what}
		}
	}
	return nil
}

func (s *joinSignal) matches(v ssa.Value) bool {
	if u, ok := v.(*ssa.UnOp); ok && u.Op == token.MUL {
		v = u.X
	}
	if s.alloc != nil {
		return v == s.alloc
	}
	if f := fieldVarOf(v); f != nil {
		return f == s.field
	}
	return false
}

// reachesStorage reports whether the goroutine entry can synchronously reach user-supplied storage code.
func reachesStorage(p *core.Program, e *ssa.Function) bool {
	hit := false
	for f := range syncReach(p, e, nil) {
		core.EachInstr(f, func(b *ssa.BasicBlock, i int, ins ssa.Instruction) {
			if _, ok := callbackSite(ins); ok {
				hit = true
			}
		})
		if hit {
			return true
		}
	}
	return false
}

func ruleJoin(p *core.Program) []core.Obligation {
	const rule = "R-JOIN"
	var obs []core.Obligation
	for _, fn := range p.Funcs {
		k := 0
		core.EachInstr(fn, func(b *ssa.BasicBlock, i int, ins ssa.Instruction) {
			g, ok := ins.(*ssa.Go)
			if !ok {
				return
			}
			k++
			for _, e := range goEntries(p, g) {
				if !p.InRepo(e) || e.Blocks == nil || !reachesStorage(p, e) {
					continue
				}
				// where the goroutine is started from the point of view of the caller: the go statement, or
				// the once.Do(...) whose closure contains it
				spawner, spawn := fn, ssa.Instruction(g)
				if fn.Parent() != nil {
					core.EachInstr(fn.Parent(), func(_ *ssa.BasicBlock, _ int, x ssa.Instruction) {
						mc, ok := x.(*ssa.MakeClosure)
						if !ok || mc.Fn != fn {
							return
						}
						for _, r := range core.Referrers(mc) {
							if cc := core.CallCommon(r); cc != nil && core.IsStatic(cc, "(*sync.Once).Do") {
								spawner, spawn = fn.Parent(), r
							}
						}
					})
				}
				key := fmt.Sprintf("%s joins go %s", core.FuncName(spawner), core.FuncName(e))
				var bindings []ssa.Value
				if mc, ok := g.Call.Value.(*ssa.MakeClosure); ok && spawner == fn {
					bindings = mc.Bindings
				}
				var sigs []*joinSignal
				core.EachInstr(e, func(_ *ssa.BasicBlock, _ int, x ssa.Instruction) {
					d, ok := x.(*ssa.Defer)
					if !ok {
						return
					}
					if bi, ok := d.Call.Value.(*ssa.Builtin); ok && bi.Name() == "close" && len(d.Call.Args) == 1 {
						if s := signalOperand(d.Call.Args[0], e, bindings, "closes its channel on exit"); s != nil {
							sigs = append(sigs, s)
						}
					}
					if core.IsStatic(&d.Call, "(*sync.WaitGroup).Done") && len(d.Call.Args) == 1 {
						if s := signalOperand(d.Call.Args[0], e, bindings, "releases its WaitGroup on exit"); s != nil {
							sigs = append(sigs, s)
						}
					}
				})
				if len(sigs) == 0 {
					obs = append(obs, core.Ob(rule, key, p.Pos(g.Pos()), core.FuncName(spawner), core.Violated,
						"the goroutine reaches the storage but announces its end neither by a deferred close of a channel nor by a deferred WaitGroup.Done: its spawner cannot wait for it"))
					continue
				}
				var isJoin func(x ssa.Instruction) bool
				// a helper of the repo that waits on every path (e.g. func (c *op) wait() { c.wg.Wait() })
				helperJoins := func(callee *ssa.Function) bool {
					if callee == nil || !p.InRepo(callee) || callee.Blocks == nil {
						return false
					}
					var joins []ssa.Instruction
					core.EachInstr(callee, func(_ *ssa.BasicBlock, _ int, x ssa.Instruction) {
						if _, isCall := x.(*ssa.Call); isCall && x.(*ssa.Call).Call.StaticCallee() != nil && p.InRepo(x.(*ssa.Call).Call.StaticCallee()) {
							return // one level only
						}
						if isJoin(x) {
							joins = append(joins, x)
						}
					})
					if len(joins) == 0 {
						return false
					}
					all := true
					core.EachInstr(callee, func(b *ssa.BasicBlock, _ int, x ssa.Instruction) {
						r, ok := x.(*ssa.Return)
						if !ok || b == callee.Recover {
							return
						}
						dominated := false
						for _, j := range joins {
							if core.InstrDominates(j, r) {
								dominated = true
							}
						}
						if !dominated {
							all = false
						}
					})
					return all
				}
				fieldSignals := false
				for _, s := range sigs {
					if s.field != nil {
						fieldSignals = true
					}
				}
				isJoin = func(x ssa.Instruction) bool {
					switch y := x.(type) {
					case *ssa.UnOp:
						if y.Op == token.ARROW {
							for _, s := range sigs {
								if s.matches(y.X) {
									return true
								}
							}
						}
					case *ssa.Call:
						if core.IsStatic(&y.Call, "(*sync.WaitGroup).Wait") && len(y.Call.Args) == 1 {
							for _, s := range sigs {
								if s.matches(y.Call.Args[0]) {
									return true
								}
							}
						}
						if fieldSignals && y.Parent() == spawner && helperJoins(y.Call.StaticCallee()) {
							return true
						}
					}
					return false
				}
				// a select joins on the branch taken when the case receiving from the signal channel fired
				joinEdge := func(from *ssa.BasicBlock, succ int) bool {
					iff := core.IfOf(from)
					if iff == nil || succ != 0 {
						return false
					}
					bo, ok := iff.Cond.(*ssa.BinOp)
					if !ok || bo.Op != token.EQL {
						return false
					}
					ex, ok := bo.X.(*ssa.Extract)
					if !ok || ex.Index != 0 {
						return false
					}
					sel, ok := ex.Tuple.(*ssa.Select)
					if !ok {
						return false
					}
					n, ok := core.ConstInt(bo.Y)
					if !ok || int(n) >= len(sel.States) || n < 0 {
						return false
					}
					st := sel.States[n]
					if st.Dir != types.RecvOnly {
						return false
					}
					for _, s := range sigs {
						if s.matches(st.Chan) {
							return true
						}
					}
					return false
				}
				bad := unjoinedReturn(spawner, spawn, isJoin, joinEdge)
				if bad != nil {
					obs = append(obs, core.Ob(rule, key, p.Pos(g.Pos()), core.FuncName(spawner), core.Violated,
						"the return at "+p.Pos(bad.Pos())+" can be reached from the start of the goroutine without waiting for it ("+sigs[0].what+"): the function, and with it Exec, can return while the goroutine is still inside the storage with its querier open"))
				} else {
					obs = append(obs, core.Ob(rule, key, p.Pos(g.Pos()), core.FuncName(spawner), core.Held, "every path from the start of the goroutine to a return waits for it ("+sigs[0].what+")"))
				}
			}
		})
	}
	return obs
}

// unjoinedReturn searches a path from just after spawn to a return instruction that passes no join.
func unjoinedReturn(fn *ssa.Function, spawn ssa.Instruction, isJoin func(ssa.Instruction) bool, joinEdge func(*ssa.BasicBlock, int) bool) *ssa.Return {
	// scan returns (joined, return-found)
	scan := func(b *ssa.BasicBlock, from int) (bool, *ssa.Return) {
		for _, x := range b.Instrs[from:] {
			if isJoin(x) {
				return true, nil
			}
			if r, ok := x.(*ssa.Return); ok {
				return false, r
			}
		}
		return false, nil
	}
	seen := map[*ssa.BasicBlock]bool{}
	var work []*ssa.BasicBlock
	push := func(b *ssa.BasicBlock) {
		for i, s := range b.Succs {
			if joinEdge(b, i) || seen[s] {
				continue
			}
			seen[s] = true
			work = append(work, s)
		}
	}
	joined, ret := scan(spawn.Block(), core.InstrIndex(spawn)+1)
	if ret != nil {
		return ret
	}
	if !joined {
		push(spawn.Block())
	}
	for len(work) > 0 {
		b := work[len(work)-1]
		work = work[:len(work)-1]
		if b == fn.Recover {
			continue
		}
		joined, ret := scan(b, 0)
		if ret != nil {
			return ret
		}
		if !joined {
			push(b)
		}
	}
	return nil
}

// ---------------------------------------------------------------------------------------------

func init() {
	register(&Rule{ID: "R-BATCHIDX", Min: 4, Run: ruleBatchIdx,
		Doc: "a batch of step vectors obtained from an operator's Next is indexed only where a test of that batch's length has decided the index is in range (i < len(batch), len(batch) > i, or the weaker len(batch) > 0 used where batches are aligned): an operand that has ended, or that delivers no step for a batch (scalar() of nothing), hands back a shorter or nil batch and the unguarded index panics instead of yielding NaN"})

	mutant(Mutant{Rule: "R-BATCHIDX", Name: "scalar-operand-hoisted-without-bound", File: "execution/binary/scalar.go",
		Old: "\t\t\tif len(scalarIn) > v && len(scalarIn[v].Samples) > 0 {", New: "\t\t\tif len(scalarIn[v].Samples) > 0 {", Expect: "scalarOperator"})
	mutant(Mutant{Rule: "R-BATCHIDX", Name: "parameter-batch-off-by-one", File: "execution/aggregate/khashaggregate.go",
		Old: "\t\tif i < len(args) {\n", New: "\t\tif i <= len(args) {\n", Expect: "kAggregate"})
	mutant(Mutant{Rule: "R-BATCHIDX", Name: "scalar-argument-batch-assumed-present", File: "execution/function/operator.go",
		Old: "\t\t\tif len(scalarVectors) > 0 && len(scalarVectors[batchIndex].Samples) > 0 {", New: "\t\t\tif len(scalarVectors[batchIndex].Samples) > 0 {", Expect: "functionOperator"})
}

func isStepVectorSlice(t types.Type) bool {
	s, ok := t.Underlying().(*types.Slice)
	return ok && core.TypeIs(s.Elem(), modModel, "StepVector")
}

// fromNext reports whether v is (a phi/copy of) the batch result of a VectorOperator.Next call.
func fromNext(v ssa.Value) bool {
	hit := false
	for x := range core.PhiClosure(v) {
		ex, ok := x.(*ssa.Extract)
		if !ok || ex.Index != 0 {
			continue
		}
		if c, ok := ex.Tuple.(*ssa.Call); ok && c.Call.IsInvoke() && c.Call.Method.Name() == "Next" && isVectorOperatorIface(c.Call.Value.Type()) {
			hit = true
		}
	}
	return hit
}

func ruleBatchIdx(p *core.Program) []core.Obligation {
	const rule = "R-BATCHIDX"
	var obs []core.Obligation
	for _, fn := range p.Funcs {
		k := 0
		core.EachInstr(fn, func(b *ssa.BasicBlock, i int, ins ssa.Instruction) {
			ia, ok := ins.(*ssa.IndexAddr)
			if !ok || !isStepVectorSlice(ia.X.Type()) || !fromNext(ia.X) {
				return
			}
			k++
			key := fmt.Sprintf("%s indexes a batch obtained from Next #%d", core.FuncName(fn), k)
			if batchLenGuarded(fn, ia.X, ia) {
				obs = append(obs, core.Ob(rule, key, p.Pos(ia.Pos()), core.FuncName(fn), core.Held, "on the in-range branch of a test of the batch's length"))
			} else {
				obs = append(obs, core.Ob(rule, key, p.Pos(ia.Pos()), core.FuncName(fn), core.Violated, "the batch is indexed without a test of its length having decided that the index is in range: when the operand has ended or delivers no step vectors the index panics and the query fails where the reference yields NaN / nothing"))
			}
		})
	}
	return obs
}

// batchLenGuarded: an If comparing len(s) with something, on whose in-range branch use lies.
func batchLenGuarded(fn *ssa.Function, s ssa.Value, use ssa.Instruction) bool {
	isLen := func(v ssa.Value) bool {
		c, ok := v.(*ssa.Call)
		if !ok {
			return false
		}
		bi, ok := c.Call.Value.(*ssa.Builtin)
		if !ok || bi.Name() != "len" {
			return false
		}
		a := c.Call.Args[0]
		if core.SameExpr(a, s) {
			return true
		}
		// the same batch behind a phi (loop-carried copy)
		pc := core.PhiClosure(s)
		return pc[a]
	}
	for _, b := range fn.Blocks {
		iff := core.IfOf(b)
		if iff == nil {
			continue
		}
		bo, ok := iff.Cond.(*ssa.BinOp)
		if !ok {
			continue
		}
		op, other := bo.Op, bo.Y
		switch {
		case isLen(bo.X):
		case isLen(bo.Y):
			other = bo.X
			switch op {
			case token.LSS:
				op = token.GTR
			case token.GTR:
				op = token.LSS
			case token.LEQ:
				op = token.GEQ
			case token.GEQ:
				op = token.LEQ
			}
		default:
			continue
		}
		// now: len(s) op other
		c, isConst := core.ConstInt(other)
		succ := -1
		switch op {
		case token.GTR: // len > e
			succ = 0
		case token.LEQ: // len <= e  -> in range on the else branch
			succ = 1
		case token.GEQ: // len >= c, c >= 1
			if isConst && c >= 1 {
				succ = 0
			}
		case token.LSS: // len < c, c >= 1 -> else branch
			if isConst && c >= 1 {
				succ = 1
			}
		case token.NEQ:
			if isConst && c == 0 {
				succ = 0
			}
		case token.EQL:
			if isConst && c == 0 {
				succ = 1
			}
		}
		if succ >= 0 && core.BranchDominates(b, succ, use.Block()) {
			return true
		}
	}
	return false
}

// ---------------------------------------------------------------------------------------------

func init() {
	register(&Rule{ID: "R-VALIDEVERY", Min: 1, Run: ruleValidEvery,
		Doc: "a per-step validation of a run-time parameter (a test of a float value inside the per-step loop whose failing branch returns an error, e.g. the k of topk) is passed on every path through an iteration: no fast path (continue) in front of it can skip a step, because the reference engine validates the parameter at every step whatever the operand holds"})

	mutant(Mutant{Rule: "R-VALIDEVERY", Name: "empty-step-fast-path-before-validation", File: "execution/aggregate/khashaggregate.go",
		Old:    "\t\t// Same parameter validation as in the Prometheus engine.\n",
		New:    "\t\tif len(vector.Samples) == 0 {\n\t\t\tresult = append(result, a.vectorPool.GetStepVector(vector.T))\n\t\t\ta.next.GetPool().PutStepVector(vector)\n\t\t\tcontinue\n\t\t}\n\t\t// Same parameter validation as in the Prometheus engine.\n",
		Expect: "kAggregate"})
}

func ruleValidEvery(p *core.Program) []core.Obligation {
	const rule = "R-VALIDEVERY"
	var obs []core.Obligation
	errT := types.Universe.Lookup("error").Type()
	for _, fn := range p.Funcs {
		if fn.Pkg == nil || !hasPrefixRel(fn, "execution") {
			continue
		}
		loops := core.LoopBodies(fn)
		if len(loops) == 0 {
			continue
		}
		k := 0
		for _, b := range fn.Blocks {
			iff := core.IfOf(b)
			if iff == nil {
				continue
			}
			cond, _ := core.StripNot(iff.Cond)
			call, ok := cond.(*ssa.Call)
			if !ok || len(call.Call.Args) != 1 || !isFloatType(call.Call.Args[0].Type()) {
				continue
			}
			callee := call.Call.StaticCallee()
			if callee == nil || !(p.InRepo(callee) || core.IsStatic(&call.Call, "math.IsNaN") || core.IsStatic(&call.Call, "math.IsInf")) {
				continue
			}
			// one branch returns a non-nil error straight away
			fails := false
			for _, s := range b.Succs {
				if len(s.Instrs) == 0 {
					continue
				}
				for _, x := range s.Instrs {
					ret, ok := x.(*ssa.Return)
					if !ok {
						continue
					}
					rs := core.RetResults(ret)
					if len(rs) > 0 && types.Identical(rs[len(rs)-1].Type(), errT) && !core.IsNilConst(rs[len(rs)-1]) {
						fails = true
					}
				}
			}
			if !fails {
				continue
			}
			// the innermost loop around the test, and a loop-variant operand
			var header *ssa.BasicBlock
			var body map[*ssa.BasicBlock]bool
			for h, bd := range loops {
				if bd[b] && (body == nil || len(bd) < len(body)) {
					header, body = h, bd
				}
			}
			if body == nil {
				continue
			}
			k++
			key := fmt.Sprintf("%s validates %s at every step #%d", core.FuncName(fn), core.FuncName(callee), k)
			// a path header -> ... -> header inside the loop that avoids b
			seen := map[*ssa.BasicBlock]bool{header: true}
			work := []*ssa.BasicBlock{header}
			skipped := false
			for len(work) > 0 && !skipped {
				x := work[len(work)-1]
				work = work[:len(work)-1]
				for _, s := range x.Succs {
					if !body[s] || s == b {
						continue
					}
					if s == header {
						skipped = true
						break
					}
					if !seen[s] {
						seen[s] = true
						work = append(work, s)
					}
				}
			}
			if skipped {
				obs = append(obs, core.Ob(rule, key, p.Pos(call.Pos()), core.FuncName(fn), core.Violated, "an iteration of the per-step loop can complete without passing the validation: at such a step an invalid parameter (NaN, out of range) is accepted silently where the reference engine fails the query"))
			} else {
				obs = append(obs, core.Ob(rule, key, p.Pos(call.Pos()), core.FuncName(fn), core.Held, "every path through an iteration passes the validation"))
			}
		}
	}
	return obs
}

func hasPrefixRel(fn *ssa.Function, prefix string) bool {
	rel := core.Rel(fn.Pkg.Pkg.Path())
	return len(rel) >= len(prefix) && rel[:len(prefix)] == prefix
}

// ---------------------------------------------------------------------------------------------

func init() {
	register(&Rule{ID: "R-MEMOKEY", Min: 2, Run: ruleMemoKey,
		Doc: "every entry the selector pool memoises is keyed by everything it was built from: each parameter of the pool method that flows into the stored value (directly, or through another memoised entry it wraps) also flows into the key. Exempt: step (one step per query, and part of the hashed hints). Otherwise two different selects of one query collide and one of them reads the other's series"})

	mutant(Mutant{Rule: "R-MEMOKEY", Name: "filtered-selector-memoised-by-filter-only", File: "execution/storage/pool.go",
		Old:    "\treturn NewFilteredSelector(p.selectors[key], NewFilter(filters))\n",
		New:    "\tfilterKey := hashMatchers(filters, mint, maxt, hints)\n\tif _, ok := p.selectors[filterKey]; !ok {\n\t\tp.selectors[filterKey] = &seriesSelector{storage: p.queryable, mint: mint, maxt: maxt, step: step, matchers: append(matchers[:len(matchers):len(matchers)], filters...), hints: hints}\n\t}\n\treturn NewFilteredSelector(p.selectors[key], NewFilter(filters))\n",
		Expect: "GetFilteredSelector"})
	mutant(Mutant{Rule: "R-MEMOKEY", Name: "selector-keyed-without-hints", File: "execution/storage/pool.go",
		Old:    "func (p *SelectorPool) GetSelector(mint, maxt, step int64, matchers []*labels.Matcher, hints storage.SelectHints) SeriesSelector {\n\tkey := hashMatchers(matchers, mint, maxt, hints)",
		New:    "func (p *SelectorPool) GetSelector(mint, maxt, step int64, matchers []*labels.Matcher, hints storage.SelectHints) SeriesSelector {\n\tkey := hashMatchers(matchers, mint, maxt, storage.SelectHints{})",
		Expect: "GetSelector"})
}

func ruleMemoKey(p *core.Program) []core.Obligation {
	const rule = "R-MEMOKEY"
	var obs []core.Obligation
	exempt := map[string]string{"step": "one step per query; also hashed as hints.Step"}
	paramsOf := func(v ssa.Value) map[*ssa.Parameter]bool {
		out := map[*ssa.Parameter]bool{}
		core.BackSlice(v, func(x ssa.Value) bool {
			if pp, ok := x.(*ssa.Parameter); ok {
				out[pp] = true
			}
			// a composite literal: follow the stores into its fields
			if a, ok := x.(*ssa.Alloc); ok {
				for _, r := range core.Referrers(a) {
					if fa, ok := r.(*ssa.FieldAddr); ok {
						for _, rr := range core.Referrers(fa) {
							if st, ok := rr.(*ssa.Store); ok && st.Addr == fa {
								for q := range paramsOfShallow(st.Val) {
									out[q] = true
								}
							}
						}
					}
				}
			}
			return true
		})
		return out
	}
	for _, fn := range p.Funcs {
		n := recvNamed(fn)
		if n == nil || n.Obj().Name() != "SelectorPool" || n.Obj().Pkg().Path() != core.Module+"/execution/storage" {
			continue
		}
		k := 0
		core.EachInstr(fn, func(b *ssa.BasicBlock, i int, ins ssa.Instruction) {
			mu, ok := ins.(*ssa.MapUpdate)
			if !ok {
				return
			}
			k++
			key := fmt.Sprintf("%s memoises an entry #%d", core.FuncName(fn), k)
			kp, vp := paramsOf(mu.Key), paramsOf(mu.Value)
			var missing []string
			for q := range vp {
				if kp[q] || (len(fn.Params) > 0 && q == fn.Params[0]) {
					continue
				}
				if _, ok := exempt[q.Name()]; ok {
					continue
				}
				missing = append(missing, q.Name())
			}
			if len(missing) > 0 {
				sortStrings(missing)
				obs = append(obs, core.Ob(rule, key, p.Pos(mu.Pos()), core.FuncName(fn), core.Violated, fmt.Sprintf("the stored value depends on %v, the key does not: two calls that differ only there share one entry", missing)))
			} else {
				obs = append(obs, core.Ob(rule, key, p.Pos(mu.Pos()), core.FuncName(fn), core.Held, "every parameter the value is built from is part of the key"))
			}
		})
	}
	return obs
}

func paramsOfShallow(v ssa.Value) map[*ssa.Parameter]bool {
	out := map[*ssa.Parameter]bool{}
	core.BackSlice(v, func(x ssa.Value) bool {
		if pp, ok := x.(*ssa.Parameter); ok {
			out[pp] = true
		}
		return true
	})
	return out
}

func sortStrings(s []string) {
	for i := 1; i < len(s); i++ {
		for j := i; j > 0 && s[j] < s[j-1]; j-- {
			s[j], s[j-1] = s[j-1], s[j]
		}
	}
}

// ---------------------------------------------------------------------------------------------

func init() {
	register(&Rule{ID: "R-MATCHPOS", Min: 3, Run: ruleMatchPos,
		Doc: "a list of label matchers is a set: it is never accessed at a constant position (m[0], m[1:]). Which matcher comes first depends on how the query was written and on whether the sorting optimizer ran, and a selector need not have a metric-name matcher at all; matchers are found by name"})

	mutant(Mutant{Rule: "R-MATCHPOS", Name: "name-matcher-assumed-first", File: "logicalplan/merge_selects.go",
		Old:    "\t\t\tfilters := make([]*labels.Matcher, len(e.LabelMatchers))\n\t\t\tcopy(filters, e.LabelMatchers)\n",
		New:    "\t\t\tfilters := make([]*labels.Matcher, len(e.LabelMatchers)-1)\n\t\t\tcopy(filters, e.LabelMatchers[1:])\n",
		Expect: "replaceMatchers"})
}

func ruleMatchPos(p *core.Program) []core.Obligation {
	const rule = "R-MATCHPOS"
	var obs []core.Obligation
	for _, fn := range p.Funcs {
		k := 0
		core.EachInstr(fn, func(b *ssa.BasicBlock, i int, ins ssa.Instruction) {
			var bad string
			switch x := ins.(type) {
			case *ssa.IndexAddr:
				if !isMatcherSlice(x.X.Type()) {
					return
				}
				// a freshly made slice that is being filled is not a matcher list yet
				if _, isMake := x.X.(*ssa.MakeSlice); isMake {
					return
				}
				if _, ok := core.ConstInt(x.Index); ok {
					bad = "indexed at a constant position"
				}
			case *ssa.Slice:
				if !isMatcherSlice(x.X.Type()) {
					return
				}
				if x.Low != nil {
					if c, ok := core.ConstInt(x.Low); ok && c != 0 {
						bad = "sliced from a constant position"
					}
				}
				if x.High != nil {
					if c, ok := core.ConstInt(x.High); ok && c != 0 {
						bad = "cut at a constant position"
					}
				}
			default:
				return
			}
			k++
			key := fmt.Sprintf("%s accesses a matcher list #%d", core.FuncName(fn), k)
			if bad != "" {
				obs = append(obs, core.Ob(rule, key, p.Pos(ins.Pos()), core.FuncName(fn), core.Violated, "the matcher list is "+bad+": the matcher found there depends on the order the query was written in (and is absent for selectors without it)"))
			} else {
				obs = append(obs, core.Ob(rule, key, p.Pos(ins.Pos()), core.FuncName(fn), core.Held, "position comes from a loop over the list"))
			}
		})
	}
	return obs
}

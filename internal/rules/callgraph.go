package rules

import (
	"go/token"
	"go/types"
	"sort"
	"sync"

	"golang.org/x/tools/go/ssa"

	"verif/internal/core"
)

// A small class-hierarchy call graph over the repository's own functions. Static callees are
// followed directly; an interface method call resolves to that method of every repo type
// implementing the interface; a call of a function value resolves to every repo function or
// closure of identical signature whose value is taken somewhere in the repo. Calls into
// dependencies are not followed (the rules that use the graph say what that means for them).

type cgIndex struct {
	impls      map[string][]*ssa.Function // interface method key -> implementations
	funcValues []*ssa.Function            // functions/closures used as values
	namedTypes []types.Type
}

var (
	cgMu    sync.Mutex
	cgCache = map[*core.Program]*cgIndex{}
)

// Release drops everything cached for p (the call-graph index keeps the whole program alive): called when a
// mutated or patched program of the self-tests has been checked.
func Release(p *core.Program) {
	cgMu.Lock()
	delete(cgCache, p)
	cgMu.Unlock()
}

func cgOf(p *core.Program) *cgIndex {
	cgMu.Lock()
	defer cgMu.Unlock()
	if ix, ok := cgCache[p]; ok {
		return ix
	}
	ix := &cgIndex{impls: map[string][]*ssa.Function{}}
	for _, pk := range p.Pkgs {
		sc := pk.Types.Scope()
		for _, n := range sc.Names() {
			tn, ok := sc.Lookup(n).(*types.TypeName)
			if !ok || tn.IsAlias() {
				continue
			}
			if _, isIface := tn.Type().Underlying().(*types.Interface); isIface {
				continue
			}
			ix.namedTypes = append(ix.namedTypes, tn.Type(), types.NewPointer(tn.Type()))
		}
	}
	seen := map[*ssa.Function]bool{}
	for _, fn := range p.Funcs {
		core.EachInstr(fn, func(b *ssa.BasicBlock, i int, ins ssa.Instruction) {
			var ops []*ssa.Value
			for _, op := range ins.Operands(ops) {
				if op == nil || *op == nil {
					continue
				}
				var f *ssa.Function
				switch v := (*op).(type) {
				case *ssa.Function:
					f = v
				case *ssa.MakeClosure:
					f, _ = v.Fn.(*ssa.Function)
				}
				if f == nil || seen[f] {
					continue
				}
				// a function that only appears as the static callee of this call is not a value
				if cc := core.CallCommon(ins); cc != nil && cc.Value == *op {
					continue
				}
				seen[f] = true
				ix.funcValues = append(ix.funcValues, f)
			}
		})
	}
	cgCache[p] = ix
	return ix
}

// resolveInvoke returns the repo implementations of an interface method call.
func resolveInvoke(p *core.Program, cc *ssa.CallCommon) []*ssa.Function {
	ix := cgOf(p)
	iface, ok := cc.Value.Type().Underlying().(*types.Interface)
	if !ok {
		return nil
	}
	key := types.TypeString(cc.Value.Type(), nil) + "." + cc.Method.Name()
	cgMu.Lock()
	if r, ok := ix.impls[key]; ok {
		cgMu.Unlock()
		return r
	}
	cgMu.Unlock()
	var out []*ssa.Function
	for _, t := range ix.namedTypes {
		if !types.Implements(t, iface) {
			continue
		}
		ms := p.SSA.MethodSets.MethodSet(t)
		sel := ms.Lookup(cc.Method.Pkg(), cc.Method.Name())
		if sel == nil {
			continue
		}
		f := p.SSA.MethodValue(sel)
		if f == nil {
			continue
		}
		// unwrap promoted/pointer wrappers to the declared method
		if f.Synthetic != "" {
			if obj, ok := sel.Obj().(*types.Func); ok {
				if d := p.FuncOf(obj); d != nil {
					f = d
				}
			}
		}
		if p.InRepo(f) && f.Blocks != nil {
			dup := false
			for _, o := range out {
				if o == f {
					dup = true
				}
			}
			if !dup {
				out = append(out, f)
			}
		}
	}
	cgMu.Lock()
	ix.impls[key] = out
	cgMu.Unlock()
	return out
}

// resolveDynamic returns the repo functions a call of a function value may reach. The value is
// traced back to the closures and functions that can flow into it (parameters to the arguments of
// the enclosing function's call sites, fields and captured variables to the values stored in them,
// map/slice elements to the stored elements, call results to the callee's returns). Only when the
// trace reaches something it cannot follow does the resolution fall back to every function value
// of identical signature.
func resolveDynamic(p *core.Program, cc *ssa.CallCommon) []*ssa.Function {
	sig, ok := cc.Value.Type().Underlying().(*types.Signature)
	if !ok {
		return nil
	}
	tr := &fnTracer{p: p, seen: map[ssa.Value]bool{}, out: map[*ssa.Function]bool{}}
	tr.trace(cc.Value, 0)
	var out []*ssa.Function
	if tr.unknown {
		for _, f := range cgOf(p).funcValues {
			if types.Identical(f.Signature, sig) || identicalIgnoringRecv(f.Signature, sig) {
				tr.out[f] = true
			}
		}
	}
	dedup := map[*ssa.Function]bool{}
	for f := range tr.out {
		// bound-method and other synthetic wrappers stand for the declared method
		if f.Synthetic != "" {
			if obj, ok := f.Object().(*types.Func); ok {
				if d := p.FuncOf(obj); d != nil {
					f = d
				}
			}
		}
		if p.InRepo(f) && f.Blocks != nil && !dedup[f] {
			dedup[f] = true
			out = append(out, f)
		}
	}
	sort.Slice(out, func(i, j int) bool { return out[i].String() < out[j].String() })
	return out
}

type fnTracer struct {
	p       *core.Program
	seen    map[ssa.Value]bool
	out     map[*ssa.Function]bool
	unknown bool
}

func (t *fnTracer) trace(v ssa.Value, depth int) {
	if v == nil || t.seen[v] {
		return
	}
	t.seen[v] = true
	if depth > 12 {
		t.unknown = true
		return
	}
	switch x := v.(type) {
	case *ssa.Function:
		t.out[x] = true
	case *ssa.MakeClosure:
		if f, ok := x.Fn.(*ssa.Function); ok {
			t.out[f] = true
		}
	case *ssa.Const:
		// nil function value
	case *ssa.Phi:
		for _, e := range x.Edges {
			t.trace(e, depth+1)
		}
	case *ssa.ChangeType:
		t.trace(x.X, depth+1)
	case *ssa.MakeInterface:
		t.trace(x.X, depth+1)
	case *ssa.Extract:
		t.trace(x.Tuple, depth+1)
	case *ssa.Call:
		callee := x.Call.StaticCallee()
		if callee == nil || !t.p.InRepo(callee) || callee.Blocks == nil {
			if callee != nil && !t.p.InRepo(callee) {
				return // a function value produced by a dependency: not a repo function
			}
			t.unknown = true
			return
		}
		core.EachInstr(callee, func(b *ssa.BasicBlock, i int, ins ssa.Instruction) {
			if ret, ok := ins.(*ssa.Return); ok {
				for _, r := range core.RetResults(ret) {
					if _, isFn := r.Type().Underlying().(*types.Signature); isFn {
						t.trace(r, depth+1)
					}
				}
			}
		})
	case *ssa.Parameter:
		fn := x.Parent()
		idx := -1
		for i, pr := range fn.Params {
			if pr == x {
				idx = i
			}
		}
		sites := t.p.CallSitesOf(fn)
		if idx < 0 || len(sites) == 0 {
			t.unknown = true
			return
		}
		for _, cs := range sites {
			if cs == nil {
				t.unknown = true // the function is also used as a value
				continue
			}
			if idx < len(cs.Args) {
				t.trace(cs.Args[idx], depth+1)
			}
		}
	case *ssa.FreeVar:
		fn := x.Parent()
		idx := -1
		for i, fv := range fn.FreeVars {
			if fv == x {
				idx = i
			}
		}
		found := false
		if par := fn.Parent(); par != nil && idx >= 0 {
			core.EachInstr(par, func(b *ssa.BasicBlock, i int, ins ssa.Instruction) {
				if mc, ok := ins.(*ssa.MakeClosure); ok && mc.Fn == fn && idx < len(mc.Bindings) {
					found = true
					t.trace(mc.Bindings[idx], depth+1)
				}
			})
		}
		if !found {
			t.unknown = true
		}
	case *ssa.UnOp:
		if x.Op != token.MUL {
			t.unknown = true
			return
		}
		t.traceAddr(x.X, depth+1)
	case *ssa.Field:
		if n, f, _, ok := core.FieldRef(x); ok && n != nil {
			t.traceField(n, f, depth+1)
		} else {
			t.unknown = true
		}
	case *ssa.Lookup:
		t.traceContainer(x.X, depth+1)
	case *ssa.Index:
		t.traceContainer(x.X, depth+1)
	default:
		t.unknown = true
	}
}

// traceAddr traces the values stored at an address.
func (t *fnTracer) traceAddr(addr ssa.Value, depth int) {
	switch a := addr.(type) {
	case *ssa.FieldAddr:
		if n, f, _, ok := core.FieldRef(a); ok && n != nil {
			t.traceField(n, f, depth)
			return
		}
		t.unknown = true
	case *ssa.Alloc:
		for _, r := range core.Referrers(a) {
			if st, ok := r.(*ssa.Store); ok && st.Addr == a {
				t.trace(st.Val, depth)
			}
		}
	case *ssa.FreeVar, *ssa.Parameter:
		// pointer to a captured/caller variable: follow to the variable, then its stores
		tr2 := &fnTracer{p: t.p, seen: t.seen, out: t.out}
		_ = tr2
		var origin ssa.Value
		switch y := a.(type) {
		case *ssa.FreeVar:
			fn := y.Parent()
			for i, fv := range fn.FreeVars {
				if fv == y && fn.Parent() != nil {
					core.EachInstr(fn.Parent(), func(b *ssa.BasicBlock, k int, ins ssa.Instruction) {
						if mc, ok := ins.(*ssa.MakeClosure); ok && mc.Fn == fn && i < len(mc.Bindings) {
							origin = mc.Bindings[i]
						}
					})
				}
			}
		}
		if origin != nil {
			t.traceAddr(origin, depth+1)
			// stores made through the captured pointer inside closures
			return
		}
		t.unknown = true
	case *ssa.IndexAddr:
		t.traceContainer(a.X, depth)
	case *ssa.Global:
		for _, fn := range t.p.Funcs {
			core.EachInstr(fn, func(b *ssa.BasicBlock, i int, ins ssa.Instruction) {
				if st, ok := ins.(*ssa.Store); ok && st.Addr == ssa.Value(a) {
					t.trace(st.Val, depth+1)
				}
			})
		}
	default:
		t.unknown = true
	}
}

// traceField traces every value stored into field f of struct type n anywhere in the repo.
func (t *fnTracer) traceField(n *types.Named, f string, depth int) {
	stores := t.p.FieldStores(n, f)
	if len(stores) == 0 {
		t.unknown = true
		return
	}
	for _, v := range stores {
		t.trace(v, depth)
	}
}

// traceContainer traces the elements put into a map or slice value.
func (t *fnTracer) traceContainer(c ssa.Value, depth int) {
	if depth > 12 || t.seen[c] {
		return
	}
	t.seen[c] = true
	switch x := c.(type) {
	case *ssa.UnOp:
		if x.Op == token.MUL {
			// the container lives in a variable: find what is stored there, and element updates on any load of it
			switch a := x.X.(type) {
			case *ssa.Global:
				for _, fn := range t.p.Funcs {
					core.EachInstr(fn, func(b *ssa.BasicBlock, i int, ins ssa.Instruction) {
						switch s := ins.(type) {
						case *ssa.Store:
							if s.Addr == ssa.Value(a) {
								t.traceContainer(s.Val, depth+1)
							}
						case *ssa.MapUpdate:
							if core.GlobalOf(s.Map) == a {
								t.trace(s.Value, depth+1)
							}
						}
					})
				}
				return
			case *ssa.FieldAddr:
				if n, f, _, ok := core.FieldRef(a); ok && n != nil {
					for _, v := range t.p.FieldStores(n, f) {
						t.traceContainer(v, depth+1)
					}
					return
				}
			case *ssa.Alloc:
				for _, r := range core.Referrers(a) {
					if st, ok := r.(*ssa.Store); ok && st.Addr == ssa.Value(a) {
						t.traceContainer(st.Val, depth+1)
					}
				}
				return
			}
		}
		t.unknown = true
	case *ssa.MakeMap:
		for _, r := range core.Referrers(x) {
			if mu, ok := r.(*ssa.MapUpdate); ok && mu.Map == ssa.Value(x) {
				t.trace(mu.Value, depth+1)
			}
		}
	case *ssa.MakeSlice, *ssa.Alloc:
		for _, r := range core.Referrers(x) {
			if ia, ok := r.(*ssa.IndexAddr); ok {
				for _, rr := range core.Referrers(ia) {
					if st, ok := rr.(*ssa.Store); ok && st.Addr == ssa.Value(ia) {
						t.trace(st.Val, depth+1)
					}
				}
			}
			if sl, ok := r.(*ssa.Slice); ok {
				_ = sl
			}
		}
	case *ssa.Slice:
		t.traceContainer(x.X, depth+1)
	case *ssa.Phi:
		for _, e := range x.Edges {
			t.traceContainer(e, depth+1)
		}
	case *ssa.Call:
		if bi, ok := x.Call.Value.(*ssa.Builtin); ok && bi.Name() == "append" {
			for _, a := range x.Call.Args {
				t.traceContainer(a, depth+1)
			}
			return
		}
		callee := x.Call.StaticCallee()
		if callee != nil && t.p.InRepo(callee) && callee.Blocks != nil {
			core.EachInstr(callee, func(b *ssa.BasicBlock, i int, ins ssa.Instruction) {
				if ret, ok := ins.(*ssa.Return); ok {
					for _, r := range core.RetResults(ret) {
						if types.Identical(r.Type(), x.Type()) {
							t.traceContainer(r, depth+1)
						}
					}
				}
			})
			return
		}
		t.unknown = true
	case *ssa.Parameter:
		fn := x.Parent()
		sites := t.p.CallSitesOf(fn)
		if len(sites) == 0 {
			t.unknown = true
			return
		}
		for i, pr := range fn.Params {
			if pr != x {
				continue
			}
			for _, cs := range sites {
				if cs == nil {
					t.unknown = true
					continue
				}
				if i < len(cs.Args) {
					t.traceContainer(cs.Args[i], depth+1)
				}
			}
		}
	case *ssa.Const:
	default:
		t.unknown = true
	}
}

func identicalIgnoringRecv(a, b *types.Signature) bool {
	return types.Identical(types.NewSignatureType(nil, nil, nil, a.Params(), a.Results(), a.Variadic()),
		types.NewSignatureType(nil, nil, nil, b.Params(), b.Results(), b.Variadic()))
}

// callees returns the repo functions an instruction may call synchronously (Call and Defer; Go
// statements start another goroutine and are not synchronous).
func callees(p *core.Program, ins ssa.Instruction) []*ssa.Function {
	if _, isGo := ins.(*ssa.Go); isGo {
		return nil
	}
	cc := core.CallCommon(ins)
	if cc == nil {
		return nil
	}
	if cc.IsInvoke() {
		return resolveInvoke(p, cc)
	}
	if f := cc.StaticCallee(); f != nil {
		if p.InRepo(f) && f.Blocks != nil {
			return []*ssa.Function{f}
		}
		// a method value / bound closure of a repo method
		return nil
	}
	if _, ok := cc.Value.(*ssa.Builtin); ok {
		return nil
	}
	return resolveDynamic(p, cc)
}

// syncReach returns every repo function synchronously reachable from root. prune, if not nil, is
// asked for every (caller, instruction, callee) edge and may veto it.
func syncReach(p *core.Program, root *ssa.Function, prune func(caller *ssa.Function, ins ssa.Instruction, callee *ssa.Function) bool) map[*ssa.Function]bool {
	seen := map[*ssa.Function]bool{root: true}
	work := []*ssa.Function{root}
	for len(work) > 0 {
		f := work[len(work)-1]
		work = work[:len(work)-1]
		core.EachInstr(f, func(b *ssa.BasicBlock, i int, ins ssa.Instruction) {
			for _, c := range callees(p, ins) {
				if seen[c] {
					continue
				}
				if prune != nil && !prune(f, ins, c) {
					continue
				}
				seen[c] = true
				work = append(work, c)
			}
			// closures created here and called later in the same goroutine (e.g. once.Do(func(){...}), sort.Slice less)
			if mc, ok := ins.(*ssa.MakeClosure); ok {
				if cf, ok := mc.Fn.(*ssa.Function); ok && !seen[cf] && !onlyGoUse(mc) {
					if prune == nil || prune(f, ins, cf) {
						seen[cf] = true
						work = append(work, cf)
					}
				}
			}
		})
	}
	return seen
}

// onlyGoUse reports whether the closure value is used solely as the function of go statements.
func onlyGoUse(mc *ssa.MakeClosure) bool {
	refs := core.Referrers(mc)
	if len(refs) == 0 {
		return false
	}
	for _, r := range refs {
		g, ok := r.(*ssa.Go)
		if !ok || g.Call.Value != mc {
			return false
		}
	}
	return true
}

package rules

import (
	"go/types"
	"sync"

	"golang.org/x/tools/go/ssa"

	"verif/internal/core"
)

// A small class-hierarchy call graph over the repository's own functions. Static callees are
// followed directly; an interface method call resolves to that method of every repo type
// implementing the interface; a call of a function value resolves to every repo function or
// closure of identical signature whose value is taken somewhere in the repo. Calls into
// dependencies are not followed (the rules that use the graph say what that means for them).

type cgIndex struct {
	impls      map[string][]*ssa.Function // interface method key -> implementations
	funcValues []*ssa.Function            // functions/closures used as values
	namedTypes []types.Type
}

var (
	cgMu    sync.Mutex
	cgCache = map[*core.Program]*cgIndex{}
)

func cgOf(p *core.Program) *cgIndex {
	cgMu.Lock()
	defer cgMu.Unlock()
	if ix, ok := cgCache[p]; ok {
		return ix
	}
	ix := &cgIndex{impls: map[string][]*ssa.Function{}}
	for _, pk := range p.Pkgs {
		sc := pk.Types.Scope()
		for _, n := range sc.Names() {
			tn, ok := sc.Lookup(n).(*types.TypeName)
			if !ok || tn.IsAlias() {
				continue
			}
			if _, isIface := tn.Type().Underlying().(*types.Interface); isIface {
				continue
			}
			ix.namedTypes = append(ix.namedTypes, tn.Type(), types.NewPointer(tn.Type()))
		}
	}
	seen := map[*ssa.Function]bool{}
	for _, fn := range p.Funcs {
		core.EachInstr(fn, func(b *ssa.BasicBlock, i int, ins ssa.Instruction) {
			var ops []*ssa.Value
			for _, op := range ins.Operands(ops) {
				if op == nil || *op == nil {
					continue
				}
				var f *ssa.Function
				switch v := (*op).(type) {
				case *ssa.Function:
					f = v
				case *ssa.MakeClosure:
					f, _ = v.Fn.(*ssa.Function)
				}
				if f == nil || seen[f] {
					continue
				}
				// a function that only appears as the static callee of this call is not a value
				if cc := core.CallCommon(ins); cc != nil && cc.Value == *op {
					continue
				}
				seen[f] = true
				ix.funcValues = append(ix.funcValues, f)
			}
		})
	}
	cgCache[p] = ix
	return ix
}

// resolveInvoke returns the repo implementations of an interface method call.
func resolveInvoke(p *core.Program, cc *ssa.CallCommon) []*ssa.Function {
	ix := cgOf(p)
	iface, ok := cc.Value.Type().Underlying().(*types.Interface)
	if !ok {
		return nil
	}
	key := types.TypeString(cc.Value.Type(), nil) + "." + cc.Method.Name()
	cgMu.Lock()
	if r, ok := ix.impls[key]; ok {
		cgMu.Unlock()
		return r
	}
	cgMu.Unlock()
	var out []*ssa.Function
	for _, t := range ix.namedTypes {
		if !types.Implements(t, iface) {
			continue
		}
		ms := p.SSA.MethodSets.MethodSet(t)
		sel := ms.Lookup(cc.Method.Pkg(), cc.Method.Name())
		if sel == nil {
			continue
		}
		f := p.SSA.MethodValue(sel)
		if f == nil {
			continue
		}
		// unwrap promoted/pointer wrappers to the declared method
		if f.Synthetic != "" {
			if obj, ok := sel.Obj().(*types.Func); ok {
				if d := p.FuncOf(obj); d != nil {
					f = d
				}
			}
		}
		if p.InRepo(f) && f.Blocks != nil {
			dup := false
			for _, o := range out {
				if o == f {
					dup = true
				}
			}
			if !dup {
				out = append(out, f)
			}
		}
	}
	cgMu.Lock()
	ix.impls[key] = out
	cgMu.Unlock()
	return out
}

// resolveDynamic returns the repo functions a call of a function value may reach.
func resolveDynamic(p *core.Program, cc *ssa.CallCommon) []*ssa.Function {
	sig, ok := cc.Value.Type().Underlying().(*types.Signature)
	if !ok {
		return nil
	}
	// a closure created in the same function and called directly
	if mc, ok := cc.Value.(*ssa.MakeClosure); ok {
		if f, ok := mc.Fn.(*ssa.Function); ok {
			return []*ssa.Function{f}
		}
	}
	var out []*ssa.Function
	for _, f := range cgOf(p).funcValues {
		if types.Identical(f.Signature, sig) || identicalIgnoringRecv(f.Signature, sig) {
			out = append(out, f)
		}
	}
	return out
}

func identicalIgnoringRecv(a, b *types.Signature) bool {
	return types.Identical(types.NewSignatureType(nil, nil, nil, a.Params(), a.Results(), a.Variadic()),
		types.NewSignatureType(nil, nil, nil, b.Params(), b.Results(), b.Variadic()))
}

// callees returns the repo functions an instruction may call synchronously (Call and Defer; Go
// statements start another goroutine and are not synchronous).
func callees(p *core.Program, ins ssa.Instruction) []*ssa.Function {
	if _, isGo := ins.(*ssa.Go); isGo {
		return nil
	}
	cc := core.CallCommon(ins)
	if cc == nil {
		return nil
	}
	if cc.IsInvoke() {
		return resolveInvoke(p, cc)
	}
	if f := cc.StaticCallee(); f != nil {
		if p.InRepo(f) && f.Blocks != nil {
			return []*ssa.Function{f}
		}
		// a method value / bound closure of a repo method
		return nil
	}
	if _, ok := cc.Value.(*ssa.Builtin); ok {
		return nil
	}
	return resolveDynamic(p, cc)
}

// syncReach returns every repo function synchronously reachable from root. prune, if not nil, is
// asked for every (caller, instruction, callee) edge and may veto it.
func syncReach(p *core.Program, root *ssa.Function, prune func(caller *ssa.Function, ins ssa.Instruction, callee *ssa.Function) bool) map[*ssa.Function]bool {
	seen := map[*ssa.Function]bool{root: true}
	work := []*ssa.Function{root}
	for len(work) > 0 {
		f := work[len(work)-1]
		work = work[:len(work)-1]
		core.EachInstr(f, func(b *ssa.BasicBlock, i int, ins ssa.Instruction) {
			for _, c := range callees(p, ins) {
				if seen[c] {
					continue
				}
				if prune != nil && !prune(f, ins, c) {
					continue
				}
				seen[c] = true
				work = append(work, c)
			}
			// closures created here and called later in the same goroutine (e.g. once.Do(func(){...}), sort.Slice less)
			if mc, ok := ins.(*ssa.MakeClosure); ok {
				if cf, ok := mc.Fn.(*ssa.Function); ok && !seen[cf] && !onlyGoUse(mc) {
					if prune == nil || prune(f, ins, cf) {
						seen[cf] = true
						work = append(work, cf)
					}
				}
			}
		})
	}
	return seen
}

// onlyGoUse reports whether the closure value is used solely as the function of go statements.
func onlyGoUse(mc *ssa.MakeClosure) bool {
	refs := core.Referrers(mc)
	if len(refs) == 0 {
		return false
	}
	for _, r := range refs {
		g, ok := r.(*ssa.Go)
		if !ok || g.Call.Value != mc {
			return false
		}
	}
	return true
}

package rules

import (
	"fmt"
	"go/token"
	"go/types"
	"strings"

	"golang.org/x/tools/go/ssa"

	"verif/internal/core"
)

// Rules added after the third round of independently seeded defects (see DESIGN.md, "Validation").

func init() {
	register(&Rule{ID: "R-ALLOCSIZE", Min: 1, Run: ruleAllocSize,
		Doc: "no allocation in the aggregation operators is sized by a run-time query parameter (a float converted to an integer): make([]T, n, k) with an unbounded k panics ('makeslice: cap out of range') for parameters the reference accepts"})
	register(&Rule{ID: "R-CORECOUNT", Min: 2, Run: ruleCoreCount,
		Doc: "the core count (runtime.GOMAXPROCS/NumCPU) flows only into the number of selector shards: arithmetic, the shard loop bound, the capacity of the shard slice and the (shard, numShards) arguments of the selector constructors. Worker counts, batch sizes and buffer sizes never depend on it"})
	register(&Rule{ID: "R-POOLLINEAR", Min: 10, Run: rulePoolLinear,
		Doc: "every VectorPool created while planning is handed to exactly one operator: a pool created outside a loop is never consumed inside it, and no pool value is passed to two constructors (SetStepSize and the pool's size hint are unsynchronised per-operator state)"})
	register(&Rule{ID: "R-CTXDERIVED", Min: 1, Run: ruleCtxDerived,
		Doc: "once a function has derived a cancellable context from its context parameter, it does not use the parameter again: everything after context.WithCancel(ctx) must observe the derived context, which is the one Cancel()/Close() cancel"})
	register(&Rule{ID: "R-QUERYCLOSE", Min: 1, Run: ruleQueryClose,
		Doc: "every promql.Query the repo executes itself (remote sub-queries) is closed by a defer registered before Exec is called: it is released on success, on error and on cancellation alike"})
	register(&Rule{ID: "R-ERRFIRST", Min: 2, Run: ruleErrFirst,
		Doc: "a function that collects errors from the goroutines it spawns through an error channel examines that channel before it reports success: every nil-error return that can follow the spawn is dominated by a receive from the channel"})
	register(&Rule{ID: "R-STEPTS", Min: 5, Run: ruleStepTS,
		Doc: "a step vector created inside a loop is stamped with a value that varies with that loop (the step cursor, the input vector's T), never with a loop-invariant value or a constant: empty steps keep that stamp, and consumers such as scalar() emit a sample for them"})

	mutant(Mutant{Rule: "R-ALLOCSIZE", Name: "heap-presized-by-k", File: "execution/aggregate/khashaggregate.go",
		Old: "\t\t\theap.Push(h, &entry{sId: sId, total: samples[i]})", New: "\t\t\tif h.entries == nil {\n\t\t\t\th.entries = make([]entry, 0, k)\n\t\t\t}\n\t\t\theap.Push(h, &entry{sId: sId, total: samples[i]})", Expect: "kAggregate"})
	mutant(Mutant{Rule: "R-CORECOUNT", Name: "workers-per-core", File: "execution/aggregate/hashaggregate.go",
		Old: "\ta.workers = worker.NewGroup(stepsBatch, a.workerTask)", New: "\ta.workers = worker.NewGroup(runtime.GOMAXPROCS(0), a.workerTask)", Old2: "import (\n", New2: "import (\n\t\"runtime\"\n", Expect: "NewHashAggregate"})
	mutant(Mutant{Rule: "R-POOLLINEAR", Name: "one-pool-for-all-shards", File: "execution/execution.go",
		Old: "\t\t\t\toperators := make([]model.VectorOperator, 0, numShards)\n\t\t\t\tfor i := 0; i < numShards; i++ {\n\t\t\t\t\toperator := exchange.NewConcurrent(\n\t\t\t\t\t\tscan.NewMatrixSelector(model.NewVectorPool(stepsBatch), filter,", New: "\t\t\t\toperators := make([]model.VectorOperator, 0, numShards)\n\t\t\t\tshardPool := model.NewVectorPool(stepsBatch)\n\t\t\t\tfor i := 0; i < numShards; i++ {\n\t\t\t\t\toperator := exchange.NewConcurrent(\n\t\t\t\t\t\tscan.NewMatrixSelector(shardPool, filter,", Expect: "newOperator"})
	mutant(Mutant{Rule: "R-CTXDERIVED", Name: "loop-watches-callers-context", File: "engine/engine.go",
		Old: "\tctx, cancel := context.WithCancel(ctx)\n\tdefer cancel()\n", New: "\tparent := ctx\n\tctx, cancel := context.WithCancel(ctx)\n\tdefer cancel()\n", Old2: "\t\tcase <-ctx.Done():\n\t\t\treturn newErrResult(ret, ctx.Err())", New2: "\t\tcase <-parent.Done():\n\t\t\treturn newErrResult(ret, parent.Err())", Expect: "Exec"})
	mutant(Mutant{Rule: "R-QUERYCLOSE", Name: "remote-query-closed-on-success-only", File: "execution/remote/operator.go",
		Old: "\tdefer s.query.Close()\n\tresult := s.query.Exec(ctx)\n\tif result.Err != nil {\n\t\ts.err = result.Err\n\t\treturn\n\t}\n", New: "\tresult := s.query.Exec(ctx)\n\tif result.Err != nil {\n\t\ts.err = result.Err\n\t\treturn\n\t}\n\tdefer s.query.Close()\n", Expect: "executeQuery"})
	mutant(Mutant{Rule: "R-ERRFIRST", Name: "end-of-stream-before-errors", File: "execution/exchange/coalesce.go",
		Old: "\tif err := errChan.getError(); err != nil {\n\t\treturn nil, err\n\t}\n\n\tif out == nil {\n\t\treturn nil, nil\n\t}\n", New: "\tif out == nil {\n\t\treturn nil, nil\n\t}\n\n\tif err := errChan.getError(); err != nil {\n\t\treturn nil, err\n\t}\n", Expect: "coalesceOperator).Next"})
	mutant(Mutant{Rule: "R-STEPTS", Name: "batch-start-timestamp", File: "execution/scan/matrix_selector.go",
		Old: "vectors = append(vectors, o.vectorPool.GetStepVector(seriesTs))", New: "vectors = append(vectors, o.vectorPool.GetStepVector(ts))", Expect: "matrixSelector"})
	mutant(Mutant{Rule: "R-STEPTS", Name: "merged-vector-stamped-zero", File: "execution/exchange/coalesce.go",
		Old: "out = append(out, c.pool.GetStepVector(in[i].T))", New: "out = append(out, c.pool.GetStepVector(0))", Expect: "coalesceOperator"})
}

// ---------------------------------------------------------------------------------------------

// floatToIntOrigin reports whether v (an integer) derives from a float->int conversion, following
// parameters to the arguments at the static call sites (depth-limited).
func floatToIntOrigin(p *core.Program, v ssa.Value, depth int, seen map[ssa.Value]bool) bool {
	hit := false
	core.BackSlice(v, func(x ssa.Value) bool {
		if seen[x] || hit {
			return false
		}
		seen[x] = true
		if cv, ok := x.(*ssa.Convert); ok && isFloatType(cv.X.Type()) && isIntType(cv.Type()) {
			hit = true
			return false
		}
		if pr, ok := x.(*ssa.Parameter); ok && depth > 0 && isIntType(pr.Type()) {
			fn := pr.Parent()
			for i, q := range fn.Params {
				if q != pr {
					continue
				}
				for _, cs := range p.CallSitesOf(fn) {
					if cs != nil && i < len(cs.Args) && floatToIntOrigin(p, cs.Args[i], depth-1, seen) {
						hit = true
					}
				}
			}
		}
		return true
	})
	return hit
}

func ruleAllocSize(p *core.Program) []core.Obligation {
	const rule = "R-ALLOCSIZE"
	var obs []core.Obligation
	n := 0
	for _, fn := range p.Funcs {
		if !strings.HasPrefix(core.Rel(fn.Pkg.Pkg.Path()), "execution") {
			continue
		}
		core.EachInstr(fn, func(b *ssa.BasicBlock, i int, ins ssa.Instruction) {
			mk, ok := ins.(*ssa.MakeSlice)
			if !ok {
				return
			}
			n++
			for _, sz := range []ssa.Value{mk.Len, mk.Cap} {
				if _, isConst := sz.(*ssa.Const); isConst {
					continue
				}
				if floatToIntOrigin(p, sz, 2, map[ssa.Value]bool{}) {
					obs = append(obs, core.Ob(rule, core.FuncName(fn)+" sizes an allocation by a query parameter", p.Pos(mk.Pos()), core.FuncName(fn), core.Violated,
						"the size of this allocation comes from a float query parameter converted to an integer (k): a huge but valid k (topk(1e18, x)) makes makeslice panic where the reference simply returns every series"))
					return
				}
			}
		})
	}
	obs = append(obs, core.Ob(rule, "allocations are sized by series/step counts only", "-", "", core.Held, fmt.Sprintf("%d make([]T...) in execution/... examined", n)))
	return obs
}

func ruleCoreCount(p *core.Program) []core.Obligation {
	const rule = "R-CORECOUNT"
	var obs []core.Obligation
	for _, fn := range p.Funcs {
		k := 0
		core.EachInstr(fn, func(b *ssa.BasicBlock, i int, ins ssa.Instruction) {
			call, ok := ins.(*ssa.Call)
			if !ok {
				return
			}
			name := core.CalleeName(&call.Call)
			if name != "runtime.GOMAXPROCS" && name != "runtime.NumCPU" {
				return
			}
			k++
			key := fmt.Sprintf("%s use of the core count #%d", core.FuncName(fn), k)
			bad := ""
			seen := map[ssa.Value]bool{}
			var walk func(v ssa.Value)
			walk = func(v ssa.Value) {
				if seen[v] || bad != "" {
					return
				}
				seen[v] = true
				for _, r := range core.Referrers(v) {
					switch x := r.(type) {
					case *ssa.BinOp, *ssa.Phi, *ssa.Convert:
						walk(x.(ssa.Value))
					case *ssa.If, *ssa.DebugRef:
					case *ssa.MakeSlice:
						// capacity/length of the shard operator slice
					case *ssa.Call:
						callee := core.CalleeName(&x.Call)
						if callee == core.Module+"/execution/scan.NewVectorSelector" || callee == core.Module+"/execution/scan.NewMatrixSelector" {
							n := len(x.Call.Args)
							if x.Call.Args[n-1] == v || x.Call.Args[n-2] == v {
								continue
							}
						}
						// handed to a callback parameter (newShard(i, numShards)): followed into the closures the
						// callers pass for that parameter
						if prm, isParam := x.Call.Value.(*ssa.Parameter); isParam {
							h := prm.Parent()
							pidx := -1
							for i, q := range h.Params {
								if q == prm {
									pidx = i
								}
							}
							followed := 0
							for ai, a := range x.Call.Args {
								if a != v {
									continue
								}
								for _, caller := range p.Funcs {
									core.EachInstr(caller, func(_ *ssa.BasicBlock, _ int, ci ssa.Instruction) {
										c, ok := ci.(*ssa.Call)
										if !ok || c.Call.StaticCallee() != h || pidx < 0 || pidx >= len(c.Call.Args) {
											return
										}
										if mc, ok := c.Call.Args[pidx].(*ssa.MakeClosure); ok {
											if cf, ok := mc.Fn.(*ssa.Function); ok && ai < len(cf.Params) {
												followed++
												walk(cf.Params[ai])
											}
										}
									})
								}
							}
							if followed > 0 {
								continue
							}
						}
						bad = "passed to " + strings.ReplaceAll(callee, core.Module+"/", "") + " at " + p.Pos(x.Pos())
					case *ssa.Store:
						bad = "stored at " + p.Pos(x.Pos())
					case *ssa.Return:
						// a helper that returns the shard count: the value is followed to its call sites
						helper := x.Parent()
						sites := 0
						if helper.Parent() == nil && len(core.RetResults(x)) == 1 {
							for _, caller := range p.Funcs {
								core.EachInstr(caller, func(_ *ssa.BasicBlock, _ int, ci ssa.Instruction) {
									if c, ok := ci.(*ssa.Call); ok && c.Call.StaticCallee() == helper {
										sites++
										walk(c)
									}
								})
							}
						}
						if sites == 0 {
							bad = "returned at " + p.Pos(x.Pos())
						}
					default:
						bad = fmt.Sprintf("used by %T at %s", r, p.Pos(r.Pos()))
					}
				}
			}
			walk(call)
			if bad != "" {
				obs = append(obs, core.Ob(rule, key, p.Pos(call.Pos()), core.FuncName(fn), core.Violated, "the core count is "+bad+": something other than the selector shard count depends on GOMAXPROCS, so behaviour (e.g. how many workers serve the steps of a batch) changes with the machine"))
			} else {
				obs = append(obs, core.Ob(rule, key, p.Pos(call.Pos()), core.FuncName(fn), core.Held, "flows into the shard count only"))
			}
		})
	}
	return obs
}

func rulePoolLinear(p *core.Program) []core.Obligation {
	const rule = "R-POOLLINEAR"
	var obs []core.Obligation
	ctor := p.Func("execution/model", "NewVectorPool")
	if ctor == nil {
		return []core.Obligation{core.Ob(rule, "model.NewVectorPool", "-", "", core.Lost, "not found")}
	}
	for _, fn := range p.Funcs {
		depth := core.LoopDepth(fn)
		k := 0
		core.EachInstr(fn, func(b *ssa.BasicBlock, i int, ins ssa.Instruction) {
			call, ok := ins.(*ssa.Call)
			if !ok || call.Call.StaticCallee() != ctor {
				return
			}
			k++
			key := fmt.Sprintf("%s pool #%d", core.FuncName(fn), k)
			var uses []ssa.Instruction
			for _, r := range core.Referrers(call) {
				switch x := r.(type) {
				case *ssa.Call:
					uses = append(uses, x)
				case *ssa.Store:
					uses = append(uses, x)
				case *ssa.Return:
					uses = append(uses, x)
				case *ssa.MakeClosure:
					uses = append(uses, x)
				}
			}
			bad := ""
			for _, u := range uses {
				if depth[u.Block()] > depth[b] {
					bad = "created outside the loop but handed to an operator inside it (" + p.Pos(u.Pos()) + "): all iterations share one pool"
				}
			}
			for x := 0; x < len(uses) && bad == ""; x++ {
				for y := x + 1; y < len(uses); y++ {
					a, c := uses[x], uses[y]
					if a.Block() == c.Block() || core.Reaches(a.Block(), c.Block()) || core.Reaches(c.Block(), a.Block()) {
						// the constructor itself wiring the pool into closures of one pool object is fine: only operator constructors count
						if _, isMC := a.(*ssa.MakeClosure); isMC {
							continue
						}
						if _, isMC := c.(*ssa.MakeClosure); isMC {
							continue
						}
						bad = fmt.Sprintf("handed on twice (%s and %s)", p.Pos(a.Pos()), p.Pos(c.Pos()))
					}
				}
			}
			if bad != "" {
				obs = append(obs, core.Ob(rule, key, p.Pos(call.Pos()), core.FuncName(fn), core.Violated, "a vector pool is "+bad+": the operators sharing it write its size hint concurrently from their own goroutines"))
			} else {
				obs = append(obs, core.Ob(rule, key, p.Pos(call.Pos()), core.FuncName(fn), core.Held, "one pool, one operator"))
			}
		})
	}
	return obs
}

func ruleCtxDerived(p *core.Program) []core.Obligation {
	const rule = "R-CTXDERIVED"
	var obs []core.Obligation
	for _, fn := range p.Funcs {
		core.EachInstr(fn, func(b *ssa.BasicBlock, i int, ins ssa.Instruction) {
			call, ok := ins.(*ssa.Call)
			if !ok {
				return
			}
			name := core.CalleeName(&call.Call)
			if name != "context.WithCancel" && name != "context.WithTimeout" && name != "context.WithDeadline" {
				return
			}
			parent := call.Call.Args[0]
			key := core.FuncName(fn) + " uses only the derived context after " + name
			bad := ""
			// the parent may have been spilled into a local (captured or re-assigned variable): follow loads of that local too
			parents := map[ssa.Value]bool{parent: true}
			if l := core.Deref(parent); l != nil {
				if a, ok := l.(*ssa.Alloc); ok {
					// `ctx, cancel := WithCancel(ctx)` re-assigns the variable: later loads see the derived context.
					_ = a
				}
			}
			for pv := range parents {
				for _, r := range core.Referrers(pv) {
					if r == ssa.Instruction(call) {
						continue
					}
					if _, dbg := r.(*ssa.DebugRef); dbg {
						continue
					}
					if st, ok := r.(*ssa.Store); ok && st.Val == pv {
						// kept in a second variable: any load of that variable after the call is a use of the parent
						if a, ok := st.Addr.(*ssa.Alloc); ok {
							for _, rr := range core.Referrers(a) {
								if u, ok := rr.(*ssa.UnOp); ok && (core.InstrDominates(call, u) || core.Reaches(call.Block(), u.Block())) {
									bad = p.Pos(u.Pos())
								}
							}
						}
						continue
					}
					if core.InstrDominates(call, r) || (r.Block() != call.Block() && core.Reaches(call.Block(), r.Block())) {
						bad = p.Pos(r.Pos())
					}
				}
			}
			if bad != "" {
				obs = append(obs, core.Ob(rule, key, p.Pos(call.Pos()), core.FuncName(fn), core.Violated, "the context parameter is used again at "+bad+" after the cancellable context was derived from it: that code does not notice Cancel()/Close(), which cancel the derived context only"))
			} else {
				obs = append(obs, core.Ob(rule, key, p.Pos(call.Pos()), core.FuncName(fn), core.Held, "the parameter is not used after the derivation"))
			}
		})
	}
	return obs
}

func ruleQueryClose(p *core.Program) []core.Obligation {
	const rule = "R-QUERYCLOSE"
	var obs []core.Obligation
	for _, fn := range p.Funcs {
		core.EachInstr(fn, func(b *ssa.BasicBlock, i int, ins ssa.Instruction) {
			call, ok := ins.(*ssa.Call)
			if !ok || !core.InvokeOf(&call.Call, pkgPromql, "Query", "Exec") {
				return
			}
			key := core.FuncName(fn) + " executes a promql.Query"
			q := call.Call.Value
			closed := false
			core.EachInstr(fn, func(b2 *ssa.BasicBlock, j int, x ssa.Instruction) {
				d, ok := x.(*ssa.Defer)
				if !ok || !d.Call.IsInvoke() || d.Call.Method.Name() != "Close" {
					return
				}
				if (d.Call.Value == q || core.SameExpr(d.Call.Value, q)) && core.InstrDominates(d, call) {
					closed = true
				}
			})
			if closed {
				obs = append(obs, core.Ob(rule, key, p.Pos(call.Pos()), core.FuncName(fn), core.Held, "defer q.Close() is registered before Exec"))
			} else {
				obs = append(obs, core.Ob(rule, key, p.Pos(call.Pos()), core.FuncName(fn), core.Violated, "the query is executed without a Close deferred beforehand: after a remote error or a cancellation it is never closed, and whatever the remote engine ties to the query's lifetime outlives the user's query"))
			}
		})
	}
	return obs
}

func ruleErrFirst(p *core.Program) []core.Obligation {
	const rule = "R-ERRFIRST"
	var obs []core.Obligation
	errT := types.Universe.Lookup("error").Type()
	for _, fn := range p.Funcs {
		core.EachInstr(fn, func(b *ssa.BasicBlock, i int, ins ssa.Instruction) {
			mk, ok := ins.(*ssa.MakeChan)
			if !ok {
				return
			}
			ch, ok := mk.Type().Underlying().(*types.Chan)
			if !ok || !types.Identical(ch.Elem(), errT) {
				return
			}
			key := core.FuncName(fn) + " examines its error channel before reporting success"
			// the channel value as used in fn: the MakeChan, conversions of it, and loads of the local holding it
			vals := map[ssa.Value]bool{mk: true}
			for changed := true; changed; {
				changed = false
				for v := range vals {
					for _, r := range core.Referrers(v) {
						switch x := r.(type) {
						case *ssa.ChangeType:
							if !vals[x] {
								vals[x] = true
								changed = true
							}
						case *ssa.Store:
							if a, ok := x.Addr.(*ssa.Alloc); ok && x.Val == v {
								for _, rr := range core.Referrers(a) {
									if u, ok := rr.(*ssa.UnOp); ok && u.Op == token.MUL && u.Parent() == fn && !vals[u] {
										vals[u] = true
										changed = true
									}
								}
							}
						}
					}
				}
			}
			// consumption points: a receive from the channel or a call of a method that ranges over it (getError)
			var consume []ssa.Instruction
			var spawn ssa.Instruction
			core.EachInstr(fn, func(b2 *ssa.BasicBlock, j int, x ssa.Instruction) {
				switch y := x.(type) {
				case *ssa.UnOp:
					if y.Op == token.ARROW && vals[y.X] {
						consume = append(consume, y)
					}
				case *ssa.Call:
					if len(y.Call.Args) > 0 && vals[y.Call.Args[0]] && y.Call.StaticCallee() != nil && p.InRepo(y.Call.StaticCallee()) {
						consume = append(consume, y)
					}
				case *ssa.Go:
					if spawn == nil {
						spawn = y
					}
				}
			})
			if spawn == nil {
				return
			}
			bad := ""
			core.EachInstr(fn, func(b2 *ssa.BasicBlock, j int, x ssa.Instruction) {
				ret, ok := x.(*ssa.Return)
				if !ok || b2 == fn.Recover || len(ret.Results) == 0 {
					return
				}
				rs := core.RetResults(ret)
				if !core.IsNilConst(rs[len(rs)-1]) {
					return // an error is returned
				}
				if !(b2 == spawn.Block() || core.Reaches(spawn.Block(), b2)) {
					return
				}
				okc := false
				for _, c := range consume {
					if core.InstrDominates(c, ret) {
						okc = true
					}
				}
				if !okc {
					bad = p.Pos(ret.Pos())
				}
			})
			if bad != "" {
				obs = append(obs, core.Ob(rule, key, p.Pos(mk.Pos()), core.FuncName(fn), core.Violated, "the success return at "+bad+" can be reached without having looked at the error channel: when every goroutine that still had work failed, their errors are never read and the stream ends as if it were exhausted"))
			} else {
				obs = append(obs, core.Ob(rule, key, p.Pos(mk.Pos()), core.FuncName(fn), core.Held, "every success return after the spawn is behind a receive"))
			}
		})
	}
	return obs
}

func ruleStepTS(p *core.Program) []core.Obligation {
	const rule = "R-STEPTS"
	var obs []core.Obligation
	get := "(*" + modModel + ".VectorPool).GetStepVector"
	for _, fn := range p.Funcs {
		depth := core.LoopDepth(fn)
		k := 0
		core.EachInstr(fn, func(b *ssa.BasicBlock, i int, ins ssa.Instruction) {
			call, ok := ins.(*ssa.Call)
			if !ok || core.CalleeName(&call.Call) != get || depth[b] == 0 {
				return
			}
			k++
			key := fmt.Sprintf("%s stamps a step vector created in a loop #%d", core.FuncName(fn), k)
			t := call.Call.Args[1]
			loop := core.InnermostLoop(fn, b)
			inLoop := func(x *ssa.BasicBlock) bool { return loop[x] }
			variant := false
			core.BackSlice(t, func(x ssa.Value) bool {
				ins2, ok := x.(ssa.Instruction)
				if !ok {
					return true
				}
				switch y := x.(type) {
				case *ssa.Phi:
					if inLoop(y.Block()) {
						variant = true
					}
				case *ssa.UnOp:
					if y.Op == token.MUL && inLoop(ins2.Block()) {
						// a load inside the loop of a location that is stored to inside the loop
						core.EachInstr(fn, func(b3 *ssa.BasicBlock, j int, z ssa.Instruction) {
							if st, ok := z.(*ssa.Store); ok && inLoop(b3) {
								// a store to the location itself or to an enclosing variable (the range copy `vector`)
								for a := y.X; a != nil; {
									if core.SameExpr(st.Addr, a) {
										variant = true
									}
									switch q := a.(type) {
									case *ssa.FieldAddr:
										a = q.X
									case *ssa.IndexAddr:
										a = q.X
									default:
										a = nil
									}
								}
							}
						})
					}
				}
				return !variant
			})
			if variant {
				obs = append(obs, core.Ob(rule, key, p.Pos(call.Pos()), core.FuncName(fn), core.Held, "the timestamp varies with the loop"))
			} else {
				obs = append(obs, core.Ob(rule, key, p.Pos(call.Pos()), core.FuncName(fn), core.Violated, "every step vector created by this loop gets the same timestamp (a loop-invariant value): a step that stays empty keeps it, and scalar()/consumers that emit for empty steps produce repeated or off-grid timestamps"))
			}
		})
	}
	return obs
}

package rules

import (
	"fmt"
	"go/token"
	"go/types"
	"sort"
	"strings"

	"golang.org/x/tools/go/ssa"

	"verif/internal/core"
)

func init() {
	register(&Rule{ID: "R-PANICDOMAIN", Min: 5, Run: rulePanicDomain,
		Doc: "the API entry Exec and every go statement whose goroutine can synchronously reach a user-supplied callback (storage querier/series set/series/iterator, remote query, remote engine) start with a deferred function that calls recover() and reports; reachability uses the repo's call graph with the wrapping fact below"})
	register(&Rule{ID: "R-WRAP", Min: 3, Run: ruleWrap,
		Doc: "every operator whose own Next code touches storage (and every operator that carries one in a field) is constructed only as the direct argument of exchange.NewConcurrent or of such a carrier: batch-phase storage callbacks therefore run on pull goroutines only"})
	register(&Rule{ID: "R-RECOVERTOTAL", Min: 3, Run: ruleRecoverTotal,
		Doc: "in every function that calls recover(), every path taken with a non-nil recovered value performs a report (channel send or store through a pointer/captured variable) before the function exits: no panic value is swallowed"})

	mutant(Mutant{Rule: "R-PANICDOMAIN", Name: "pull-without-recover", File: "execution/exchange/concurrent.go",
		Old: "\tdefer func() {\n\t\tif e := recover(); e != nil {\n\t\t\tc.buffer <- maybeStepVector{err: panicToError(e)}\n\t\t}\n\t}()\n", New: "", Expect: "concurrencyOperator).pull"})
	mutant(Mutant{Rule: "R-PANICDOMAIN", Name: "binary-loader-without-recover", File: "execution/binary/vector.go",
		Old: "\t\tdefer func() {\n\t\t\tif e := recover(); e != nil {", New: "\t\tdefer func() {\n\t\t\tif e := error(nil); e != nil {", Expect: "initOutputs"})
	mutant(Mutant{Rule: "R-PANICDOMAIN", Name: "exec-without-recover", File: "engine/engine.go",
		Old: "\tdefer recoverEngine(q.engine.logger, q.expr, &ret.Err)\n", New: "", Expect: "Exec"})
	mutant(Mutant{Rule: "R-WRAP", Name: "selector-not-wrapped", File: "execution/execution.go",
		Old: "\t\toperator := exchange.NewConcurrent(\n\t\t\tscan.NewVectorSelector(\n\t\t\t\tmodel.NewVectorPool(stepsBatch), selector, opts, offset, i, numShards), 2)", New: "\t\toperator := scan.NewVectorSelector(\n\t\t\t\tmodel.NewVectorPool(stepsBatch), selector, opts, offset, i, numShards)", Expect: "NewVectorSelector"})
	mutant(Mutant{Rule: "R-RECOVERTOTAL", Name: "engine-recover-runtime-errors-only", File: "engine/engine.go",
		Old: "\tcase error:\n\t\t*errp = errors.Wrap(err, \"unexpected error\")\n\tdefault:\n\t\t*errp = errors.Newf(\"unexpected error: %v\", e)\n", New: "", Expect: "recoverEngine"})
	mutant(Mutant{Rule: "R-RECOVERTOTAL", Name: "no-recover-once-cancelled", File: "execution/exchange/coalesce.go",
		Old: "\t\t\tdefer func() {\n\t\t\t\te := recover()\n\t\t\t\tif e == nil {", New: "\t\t\tdefer func() {\n\t\t\t\tif ctx.Err() != nil {\n\t\t\t\t\treturn\n\t\t\t\t}\n\t\t\t\te := recover()\n\t\t\t\tif e == nil {", Expect: "loadSeries"})
	mutant(Mutant{Rule: "R-RECOVERTOTAL", Name: "coalesce-recover-errors-only", File: "execution/exchange/coalesce.go",
		Old: "\t\t\t\tdefault:\n\t\t\t\t\terrChan <- errors.Newf(\"unexpected error: %v\", e)\n", New: "", Expect: "loadSeries"})
}

// callbackSite reports whether the instruction calls user-supplied code: a method of an interface
// the embedding application implements, or a function of the Prometheus storage package that
// forwards to such an implementation (the buffered/memoized iterators).
func callbackSite(ins ssa.Instruction) (string, bool) {
	cc := core.CallCommon(ins)
	if cc == nil {
		return "", false
	}
	if cc.IsInvoke() {
		n := core.NamedOf(cc.Value.Type())
		if n == nil || n.Obj().Pkg() == nil {
			return "", false
		}
		path, name := n.Obj().Pkg().Path(), n.Obj().Name()
		switch {
		case path == pkgStorage, path == pkgChunkenc:
			return name + "." + cc.Method.Name(), true
		case path == pkgPromql && name == "Query":
			return "promql.Query." + cc.Method.Name(), true
		case path == modAPI:
			return "api." + name + "." + cc.Method.Name(), true
		}
		return "", false
	}
	if f := cc.StaticCallee(); f != nil && f.Pkg != nil && f.Pkg.Pkg.Path() == pkgStorage {
		return "storage." + f.Name(), true
	}
	return "", false
}

func recvNamed(fn *ssa.Function) *types.Named {
	for fn != nil && fn.Parent() != nil {
		fn = fn.Parent()
	}
	if fn == nil || fn.Signature.Recv() == nil {
		return nil
	}
	return core.NamedOf(fn.Signature.Recv().Type())
}

func isVectorOperatorIface(t types.Type) bool { return core.TypeIs(t, modModel, "VectorOperator") }

type wrapFacts struct {
	touching map[*types.Named]string // operator type -> callback reached by its own Next code
	carriers map[*types.Named]bool   // operator types that hold a touching operator they construct themselves
	ctors    map[*ssa.Function]*types.Named
	concur   *types.Named
}

func computeWrapFacts(p *core.Program) *wrapFacts {
	w := &wrapFacts{touching: map[*types.Named]string{}, carriers: map[*types.Named]bool{}, ctors: map[*ssa.Function]*types.Named{}}
	iface := func() *types.Interface {
		pk := p.Pkg("execution/model")
		if pk == nil {
			return nil
		}
		o := pk.Types.Scope().Lookup("VectorOperator")
		if o == nil {
			return nil
		}
		i, _ := o.Type().Underlying().(*types.Interface)
		return i
	}()
	if iface == nil {
		return w
	}
	if pk := p.Pkg("execution/exchange"); pk != nil {
		if o := pk.Types.Scope().Lookup("concurrencyOperator"); o != nil {
			w.concur = core.NamedOf(o.Type())
		}
	}
	var opTypes []*types.Named
	for _, pk := range p.Pkgs {
		sc := pk.Types.Scope()
		for _, n := range sc.Names() {
			tn, ok := sc.Lookup(n).(*types.TypeName)
			if !ok {
				continue
			}
			nt := core.NamedOf(tn.Type())
			if nt == nil {
				continue
			}
			if _, isI := nt.Underlying().(*types.Interface); isI {
				continue
			}
			if types.Implements(types.NewPointer(nt), iface) || types.Implements(nt, iface) {
				opTypes = append(opTypes, nt)
			}
		}
	}
	noOperatorDispatch := func(caller *ssa.Function, ins ssa.Instruction, callee *ssa.Function) bool {
		if cc := core.CallCommon(ins); cc != nil && cc.IsInvoke() && isVectorOperatorIface(cc.Value.Type()) {
			return false
		}
		return true
	}
	for _, nt := range opTypes {
		next := p.Func(core.Rel(nt.Obj().Pkg().Path()), nt.Obj().Name()+".Next")
		if next == nil {
			continue
		}
		for f := range syncReach(p, next, noOperatorDispatch) {
			core.EachInstr(f, func(b *ssa.BasicBlock, i int, ins ssa.Instruction) {
				if what, ok := callbackSite(ins); ok {
					if _, dup := w.touching[nt]; !dup {
						w.touching[nt] = what + " in " + core.FuncName(f)
					}
				}
			})
		}
	}
	// constructors: repo functions that return a freshly allocated operator type
	for _, fn := range p.Funcs {
		if fn.Parent() != nil {
			continue
		}
		core.EachInstr(fn, func(b *ssa.BasicBlock, i int, ins ssa.Instruction) {
			ret, ok := ins.(*ssa.Return)
			if !ok {
				return
			}
			for _, r := range core.RetResults(ret) {
				for v := range core.PhiClosure(r) {
					if mi, ok := v.(*ssa.MakeInterface); ok {
						v = mi.X
					}
					if a, ok := v.(*ssa.Alloc); ok && a.Heap {
						if nt := core.NamedOf(a.Type()); nt != nil {
							for _, ot := range opTypes {
								if ot == nt {
									w.ctors[fn] = nt
								}
							}
						}
					}
				}
			}
		})
	}
	// carriers: a constructor that itself constructs a touching/carrier operator and keeps it
	for changed := true; changed; {
		changed = false
		for fn, nt := range w.ctors {
			if w.carriers[nt] || nt == w.concur {
				continue
			}
			core.EachInstr(fn, func(b *ssa.BasicBlock, i int, ins ssa.Instruction) {
				call, ok := ins.(*ssa.Call)
				if !ok {
					return
				}
				ct, ok := w.ctors[call.Call.StaticCallee()]
				if !ok {
					return
				}
				if _, t := w.touching[ct]; t || w.carriers[ct] {
					if !w.carriers[nt] {
						w.carriers[nt] = true
						changed = true
					}
				}
			})
		}
	}
	return w
}

func (w *wrapFacts) shielded(nt *types.Named) bool {
	if nt == nil {
		return false
	}
	_, t := w.touching[nt]
	return t || w.carriers[nt]
}

func ruleWrap(p *core.Program) []core.Obligation {
	const rule = "R-WRAP"
	w := computeWrapFacts(p)
	var obs []core.Obligation
	if w.concur == nil {
		return []core.Obligation{core.Ob(rule, "exchange.concurrencyOperator", "-", "", core.Lost, "type not found")}
	}
	for _, fn := range p.Funcs {
		core.EachInstr(fn, func(b *ssa.BasicBlock, i int, ins ssa.Instruction) {
			call, ok := ins.(*ssa.Call)
			if !ok {
				return
			}
			ct, ok := w.ctors[call.Call.StaticCallee()]
			if !ok || !w.shielded(ct) {
				return
			}
			key := fmt.Sprintf("%s constructs %s via %s", core.FuncName(fn), ct.Obj().Name(), call.Call.StaticCallee().Name())
			// every use of the result (through interface conversions) must be argument of NewConcurrent or a carrier's field store in a carrier constructor
			okAll, why := true, ""
			var check func(v ssa.Value, depth int)
			check = func(v ssa.Value, depth int) {
				for _, r := range core.Referrers(v) {
					switch x := r.(type) {
					case *ssa.MakeInterface, *ssa.ChangeInterface:
						check(x.(ssa.Value), depth+1)
					case *ssa.DebugRef:
					case *ssa.Call:
						callee := x.Call.StaticCallee()
						if callee != nil && w.ctors[callee] == w.concur {
							continue
						}
						okAll, why = false, "passed to "+core.CalleeName(&x.Call)
					case *ssa.Store:
						if x.Val == v {
							if n, _, _, ok := core.FieldRef(x.Addr); ok && w.carriers[n] && w.ctors[fn] == n {
								continue
							}
						}
						okAll, why = false, "stored outside a carrier constructor"
					case *ssa.Return:
						// returned by a callback whose one caller wraps the result:
						// newShardedOperator(func(shard, n int) model.VectorOperator { return scan.New...(...) })
						if x.Parent() != nil && x.Parent().Parent() != nil && depth < 4 {
							if _, c2 := callbackCall(p, x.Parent()); c2 != nil {
								check(c2, depth+1)
								continue
							}
						}
						okAll, why = false, "returned to a caller that is not examined"
					default:
						okAll, why = false, fmt.Sprintf("used by %T", r)
					}
				}
			}
			check(call, 0)
			if okAll {
				obs = append(obs, core.Ob(rule, key, p.Pos(ins.Pos()), core.FuncName(fn), core.Held, "handed directly to exchange.NewConcurrent (or kept by a carrier that is)"))
			} else {
				obs = append(obs, core.Ob(rule, key, p.Pos(ins.Pos()), core.FuncName(fn), core.Violated, "a storage-touching operator is "+why+" instead of being wrapped by exchange.NewConcurrent: its storage callbacks would run on goroutines that do not recover panics"))
			}
		})
	}
	return obs
}

// goEntries returns the functions a go statement starts.
func goEntries(p *core.Program, g *ssa.Go) []*ssa.Function {
	if g.Call.IsInvoke() {
		return resolveInvoke(p, &g.Call)
	}
	if f := g.Call.StaticCallee(); f != nil {
		return []*ssa.Function{f}
	}
	return resolveDynamic(p, &g.Call)
}

// reportingDefer returns the deferred instruction of fn that calls recover() (directly in the deferred
// closure or in a static repo callee), if it dominates all of risky.
func recoveringDefer(p *core.Program, fn *ssa.Function) *ssa.Defer {
	var found *ssa.Defer
	core.EachInstr(fn, func(b *ssa.BasicBlock, i int, ins ssa.Instruction) {
		d, ok := ins.(*ssa.Defer)
		if !ok || found != nil {
			return
		}
		var target *ssa.Function
		if mc, ok := d.Call.Value.(*ssa.MakeClosure); ok {
			target, _ = mc.Fn.(*ssa.Function)
		} else {
			target = d.Call.StaticCallee()
		}
		if target == nil || !p.InRepo(target) {
			return
		}
		if callsRecover(target) {
			found = d
		}
	})
	return found
}

func callsRecover(fn *ssa.Function) bool {
	has := false
	core.EachInstr(fn, func(b *ssa.BasicBlock, i int, ins ssa.Instruction) {
		if c, ok := ins.(*ssa.Call); ok {
			if bi, ok := c.Call.Value.(*ssa.Builtin); ok && bi.Name() == "recover" {
				has = true
			}
		}
	})
	return has
}

func rulePanicDomain(p *core.Program) []core.Obligation {
	const rule = "R-PANICDOMAIN"
	var obs []core.Obligation
	w := computeWrapFacts(p)
	prune := func(caller *ssa.Function, ins ssa.Instruction, callee *ssa.Function) bool {
		cc := core.CallCommon(ins)
		if cc == nil || !cc.IsInvoke() || !isVectorOperatorIface(cc.Value.Type()) || cc.Method.Name() != "Next" {
			return true
		}
		if !w.shielded(recvNamed(callee)) {
			return true
		}
		cr := recvNamed(caller)
		return cr != nil && (cr == w.concur || w.carriers[cr])
	}
	type entry struct {
		fn        *ssa.Function
		key       string
		site      string
		spawner   string
		preloaded bool
	}
	var entries []entry
	if ex := p.Func("engine", "compatibilityQuery.Exec"); ex != nil {
		entries = append(entries, entry{ex, "API entry (*engine.compatibilityQuery).Exec", p.Pos(ex.Pos()), "", false})
	} else {
		obs = append(obs, core.Ob(rule, "API entry (*engine.compatibilityQuery).Exec", "-", "", core.Lost, "entry not found"))
	}
	for _, fn := range p.Funcs {
		k := 0
		core.EachInstr(fn, func(b *ssa.BasicBlock, i int, ins ssa.Instruction) {
			g, ok := ins.(*ssa.Go)
			if !ok {
				return
			}
			k++
			for _, e := range goEntries(p, g) {
				if !p.InRepo(e) || e.Blocks == nil {
					continue
				}
				entries = append(entries, entry{e, fmt.Sprintf("go %s in %s", core.FuncName(e), core.FuncName(fn)), p.Pos(g.Pos()), core.FuncName(fn), seriesPreloaded(p, fn, g)})
			}
		})
	}
	for _, e := range entries {
		// reach with parents for the witness path
		parent := map[*ssa.Function]*ssa.Function{}
		reach := syncReach(p, e.fn, func(caller *ssa.Function, ins ssa.Instruction, callee *ssa.Function) bool {
			if !prune(caller, ins, callee) {
				return false
			}
			if e.preloaded && isOnceClosure(ins) {
				// the operands' once-guarded initialisers have already run (see seriesPreloaded)
				return false
			}
			if _, ok := parent[callee]; !ok {
				parent[callee] = caller
			}
			return true
		})
		var witness string
		var fns []*ssa.Function
		for f := range reach {
			fns = append(fns, f)
		}
		sort.Slice(fns, func(i, j int) bool { return fns[i].String() < fns[j].String() })
		for _, f := range fns {
			if witness != "" {
				break
			}
			core.EachInstr(f, func(b *ssa.BasicBlock, i int, ins ssa.Instruction) {
				if witness != "" {
					return
				}
				if what, ok := callbackSite(ins); ok {
					var path []string
					for x := f; x != nil; x = parent[x] {
						path = append(path, core.FuncName(x))
						if x == e.fn {
							break
						}
					}
					for l, r := 0, len(path)-1; l < r; l, r = l+1, r-1 {
						path[l], path[r] = path[r], path[l]
					}
					witness = what + " via " + strings.Join(path, " -> ")
				}
			})
		}
		if witness == "" {
			d := ""
			if e.preloaded {
				d = "; the spawner first runs its once-guarded series loader, which requests Series() of every operand inside recovering goroutines, so the operands' own once-guarded initialisers cannot run first on this goroutine"
			}
			obs = append(obs, core.Ob(rule, e.key, e.site, e.spawner, core.Held, fmt.Sprintf("no user-supplied callback among the %d functions this goroutine reaches synchronously: no recover required%s", len(reach), d)))
			continue
		}
		d := recoveringDefer(p, e.fn)
		if d == nil {
			obs = append(obs, core.Ob(rule, e.key, e.site, e.spawner, core.Violated, "reaches "+witness+" but has no deferred recover: a panic in that callback terminates the process"))
			continue
		}
		// the defer must be registered before anything that can panic in a callback: no call precedes it except other defers / WaitGroup bookkeeping
		early := true
		core.EachInstr(e.fn, func(b *ssa.BasicBlock, i int, ins ssa.Instruction) {
			if cc := core.CallCommon(ins); cc != nil && ins != ssa.Instruction(d) {
				if _, isDefer := ins.(*ssa.Defer); isDefer {
					return
				}
				if !core.InstrDominates(d, ins) && len(callees(p, ins)) > 0 {
					early = false
				}
				if _, cb := callbackSite(ins); cb && !core.InstrDominates(d, ins) {
					early = false
				}
			}
		})
		if !early {
			obs = append(obs, core.Ob(rule, e.key, e.site, e.spawner, core.Violated, "the recovering defer is registered after calls that can panic (reaches "+witness+")"))
			continue
		}
		obs = append(obs, core.Ob(rule, e.key, e.site, e.spawner, core.Held, "recovers (totality of the report is R-RECOVERTOTAL); reaches "+witness))
	}
	return obs
}

func ruleRecoverTotal(p *core.Program) []core.Obligation {
	const rule = "R-RECOVERTOTAL"
	var obs []core.Obligation
	for _, fn := range p.Funcs {
		core.EachInstr(fn, func(b *ssa.BasicBlock, i int, ins ssa.Instruction) {
			call, ok := ins.(*ssa.Call)
			if !ok {
				return
			}
			if bi, ok := call.Call.Value.(*ssa.Builtin); !ok || bi.Name() != "recover" {
				return
			}
			key := core.FuncName(fn) + " recover()"
			// recover() must be reached on every path of the handler: an early return before it re-raises the panic
			if !allReturnsAfter(fn, call) {
				obs = append(obs, core.Ob(rule, key, p.Pos(ins.Pos()), core.FuncName(fn), core.Violated, "the handler can return without having called recover(): on that path the panic continues and terminates the process"))
				return
			}
			// find the nil test of the recovered value
			var start *ssa.BasicBlock
			for _, r := range core.Referrers(call) {
				bo, ok := r.(*ssa.BinOp)
				if !ok || (bo.Op != token.EQL && bo.Op != token.NEQ) || !(core.IsNilConst(bo.X) || core.IsNilConst(bo.Y)) {
					continue
				}
				for _, rr := range core.Referrers(bo) {
					if iff, ok := rr.(*ssa.If); ok {
						if bo.Op == token.EQL {
							start = iff.Block().Succs[1]
						} else {
							start = iff.Block().Succs[0]
						}
					}
				}
			}
			if start == nil {
				obs = append(obs, core.Ob(rule, key, p.Pos(ins.Pos()), core.FuncName(fn), core.Undecided, "the recovered value is not compared with nil"))
				return
			}
			var reports func(b *ssa.BasicBlock) bool
			// alwaysReports: every path through the helper reports (sends, stores into shared state, panics)
			var alwaysReports func(h *ssa.Function, depth int) bool
			alwaysReports = func(h *ssa.Function, depth int) bool {
				if h == nil || h.Blocks == nil || !p.InRepo(h) || depth > 2 {
					return false
				}
				seenB := map[*ssa.BasicBlock]bool{}
				ok := true
				var walk func(b *ssa.BasicBlock)
				walk = func(b *ssa.BasicBlock) {
					if seenB[b] || !ok {
						return
					}
					seenB[b] = true
					if reports(b) {
						return
					}
					if len(b.Succs) == 0 {
						ok = false
						return
					}
					for _, s := range b.Succs {
						walk(s)
					}
				}
				walk(h.Blocks[0])
				return ok
			}
			depthNow := 0
			reports = func(b *ssa.BasicBlock) bool {
				for _, x := range b.Instrs {
					switch s := x.(type) {
					case *ssa.Send:
						return true
					case *ssa.Call:
						// a helper of the repository that reports on every path (c.sendError(err))
						if callee := s.Call.StaticCallee(); callee != nil && p.InRepo(callee) && depthNow < 2 {
							depthNow++
							r := alwaysReports(callee, depthNow)
							depthNow--
							if r {
								return true
							}
						}
					case *ssa.Store:
						if a, isAlloc := s.Addr.(*ssa.Alloc); !isAlloc || a.Heap {
							if _, isLocalField := s.Addr.(*ssa.FieldAddr); isLocalField {
								if la, ok := s.Addr.(*ssa.FieldAddr).X.(*ssa.Alloc); ok && !la.Heap {
									continue
								}
							}
							if ia, ok := s.Addr.(*ssa.IndexAddr); ok {
								if la, ok := ia.X.(*ssa.Alloc); ok {
									_ = la
									continue // varargs arrays and other locals
								}
							}
							return true
						}
					case *ssa.Panic:
						return true // re-panicking propagates the value
					}
				}
				return false
			}
			// DFS: is there a path from start to a function exit that never reports?
			seen := map[*ssa.BasicBlock]bool{}
			var leak *ssa.BasicBlock
			var dfs func(b *ssa.BasicBlock)
			dfs = func(b *ssa.BasicBlock) {
				if seen[b] || leak != nil {
					return
				}
				seen[b] = true
				if reports(b) {
					return
				}
				if len(b.Succs) == 0 {
					leak = b
					return
				}
				for _, s := range b.Succs {
					dfs(s)
				}
			}
			dfs(start)
			if leak != nil {
				pos := "-"
				if len(leak.Instrs) > 0 {
					pos = p.Pos(leak.Instrs[len(leak.Instrs)-1].Pos())
				}
				obs = append(obs, core.Ob(rule, key, p.Pos(ins.Pos()), core.FuncName(fn), core.Violated, "a non-nil recovered value can reach the exit at "+pos+" without being reported: the panic is swallowed and the query returns a successful, incomplete result"))
			} else {
				obs = append(obs, core.Ob(rule, key, p.Pos(ins.Pos()), core.FuncName(fn), core.Held, "every path with a non-nil recovered value reports it"))
			}
		})
	}
	return obs
}

// isOnceClosure reports whether ins creates a closure that is handed to (*sync.Once).Do.
func isOnceClosure(ins ssa.Instruction) bool {
	mc, ok := ins.(*ssa.MakeClosure)
	if !ok {
		return false
	}
	for _, r := range core.Referrers(mc) {
		if cc := core.CallCommon(r); cc != nil && core.IsStatic(cc, "(*sync.Once).Do") {
			return true
		}
	}
	return false
}

// seriesPreloaded reports whether the go statement g in spawner is dominated by a once.Do whose
// initialiser requests Series() of the operands on goroutines that recover. When that holds, every
// once-guarded initialiser below the operands (they are triggered by Series() as well as by Next(),
// rule R-INITBEFOREUSE) has completed before g starts, under a recover.
func seriesPreloaded(p *core.Program, spawner *ssa.Function, g *ssa.Go) bool {
	ok := false
	// the once.Do calls that dominate g: in the spawner itself, or in a helper of the same type that the spawner
	// calls before g (func (c *op) initSeries(ctx) error { c.once.Do(...) })
	var inits []*ssa.Function
	onceInit := func(call *ssa.Call) *ssa.Function {
		if !core.IsStatic(&call.Call, "(*sync.Once).Do") || len(call.Call.Args) < 2 {
			return nil
		}
		mc, isMC := call.Call.Args[1].(*ssa.MakeClosure)
		if !isMC {
			return nil
		}
		f, _ := mc.Fn.(*ssa.Function)
		return f
	}
	core.EachInstr(spawner, func(b *ssa.BasicBlock, i int, ins ssa.Instruction) {
		call, isCall := ins.(*ssa.Call)
		if !isCall || !core.InstrDominates(call, g) {
			return
		}
		if f := onceInit(call); f != nil {
			inits = append(inits, f)
			return
		}
		if helper := call.Call.StaticCallee(); helper != nil && p.InRepo(helper) && helper.Blocks != nil && recvNamed(helper) == recvNamed(spawner) {
			core.EachInstr(helper, func(_ *ssa.BasicBlock, _ int, hi ssa.Instruction) {
				if hc, ok := hi.(*ssa.Call); ok {
					if f := onceInit(hc); f != nil {
						inits = append(inits, f)
					}
				}
			})
		}
	})
	for _, init := range inits {
		for f := range syncReach(p, init, func(caller *ssa.Function, ins ssa.Instruction, callee *ssa.Function) bool {
			return recvNamed(callee) == recvNamed(spawner) || callee.Parent() != nil
		}) {
			core.EachInstr(f, func(b *ssa.BasicBlock, i int, ins ssa.Instruction) {
				g2, isGo := ins.(*ssa.Go)
				if !isGo {
					return
				}
				for _, e := range goEntries(p, g2) {
					if recoveringDefer(p, e) == nil {
						continue
					}
					core.EachInstr(e, func(b *ssa.BasicBlock, i int, ins ssa.Instruction) {
						if cc := core.CallCommon(ins); cc != nil && cc.IsInvoke() && isVectorOperatorIface(cc.Value.Type()) && cc.Method.Name() == "Series" {
							ok = true
						}
					})
				}
			})
		}
	}
	return ok
}

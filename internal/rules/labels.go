package rules

import (
	"fmt"
	"go/constant"
	"go/token"
	"go/types"
	"strings"

	"golang.org/x/tools/go/ssa"

	"verif/internal/core"
)

func init() {
	register(&Rule{ID: "R-BOOLNAME", Min: 2, Run: ruleBoolName,
		Doc: "in package binary every decision to drop the metric name (DropMetricName, Builder.Del(__name__)) depends, through its controlling conditions followed interprocedurally to the call sites, on the operator's returnBool as well as on the operator type: the reference drops the name for arithmetic operators or bool"})
	register(&Rule{ID: "R-LABELBUILD", Min: 1, Run: ruleLabelBuild,
		Doc: "no label set is grown by a raw append of labels (base and addition not slices of one value): label sets are built with labels.Builder, which keeps them sorted and free of duplicates"})
	register(&Rule{ID: "R-LABELFRESH", Min: 5, Run: ruleLabelFresh,
		Doc: "every function that edits a label set or matcher slice in place (shift-delete append(l[:i], l[i+1:]...), element store) is only called with a value that is fresh on all paths: a Copy(), a builder result, a make+copy, or the result of another in-place editor applied to a fresh value"})
	register(&Rule{ID: "R-SORTEDNAMES", Min: 3, Run: ruleSortedNames,
		Doc: "every label-name list handed to Labels.HashForLabels/HashWithoutLabels/BytesWithLabels/BytesWithoutLabels (which require sorted names and silently skip names that are out of order) is a value that was sorted: the list stored in the operator's field is the very slice passed to slices.Sort"})

	mutant(Mutant{Rule: "R-BOOLNAME", Name: "vector-bool-keeps-name", File: "execution/binary/vector.go",
		Old: "keepName := o.opType.IsComparisonOperator() && !o.returnBool", New: "keepName := o.opType.IsComparisonOperator()", Expect: "signature"})
	mutant(Mutant{Rule: "R-BOOLNAME", Name: "scalar-bool-keeps-name", File: "execution/binary/scalar.go",
		Old: "if !o.opType.IsComparisonOperator() || o.returnBool {", New: "if !o.opType.IsComparisonOperator() {", Expect: "loadSeries"})
	mutant(Mutant{Rule: "R-LABELBUILD", Name: "include-labels-appended", File: "execution/binary/vector.go",
		Old: "\t\tmetric = lb.Labels(nil)\n", New: "\t\tmetric = append(highCardSeries.Metric, labels.NewBuilder(lowCardSeries.Metric).Keep(includeLabels...).Labels(nil)...)\n\t\t_ = lb\n", Expect: "buildOutputSeries"})
	mutant(Mutant{Rule: "R-LABELFRESH", Name: "scalar-copy-removed", File: "execution/binary/scalar.go",
		Old: "lbls, _ = function.DropMetricName(lbls.Copy())", New: "lbls, _ = function.DropMetricName(lbls)", Expect: "scalarOperator"})
	mutant(Mutant{Rule: "R-LABELFRESH", Name: "histogram-copy-moved", File: "execution/function/histogram.go",
		Old: "lbls, bucketLabel := dropLabel(s.Copy(), \"le\")", New: "lbls, bucketLabel := dropLabel(s, \"le\")", Expect: "histogramOperator"})
	mutant(Mutant{Rule: "R-LABELFRESH", Name: "matcher-copy-removed", File: "logicalplan/merge_selects.go",
		Old: "\t\t\tfilters := make([]*labels.Matcher, len(e.LabelMatchers))\n\t\t\tcopy(filters, e.LabelMatchers)\n", New: "\t\t\tfilters := e.LabelMatchers\n", Expect: "replaceMatchers"})
	mutant(Mutant{Rule: "R-LABELFRESH", Name: "builder-writes-into-input", File: "execution/unary/unary.go",
		Old: "lbls := labels.NewBuilder(vectorSeries[i]).Del(labels.MetricName).Labels(nil)", New: "lbls := labels.NewBuilder(vectorSeries[i]).Del(labels.MetricName).Labels(vectorSeries[i])", Expect: "unaryNegation"})
	mutant(Mutant{Rule: "R-SORTEDNAMES", Name: "sorted-clone-unsorted-stored", File: "execution/aggregate/khashaggregate.go",
		Old: "\tslices.Sort(labels)\n\n\ta := &kAggregate{", New: "\tsorted := append([]string{}, labels...)\n\tslices.Sort(sorted)\n\n\ta := &kAggregate{", Expect: "hashMetric"})
}

// ---------------------------------------------------------------------------------------------
// R-BOOLNAME

func isMetricNameConst(v ssa.Value) bool {
	c, ok := v.(*ssa.Const)
	return ok && c.Value != nil && c.Value.Kind() == constant.String && constant.StringVal(c.Value) == "__name__"
}

// controllingConds returns the conditions ins is control dependent on: Ifs with one successor from
// which ins.Block() is inevitable (it post-dominates the successor) while it is not inevitable from
// the If itself. Transitive control dependences are included.
func controllingConds(ins ssa.Instruction) []ssa.Value {
	fn := ins.Parent()
	pdom := postDominators(fn)
	var out []ssa.Value
	seen := map[*ssa.BasicBlock]bool{}
	var visit func(t *ssa.BasicBlock)
	visit = func(t *ssa.BasicBlock) {
		for _, b := range fn.Blocks {
			iff := core.IfOf(b)
			if iff == nil || seen[b] {
				continue
			}
			if pdom[b][t] && b != t {
				continue // t is inevitable from b
			}
			dep := false
			for _, s := range b.Succs {
				if s == t || pdom[s][t] {
					dep = true
				}
			}
			if dep {
				seen[b] = true
				out = append(out, iff.Cond)
				visit(b)
			}
		}
	}
	visit(ins.Block())
	return out
}

// postDominators computes, for every block, the set of blocks that post-dominate it.
func postDominators(fn *ssa.Function) map[*ssa.BasicBlock]map[*ssa.BasicBlock]bool {
	all := map[*ssa.BasicBlock]bool{}
	for _, b := range fn.Blocks {
		all[b] = true
	}
	pd := map[*ssa.BasicBlock]map[*ssa.BasicBlock]bool{}
	for _, b := range fn.Blocks {
		if len(b.Succs) == 0 {
			pd[b] = map[*ssa.BasicBlock]bool{b: true}
		} else {
			m := map[*ssa.BasicBlock]bool{}
			for x := range all {
				m[x] = true
			}
			pd[b] = m
		}
	}
	for changed := true; changed; {
		changed = false
		for _, b := range fn.Blocks {
			if len(b.Succs) == 0 {
				continue
			}
			nm := map[*ssa.BasicBlock]bool{}
			first := true
			for _, s := range b.Succs {
				if first {
					for x := range pd[s] {
						nm[x] = true
					}
					first = false
				} else {
					for x := range nm {
						if !pd[s][x] {
							delete(nm, x)
						}
					}
				}
			}
			nm[b] = true
			if len(nm) != len(pd[b]) {
				pd[b] = nm
				changed = true
			}
		}
	}
	return pd
}

// fieldsBehind collects (Type.field) loads in the backward slice of v, following parameters to the
// arguments at every static call site (depth-limited).
func fieldsBehind(p *core.Program, v ssa.Value, depth int, out map[string]bool, seen map[ssa.Value]bool) {
	core.BackSlice(v, func(x ssa.Value) bool {
		if seen[x] {
			return false
		}
		seen[x] = true
		if n, f, _, ok := core.FieldRef(x); ok && n != nil {
			out[n.Obj().Name()+"."+f] = true
		}
		if c, ok := x.(*ssa.Call); ok && c.Call.StaticCallee() != nil {
			out["call:"+c.Call.StaticCallee().Name()] = true
		}
		if phi, ok := x.(*ssa.Phi); ok {
			// which edge is taken is decided by the branches that end the predecessors' dominators
			for _, pred := range phi.Block().Preds {
				for b := pred; b != nil; b = b.Idom() {
					if iff := core.IfOf(b); iff != nil {
						fieldsBehind(p, iff.Cond, depth, out, seen)
					}
					if b == phi.Block().Idom() {
						break
					}
				}
			}
		}
		if fv, ok := x.(*ssa.FreeVar); ok && depth > 0 {
			// a variable captured by a closure: what the enclosing function stored into it
			cf := fv.Parent()
			if par := cf.Parent(); par != nil {
				core.EachInstr(par, func(_ *ssa.BasicBlock, _ int, ins ssa.Instruction) {
					mc, ok := ins.(*ssa.MakeClosure)
					if !ok || mc.Fn != cf {
						return
					}
					for i, q := range cf.FreeVars {
						if q != fv || i >= len(mc.Bindings) {
							continue
						}
						bnd := mc.Bindings[i]
						fieldsBehind(p, bnd, depth-1, out, seen)
						if a, ok := bnd.(*ssa.Alloc); ok {
							for _, r := range core.Referrers(a) {
								if st, ok := r.(*ssa.Store); ok && st.Addr == a {
									fieldsBehind(p, st.Val, depth-1, out, seen)
								}
							}
						}
					}
				})
			}
		}
		if pr, ok := x.(*ssa.Parameter); ok && depth > 0 {
			fn := pr.Parent()
			for i, q := range fn.Params {
				if q != pr {
					continue
				}
				for _, cs := range p.CallSitesOf(fn) {
					if cs != nil && i < len(cs.Args) {
						fieldsBehind(p, cs.Args[i], depth-1, out, seen)
					}
				}
			}
		}
		return true
	})
}

func ruleBoolName(p *core.Program) []core.Obligation {
	const rule = "R-BOOLNAME"
	var obs []core.Obligation
	for _, fn := range p.Funcs {
		if core.Rel(fn.Pkg.Pkg.Path()) != "execution/binary" {
			continue
		}
		k := 0
		core.EachInstr(fn, func(b *ssa.BasicBlock, i int, ins ssa.Instruction) {
			call, ok := ins.(*ssa.Call)
			if !ok {
				return
			}
			name := core.CalleeName(&call.Call)
			drop := false
			switch {
			case name == modFunction+".DropMetricName":
				drop = true
			case name == "(*"+pkgLabels+".Builder).Del":
				// Del("__name__") with the constant as the only name
				if sl, ok := call.Call.Args[1].(*ssa.Slice); ok {
					if al, ok := sl.X.(*ssa.Alloc); ok {
						for _, r := range core.Referrers(al) {
							if ia, ok := r.(*ssa.IndexAddr); ok {
								for _, rr := range core.Referrers(ia) {
									if st, ok := rr.(*ssa.Store); ok && isMetricNameConst(st.Val) {
										drop = true
									}
								}
							}
						}
					}
				}
			}
			if !drop {
				return
			}
			k++
			key := fmt.Sprintf("%s drops the metric name #%d", core.FuncName(fn), k)
			fields := map[string]bool{}
			seen := map[ssa.Value]bool{}
			conds := controllingConds(ins)
			for _, c := range conds {
				fieldsBehind(p, c, 3, fields, seen)
			}
			switch {
			case len(conds) == 0:
				obs = append(obs, core.Ob(rule, key, p.Pos(ins.Pos()), core.FuncName(fn), core.Undecided, "the name is dropped unconditionally"))
			case !(fields["vectorOperator.returnBool"] || fields["scalarOperator.returnBool"]):
				obs = append(obs, core.Ob(rule, key, p.Pos(ins.Pos()), core.FuncName(fn), core.Violated, "whether the metric name is dropped does not depend on the bool modifier: 'x == bool y' keeps __name__ where the reference drops it"))
			case !(fields["vectorOperator.opType"] || fields["scalarOperator.opType"]):
				obs = append(obs, core.Ob(rule, key, p.Pos(ins.Pos()), core.FuncName(fn), core.Violated, "whether the metric name is dropped does not depend on the operator"))
			default:
				obs = append(obs, core.Ob(rule, key, p.Pos(ins.Pos()), core.FuncName(fn), core.Held, "decision depends on the operator type and on returnBool"))
			}
		})
	}
	return obs
}

// ---------------------------------------------------------------------------------------------
// R-LABELBUILD / R-LABELFRESH

func isLabelsType(t types.Type) bool {
	if core.TypeIs(t, pkgLabels, "Labels") && !isPointer(t) {
		return true
	}
	if s, ok := t.Underlying().(*types.Slice); ok {
		return core.TypeIs(s.Elem(), pkgLabels, "Label") && !isPointer(s.Elem())
	}
	return false
}

func isMatcherSlice(t types.Type) bool {
	s, ok := t.Underlying().(*types.Slice)
	if !ok {
		return false
	}
	pt, ok := s.Elem().(*types.Pointer)
	return ok && core.TypeIs(pt.Elem(), pkgLabels, "Matcher")
}

// shiftDelete reports whether call is append(x[:i], x[j:]...) on one value x, and returns x.
func shiftDelete(call *ssa.Call) (ssa.Value, bool) {
	bi, ok := call.Call.Value.(*ssa.Builtin)
	if !ok || bi.Name() != "append" || len(call.Call.Args) != 2 {
		return nil, false
	}
	unwrap := func(v ssa.Value) ssa.Value {
		for {
			ct, ok := v.(*ssa.ChangeType)
			if !ok {
				return v
			}
			v = ct.X
		}
	}
	a, ok1 := unwrap(call.Call.Args[0]).(*ssa.Slice)
	b, ok2 := unwrap(call.Call.Args[1]).(*ssa.Slice)
	if !ok1 || !ok2 {
		return nil, false
	}
	if a.X == b.X || core.SameExpr(a.X, b.X) {
		return a.X, true
	}
	// through phis of the loop variable holding the slice
	ca, cb := core.PhiClosure(a.X), core.PhiClosure(b.X)
	for v := range ca {
		if cb[v] {
			return a.X, true
		}
	}
	return nil, false
}

func ruleLabelBuild(p *core.Program) []core.Obligation {
	const rule = "R-LABELBUILD"
	var obs []core.Obligation
	n := 0
	for _, fn := range p.Funcs {
		core.EachInstr(fn, func(b *ssa.BasicBlock, i int, ins ssa.Instruction) {
			call, ok := ins.(*ssa.Call)
			if !ok {
				return
			}
			bi, ok := call.Call.Value.(*ssa.Builtin)
			if !ok || bi.Name() != "append" || !isLabelsType(call.Type()) {
				return
			}
			n++
			key := fmt.Sprintf("%s appends to a label set", core.FuncName(fn))
			if _, ok := shiftDelete(call); ok {
				obs = append(obs, core.Ob(rule, key, p.Pos(ins.Pos()), core.FuncName(fn), core.Held, "shift-delete within one label set (order preserved)"))
				return
			}
			obs = append(obs, core.Ob(rule, key, p.Pos(ins.Pos()), core.FuncName(fn), core.Violated, "labels are appended to an existing label set: the result is not sorted by name and may repeat a name (build it with labels.Builder)"))
		})
	}
	return obs
}

// mutatesParam computes, for every repo function, the set of parameter indices whose backing array
// it edits in place (directly or by passing it to another editor).
func mutatorSummaries(p *core.Program) map[*ssa.Function]map[int]bool {
	sum := map[*ssa.Function]map[int]bool{}
	paramIndex := func(fn *ssa.Function, v ssa.Value) int {
		for x := range core.PhiClosure(v) {
			for i, pr := range fn.Params {
				if x == ssa.Value(pr) {
					return i
				}
			}
			// a slice of the parameter is the same backing array
			if sl, ok := x.(*ssa.Slice); ok {
				for i, pr := range fn.Params {
					if sl.X == ssa.Value(pr) {
						return i
					}
				}
			}
		}
		return -1
	}
	for changed := true; changed; {
		changed = false
		for _, fn := range p.Funcs {
			core.EachInstr(fn, func(b *ssa.BasicBlock, i int, ins ssa.Instruction) {
				mark := func(idx int) {
					if idx < 0 {
						return
					}
					if sum[fn] == nil {
						sum[fn] = map[int]bool{}
					}
					if !sum[fn][idx] {
						sum[fn][idx] = true
						changed = true
					}
				}
				switch x := ins.(type) {
				case *ssa.Call:
					if base, ok := shiftDelete(x); ok && (isLabelsType(x.Type()) || isMatcherSlice(x.Type())) {
						mark(paramIndex(fn, base))
					}
					if callee := x.Call.StaticCallee(); callee != nil && sum[callee] != nil {
						for idx := range sum[callee] {
							if idx < len(x.Call.Args) {
								mark(paramIndex(fn, x.Call.Args[idx]))
							}
						}
					}
				case *ssa.Store:
					if ia, ok := x.Addr.(*ssa.IndexAddr); ok && (isLabelsType(ia.X.Type()) || isMatcherSlice(ia.X.Type())) {
						mark(paramIndex(fn, ia.X))
					}
				}
			})
		}
	}
	return sum
}

// fresh reports whether v is a newly allocated slice on all paths.
func fresh(p *core.Program, v ssa.Value, sum map[*ssa.Function]map[int]bool, depth int, seen map[ssa.Value]bool) bool {
	if depth > 8 || seen[v] {
		return true // cycles through phis add nothing new
	}
	seen[v] = true
	switch x := v.(type) {
	case *ssa.Phi:
		for _, e := range x.Edges {
			if !fresh(p, e, sum, depth+1, seen) {
				return false
			}
		}
		return true
	case *ssa.MakeSlice:
		return true
	case *ssa.Slice:
		if _, ok := x.X.(*ssa.Alloc); ok {
			return true // composite literal
		}
		return fresh(p, x.X, sum, depth+1, seen)
	case *ssa.Extract:
		return fresh(p, x.Tuple, sum, depth+1, seen)
	case *ssa.ChangeType:
		return fresh(p, x.X, sum, depth+1, seen)
	case *ssa.Const:
		return true // nil
	case *ssa.Call:
		name := core.CalleeName(&x.Call)
		switch name {
		case "(" + pkgLabels + ".Labels).Copy", "(*" + pkgLabels + ".Builder).Labels", pkgLabels + ".New", pkgLabels + ".FromStrings", pkgLabels + ".FromMap":
			return true
		}
		if bi, ok := x.Call.Value.(*ssa.Builtin); ok && bi.Name() == "append" {
			// append onto a fresh base stays fresh; a shift-delete of a fresh value stays fresh
			return fresh(p, x.Call.Args[0], sum, depth+1, seen)
		}
		if callee := x.Call.StaticCallee(); callee != nil && p.InRepo(callee) {
			// the result of an in-place editor aliases its argument
			if m := sum[callee]; m != nil {
				for idx := range m {
					if idx < len(x.Call.Args) && !fresh(p, x.Call.Args[idx], sum, depth+1, seen) {
						return false
					}
				}
				return true
			}
		}
		return false
	}
	return false
}

func ruleLabelFresh(p *core.Program) []core.Obligation {
	const rule = "R-LABELFRESH"
	var obs []core.Obligation
	sum := mutatorSummaries(p)
	for _, fn := range p.Funcs {
		k := 0
		core.EachInstr(fn, func(b *ssa.BasicBlock, i int, ins ssa.Instruction) {
			call, ok := ins.(*ssa.Call)
			if !ok {
				return
			}
			callee := call.Call.StaticCallee()
			if callee == nil || sum[callee] == nil {
				return
			}
			for idx := range sum[callee] {
				if idx >= len(call.Call.Args) {
					continue
				}
				arg := call.Call.Args[idx]
				// forwarding the function's own parameter: accounted for by this function's summary
				forwarded := false
				for _, pr := range fn.Params {
					if core.PhiClosure(arg)[ssa.Value(pr)] {
						forwarded = true
					}
				}
				if forwarded && sum[fn] != nil {
					continue
				}
				k++
				key := fmt.Sprintf("%s -> %s edits arg%d in place #%d", core.FuncName(fn), callee.Name(), idx, k)
				if fresh(p, arg, sum, 0, map[ssa.Value]bool{}) {
					obs = append(obs, core.Ob(rule, key, p.Pos(ins.Pos()), core.FuncName(fn), core.Held, "argument is a fresh copy on every path"))
				} else {
					obs = append(obs, core.Ob(rule, key, p.Pos(ins.Pos()), core.FuncName(fn), core.Violated, "an in-place edit is applied to a slice that is not a fresh copy: it may be owned by the storage, by the parsed expression or by another operator of the plan"))
				}
			}
		})
		// Builder.Labels(buf) writes the result into buf's backing array
		core.EachInstr(fn, func(b *ssa.BasicBlock, i int, ins ssa.Instruction) {
			call, ok := ins.(*ssa.Call)
			if !ok || core.CalleeName(&call.Call) != "(*"+pkgLabels+".Builder).Labels" || len(call.Call.Args) < 2 {
				return
			}
			buf := call.Call.Args[1]
			if core.IsNilConst(buf) {
				return
			}
			k++
			key := fmt.Sprintf("%s -> Builder.Labels writes into its buffer argument #%d", core.FuncName(fn), k)
			if fresh(p, buf, sum, 0, map[ssa.Value]bool{}) {
				obs = append(obs, core.Ob(rule, key, p.Pos(ins.Pos()), core.FuncName(fn), core.Held, "the buffer is a fresh slice"))
			} else {
				obs = append(obs, core.Ob(rule, key, p.Pos(ins.Pos()), core.FuncName(fn), core.Violated, "Builder.Labels(buf) compacts the result into buf, and buf is not a fresh slice: it may be the label set the storage or another operator handed out"))
			}
		})
		// direct in-place edits inside non-summarised code: a shift-delete or element store on a non-fresh local
		core.EachInstr(fn, func(b *ssa.BasicBlock, i int, ins ssa.Instruction) {
			call, ok := ins.(*ssa.Call)
			if !ok {
				return
			}
			base, ok := shiftDelete(call)
			if !ok || !(isLabelsType(call.Type()) || isMatcherSlice(call.Type())) {
				return
			}
			isParam := false
			for x := range core.PhiClosure(base) {
				if _, ok := x.(*ssa.Parameter); ok {
					isParam = true
				}
				if c, ok := x.(*ssa.Call); ok && c == call {
					continue
				}
			}
			if isParam {
				return // summarised, checked at the callers
			}
			key := fmt.Sprintf("%s shift-deletes a local slice", core.FuncName(fn))
			// ignore the self-reference through the loop phi
			seen := map[ssa.Value]bool{ssa.Value(call): true}
			if fresh(p, base, sum, 0, seen) {
				obs = append(obs, core.Ob(rule, key, p.Pos(ins.Pos()), core.FuncName(fn), core.Held, "edited slice is fresh"))
			} else {
				obs = append(obs, core.Ob(rule, key, p.Pos(ins.Pos()), core.FuncName(fn), core.Violated, "a slice that is not a fresh copy is edited in place"))
			}
		})
	}
	return obs
}

// ---------------------------------------------------------------------------------------------
// R-SORTEDNAMES

func ruleSortedNames(p *core.Program) []core.Obligation {
	const rule = "R-SORTEDNAMES"
	var obs []core.Obligation
	isSortCall := func(cc *ssa.CallCommon) bool {
		n := core.CalleeName(cc)
		return strings.HasPrefix(n, "golang.org/x/exp/slices.Sort") || n == "sort.Strings" || strings.HasPrefix(n, "slices.Sort")
	}
	// sorted(v): a sort call on the same SSA value dominates use
	sortedAt := func(v ssa.Value, use ssa.Instruction) bool {
		for _, r := range core.Referrers(v) {
			if c, ok := r.(*ssa.Call); ok && isSortCall(&c.Call) && core.InstrDominates(c, use) {
				return true
			}
		}
		return false
	}
	var sortedValue func(v ssa.Value, use ssa.Instruction, depth int) (bool, string)
	sortedValue = func(v ssa.Value, use ssa.Instruction, depth int) (bool, string) {
		if depth > 6 {
			return false, "too deep"
		}
		if sortedAt(v, use) {
			return true, ""
		}
		switch x := v.(type) {
		case *ssa.Parameter:
			fn := x.Parent()
			sites := p.CallSitesOf(fn)
			if len(sites) == 0 {
				return false, "parameter " + x.Name() + " of a function without static callers"
			}
			for i, q := range fn.Params {
				if q != x {
					continue
				}
				for _, cs := range sites {
					if cs == nil {
						return false, "function used as a value"
					}
					var at ssa.Instruction
					for _, f2 := range p.Funcs {
						core.EachInstr(f2, func(b *ssa.BasicBlock, k int, ins ssa.Instruction) {
							if core.CallCommon(ins) == cs {
								at = ins
							}
						})
					}
					if at == nil {
						return false, "call site not found"
					}
					if ok, why := sortedValue(cs.Args[i], at, depth+1); !ok {
						return false, why
					}
				}
			}
			return true, ""
		case *ssa.UnOp:
			if x.Op != token.MUL {
				return false, "unrecognised"
			}
			n, f, _, ok := core.FieldRef(x.X)
			if !ok || n == nil {
				return false, "load from a non-field location"
			}
			// every store into this field stores a sorted value
			found := false
			for _, fn := range p.Funcs {
				var bad string
				core.EachInstr(fn, func(b *ssa.BasicBlock, k int, ins ssa.Instruction) {
					st, ok := ins.(*ssa.Store)
					if !ok {
						return
					}
					n2, f2, _, ok := core.FieldRef(st.Addr)
					if !ok || n2 != n || f2 != f {
						return
					}
					found = true
					if ok2, why := sortedValue(st.Val, st, depth+1); !ok2 {
						bad = fmt.Sprintf("the value stored into %s.%s in %s is not the slice that was sorted (%s)", n.Obj().Name(), f, core.FuncName(fn), why)
					}
				})
				if bad != "" {
					return false, bad
				}
			}
			if !found {
				return false, "no store into " + n.Obj().Name() + "." + f
			}
			return true, ""
		case *ssa.Const:
			return true, "" // nil: no names
		case *ssa.Slice:
			return sortedValue(x.X, use, depth+1)
		case *ssa.Call:
			// a helper of the repository that returns a sorted list (sortedGroupingLabels(grouping)): every
			// return hands back a value that was sorted before the return
			callee := x.Call.StaticCallee()
			if callee == nil || callee.Blocks == nil || !p.InRepo(callee) || callee.Signature.Results().Len() != 1 {
				return false, fmt.Sprintf("value of unrecognised origin %T", v)
			}
			okAll, why := true, ""
			n := 0
			core.EachInstr(callee, func(rb *ssa.BasicBlock, _ int, ins ssa.Instruction) {
				ret, isRet := ins.(*ssa.Return)
				if !isRet || rb == callee.Recover {
					return
				}
				n++
				if ok2, w := sortedValue(core.RetResults(ret)[0], ret, depth+1); !ok2 {
					okAll, why = false, "helper "+callee.Name()+" returns a value that is not sorted ("+w+")"
				}
			})
			if n == 0 {
				return false, "helper without return"
			}
			return okAll, why
		}
		return false, fmt.Sprintf("value of unrecognised origin %T", v)
	}
	for _, fn := range p.Funcs {
		k := 0
		core.EachInstr(fn, func(b *ssa.BasicBlock, i int, ins ssa.Instruction) {
			call, ok := ins.(*ssa.Call)
			if !ok {
				return
			}
			name := core.CalleeName(&call.Call)
			switch name {
			case "(" + pkgLabels + ".Labels).HashForLabels", "(" + pkgLabels + ".Labels).HashWithoutLabels",
				"(" + pkgLabels + ".Labels).BytesWithLabels", "(" + pkgLabels + ".Labels).BytesWithoutLabels":
			default:
				return
			}
			k++
			names := call.Call.Args[len(call.Call.Args)-1]
			key := fmt.Sprintf("%s -> %s names #%d", core.FuncName(fn), call.Call.StaticCallee().Name(), k)
			// append(sorted, "__name__") for the ignoring case: the appended name is skipped by the hash anyway; check the base
			for v := range core.PhiClosure(names) {
				if c, ok := v.(*ssa.Call); ok {
					if bi, ok := c.Call.Value.(*ssa.Builtin); ok && bi.Name() == "append" {
						names = c.Call.Args[0]
					}
				}
			}
			okAll, why := true, ""
			for v := range core.PhiClosure(names) {
				if c, ok := v.(*ssa.Call); ok {
					if bi, ok := c.Call.Value.(*ssa.Builtin); ok && bi.Name() == "append" {
						continue
					}
				}
				if ok2, w := sortedValue(v, ins, 0); !ok2 {
					okAll, why = false, w
				}
			}
			if okAll {
				obs = append(obs, core.Ob(rule, key, p.Pos(ins.Pos()), core.FuncName(fn), core.Held, "the names are a slice that was sorted before it was stored/passed"))
			} else {
				obs = append(obs, core.Ob(rule, key, p.Pos(ins.Pos()), core.FuncName(fn), core.Violated, "the label names given to the hash are not established to be sorted: "+why+"; out-of-order names are silently skipped and groups merge"))
			}
		})
	}
	return obs
}

func init() {
	register(&Rule{ID: "R-AGGNAME", Min: 1, Run: ruleAggName,
		Doc: "where an aggregation's group key is computed with Labels.HashWithoutLabels (which always ignores the metric name) the output label set built next to it deletes the metric name as well: group key and group labels agree, and the result of an aggregation never carries __name__"})
	mutant(Mutant{Rule: "R-AGGNAME", Name: "without-keeps-name", File: "execution/aggregate/scalar_table.go",
		Old: "\t\tlb.Del(labels.MetricName)\n", New: "", Expect: "hashMetric"})
}

// delsMetricName reports whether call is Builder.Del with the constant "__name__" among its names.
func delsMetricName(call *ssa.Call) bool {
	if core.CalleeName(&call.Call) != "(*"+pkgLabels+".Builder).Del" || len(call.Call.Args) < 2 {
		return false
	}
	sl, ok := call.Call.Args[1].(*ssa.Slice)
	if !ok {
		return false
	}
	al, ok := sl.X.(*ssa.Alloc)
	if !ok {
		return false
	}
	for _, r := range core.Referrers(al) {
		if ia, ok := r.(*ssa.IndexAddr); ok {
			for _, rr := range core.Referrers(ia) {
				if st, ok := rr.(*ssa.Store); ok && isMetricNameConst(st.Val) {
					return true
				}
			}
		}
	}
	return false
}

func ruleAggName(p *core.Program) []core.Obligation {
	const rule = "R-AGGNAME"
	var obs []core.Obligation
	for _, fn := range p.Funcs {
		if core.Rel(fn.Pkg.Pkg.Path()) != "execution/aggregate" {
			continue
		}
		core.EachInstr(fn, func(b *ssa.BasicBlock, i int, ins ssa.Instruction) {
			call, ok := ins.(*ssa.Call)
			if !ok || core.CalleeName(&call.Call) != "("+pkgLabels+".Labels).HashWithoutLabels" {
				return
			}
			key := core.FuncName(fn) + " without-branch drops the metric name"
			// a Builder.Del("__name__") on the same path: in a block that dominates, or is dominated by, the hash call's block
			found := false
			core.EachInstr(fn, func(b2 *ssa.BasicBlock, j int, x ssa.Instruction) {
				if c, ok := x.(*ssa.Call); ok && delsMetricName(c) && (core.BlockDominates(b2, b) || core.BlockDominates(b, b2)) {
					// and not shared with the by-branch: the Del must be control dependent on the same condition as the hash call, i.e. same block
					if b2 == b {
						found = true
					}
				}
			})
			if found {
				obs = append(obs, core.Ob(rule, key, p.Pos(call.Pos()), core.FuncName(fn), core.Held, "Builder.Del(__name__) next to HashWithoutLabels"))
			} else {
				obs = append(obs, core.Ob(rule, key, p.Pos(call.Pos()), core.FuncName(fn), core.Violated, "the group key ignores the metric name but the group's label set keeps it: 'sum without (l) (x)' returns series carrying __name__, and metrics that differ only in name share a key but not their labels"))
			}
		})
	}
	return obs
}

package rules

import (
	"fmt"
	"go/token"
	"go/types"
	"strings"

	"golang.org/x/tools/go/ssa"

	"verif/internal/core"
)

func init() {
	register(&Rule{ID: "R-GOSHARED", Min: 3, Run: ruleGoShared,
		Doc: "every variable of the spawning function that a go closure writes (directly, or an element/field through it) is written either at an element indexed by the goroutine's own parameter, or between Lock and Unlock of a mutex, and is read by the spawner only after a join (WaitGroup.Wait or a channel receive) that follows the go statement; a goroutine writes fields of a captured receiver only under a mutex"})

	mutant(Mutant{Rule: "R-GOSHARED", Name: "merge-without-lock", File: "execution/exchange/coalesce.go",
		Old: "\t\t\tc.mu.Lock()\n\t\t\tdefer c.mu.Unlock()\n\n\t\t\tif len(in) > 0 && out == nil {", New: "\t\t\tif len(in) > 0 && out == nil {", Expect: "out"})
	mutant(Mutant{Rule: "R-GOSHARED", Name: "counter-outside-lock", File: "execution/exchange/coalesce.go",
		Old: "\t\t\tmu.Lock()\n\t\t\tnumSeries += uint64(len(series))\n\t\t\tmu.Unlock()\n", New: "\t\t\tmu.Lock()\n\t\t\tmu.Unlock()\n\t\t\tnumSeries += uint64(len(series))\n", Expect: "numSeries"})
	mutant(Mutant{Rule: "R-GOSHARED", Name: "scratch-buffer-shared-with-goroutine", File: "execution/binary/vector.go",
		Old: "\thighCardHashes, highCardInputMap := o.hashSeries(highCardSide, keepLabels, keepName, buf)\n", New: "\tvar (\n\t\twg               sync.WaitGroup\n\t\thighCardHashes   map[uint64][]model.Series\n\t\thighCardInputMap map[uint64][]uint64\n\t)\n\twg.Add(1)\n\tgo func() {\n\t\tdefer wg.Done()\n\t\thighCardHashes, highCardInputMap = o.hashSeries(highCardSide, keepLabels, keepName, buf)\n\t}()\n", Old2: "\toutput, highCardOutputIndex, lowCardOutputIndex := o.join(", New2: "\twg.Wait()\n\toutput, highCardOutputIndex, lowCardOutputIndex := o.join(", Expect: "buf"})
	mutant(Mutant{Rule: "R-GOSHARED", Name: "read-before-join", File: "execution/binary/vector.go",
		Old: "\tif err := <-errChan; err != nil {\n\t\treturn err\n\t}\n\n\to.lhSampleIDs = highCardSide", New: "\to.lhSampleIDs = highCardSide\n\tif err := <-errChan; err != nil {\n\t\treturn err\n\t}\n", Expect: "highCardSide"})
}

func ruleGoShared(p *core.Program) []core.Obligation {
	const rule = "R-GOSHARED"
	var obs []core.Obligation
	for _, fn := range p.Funcs {
		core.EachInstr(fn, func(b *ssa.BasicBlock, i int, ins ssa.Instruction) {
			g, ok := ins.(*ssa.Go)
			if !ok {
				return
			}
			mc, ok := g.Call.Value.(*ssa.MakeClosure)
			if !ok {
				return
			}
			cf, ok := mc.Fn.(*ssa.Function)
			if !ok {
				return
			}
			inLoop := core.LoopDepth(fn)[b] > 0 // several instances of the goroutine run concurrently
			for j, fv := range cf.FreeVars {
				if j >= len(mc.Bindings) {
					continue
				}
				binding := mc.Bindings[j]
				writes := writesThrough(cf, fv)
				// a captured scratch buffer ([]byte) handed to a call is written by the callee (label hashing,
				// Bytes(), append-style APIs): treated as a write through the variable
				if pt, ok := fv.Type().Underlying().(*types.Pointer); ok {
					if sl, ok := pt.Elem().Underlying().(*types.Slice); ok {
						if bt, ok := sl.Elem().Underlying().(*types.Basic); ok && bt.Kind() == types.Uint8 {
							for _, r := range core.Referrers(fv) {
								ld, ok := r.(*ssa.UnOp)
								if !ok || ld.Op != token.MUL {
									continue
								}
								for _, rr := range core.Referrers(ld) {
									if cc := core.CallCommon(rr); cc != nil {
										writes = append(writes, sharedWrite{ins: rr})
									}
								}
							}
						}
					}
				}
				if len(writes) == 0 {
					continue
				}
				key := fmt.Sprintf("go %s writes captured %s", core.FuncName(cf), fv.Name())
				status, detail := core.Held, ""
				alloc, byRef := binding.(*ssa.Alloc)
				for _, w := range writes {
					switch {
					case w.indexPrivate:
						detail = "element indexed by the goroutine's own parameter"
					case lockedIn(cf, w.ins):
						detail = "written between Lock and Unlock"
					case byRef && !inLoop && releasesAfter(cf, w.ins):
						detail = "written before the goroutine's release (send/close/Done)"
					default:
						status = core.Violated
						detail = fmt.Sprintf("written at %s without a lock, not at a goroutine-private index and not before a release: concurrent goroutines (or the spawner) race on it", p.Pos(w.ins.Pos()))
					}
					if status != core.Held {
						break
					}
				}
				// the spawner reads the variable only after a join
				if status == core.Held && byRef {
					if bad := readBeforeJoin(fn, alloc, g); bad != nil {
						status = core.Violated
						detail = fmt.Sprintf("the spawner reads %s at %s without a preceding join (WaitGroup.Wait / channel receive) after the go statement: it can observe a half-written value", fv.Name(), p.Pos(bad.Pos()))
					}
				}
				obs = append(obs, core.Ob(rule, key, p.Pos(g.Pos()), core.FuncName(fn), status, detail))
			}
		})
	}
	return obs
}

type sharedWrite struct {
	ins          ssa.Instruction
	indexPrivate bool
}

// writesThrough finds stores in cf (including its nested closures that capture the same variable is out of
// scope: only cf) whose address is the captured variable or reached through it.
func writesThrough(cf *ssa.Function, fv *ssa.FreeVar) []sharedWrite {
	var out []sharedWrite
	// rooted(v): v's address chain starts at fv or at a load of fv
	var rooted func(v ssa.Value, depth int) (bool, bool)
	rooted = func(v ssa.Value, depth int) (isRooted bool, private bool) {
		if depth > 8 {
			return false, false
		}
		switch x := v.(type) {
		case *ssa.FreeVar:
			return x == fv, false
		case *ssa.UnOp:
			if x.Op == token.MUL {
				return rooted(x.X, depth+1)
			}
		case *ssa.FieldAddr:
			return rooted(x.X, depth+1)
		case *ssa.IndexAddr:
			r, pr := rooted(x.X, depth+1)
			if r {
				// private when indexed by a parameter of the goroutine function
				if _, isParam := x.Index.(*ssa.Parameter); isParam {
					pr = true
				}
			}
			return r, pr
		case *ssa.Slice:
			return rooted(x.X, depth+1)
		case *ssa.Phi:
			for _, e := range x.Edges {
				if r, pr := rooted(e, depth+1); r {
					return r, pr
				}
			}
		case *ssa.Call:
			// append(out, ...) keeps the root
			if bi, ok := x.Call.Value.(*ssa.Builtin); ok && bi.Name() == "append" {
				return rooted(x.Call.Args[0], depth+1)
			}
		}
		return false, false
	}
	core.EachInstr(cf, func(b *ssa.BasicBlock, i int, ins ssa.Instruction) {
		switch x := ins.(type) {
		case *ssa.Store:
			if r, pr := rooted(x.Addr, 0); r {
				out = append(out, sharedWrite{ins, pr})
			}
		case *ssa.MapUpdate:
			if r, _ := rooted(x.Map, 0); r {
				out = append(out, sharedWrite{ins, false})
			}
		}
	})
	return out
}

// lockedIn: a Mutex.Lock call dominates ins in cf and the unlock is deferred or follows ins.
func lockedIn(cf *ssa.Function, ins ssa.Instruction) bool {
	var locks []ssa.Instruction
	deferredUnlock := false
	var unlocks []ssa.Instruction
	core.EachInstr(cf, func(b *ssa.BasicBlock, i int, x ssa.Instruction) {
		cc := core.CallCommon(x)
		if cc == nil {
			return
		}
		switch core.CalleeName(cc) {
		case "(*sync.Mutex).Lock", "(*sync.RWMutex).Lock":
			locks = append(locks, x)
		case "(*sync.Mutex).Unlock", "(*sync.RWMutex).Unlock":
			if _, ok := x.(*ssa.Defer); ok {
				deferredUnlock = true
			} else {
				unlocks = append(unlocks, x)
			}
		}
	})
	for _, l := range locks {
		if !core.InstrDominates(l, ins) {
			continue
		}
		released := false
		for _, u := range unlocks {
			if core.InstrDominates(l, u) && core.InstrDominates(u, ins) {
				released = true
			}
		}
		if released {
			continue
		}
		if deferredUnlock {
			return true
		}
		for _, u := range unlocks {
			if core.InstrDominates(ins, u) || (u.Block() == ins.Block() && core.InstrIndex(u) > core.InstrIndex(ins)) {
				return true
			}
		}
	}
	return false
}

// releasesAfter: after the write the goroutine performs a release operation (channel send/close,
// WaitGroup.Done), either later on every path or by defer.
func releasesAfter(cf *ssa.Function, w ssa.Instruction) bool {
	ok := false
	core.EachInstr(cf, func(b *ssa.BasicBlock, i int, x ssa.Instruction) {
		isRelease := false
		switch y := x.(type) {
		case *ssa.Send:
			isRelease = true
		case *ssa.Defer:
			n := core.CalleeName(&y.Call)
			if n == "(*sync.WaitGroup).Done" || n == "builtin.close" {
				ok = true // runs at exit, after every write
			}
		case *ssa.Call:
			n := core.CalleeName(&y.Call)
			isRelease = n == "(*sync.WaitGroup).Done" || n == "builtin.close"
		}
		if isRelease && (core.InstrDominates(w, x) || core.Reaches(w.Block(), x.Block())) {
			ok = true
		}
	})
	return ok
}

// readBeforeJoin returns a load of the captured variable in the spawner that can execute after the go
// statement without a join in between.
func readBeforeJoin(fn *ssa.Function, v *ssa.Alloc, g *ssa.Go) ssa.Instruction {
	var joins []ssa.Instruction
	core.EachInstr(fn, func(b *ssa.BasicBlock, i int, x ssa.Instruction) {
		switch y := x.(type) {
		case *ssa.Call:
			if core.CalleeName(&y.Call) == "(*sync.WaitGroup).Wait" || waitsOnAllPaths(y.Call.StaticCallee()) {
				joins = append(joins, x)
			}
		case *ssa.UnOp:
			if y.Op == token.ARROW {
				joins = append(joins, x)
			}
		case *ssa.Select:
			joins = append(joins, x)
		}
	})
	var bad ssa.Instruction
	for _, r := range core.Referrers(v) {
		u, ok := r.(*ssa.UnOp)
		if !ok || u.Op != token.MUL || u.Parent() != fn {
			continue
		}
		after := (u.Block() == g.Block() && core.InstrIndex(u) > core.InstrIndex(g)) || core.Reaches(g.Block(), u.Block())
		if !after {
			continue
		}
		joined := false
		for _, j := range joins {
			afterGo := (j.Block() == g.Block() && core.InstrIndex(j) > core.InstrIndex(g)) || (j.Block() != g.Block() && core.Reaches(g.Block(), j.Block()))
			if afterGo && core.InstrDominates(j, u) {
				joined = true
			}
		}
		if !joined {
			bad = u
		}
	}
	return bad
}

// waitsOnAllPaths reports whether callee (a helper such as func (c *op) wait() { c.wg.Wait() }) calls
// WaitGroup.Wait on every path to a return.
func waitsOnAllPaths(callee *ssa.Function) bool {
	if callee == nil || callee.Blocks == nil || callee.Pkg == nil || !strings.HasPrefix(callee.Pkg.Pkg.Path(), core.Module) {
		return false
	}
	var waits []ssa.Instruction
	core.EachInstr(callee, func(_ *ssa.BasicBlock, _ int, x ssa.Instruction) {
		if c, ok := x.(*ssa.Call); ok && core.CalleeName(&c.Call) == "(*sync.WaitGroup).Wait" {
			waits = append(waits, x)
		}
	})
	if len(waits) == 0 {
		return false
	}
	all := true
	core.EachInstr(callee, func(b *ssa.BasicBlock, _ int, x ssa.Instruction) {
		r, ok := x.(*ssa.Return)
		if !ok || b == callee.Recover {
			return
		}
		dom := false
		for _, w := range waits {
			if core.InstrDominates(w, r) {
				dom = true
			}
		}
		if !dom {
			all = false
		}
	})
	return all
}

package rules

// Mutant is an in-memory, single-site mutation of the current tree on which a rule must fire.
// It is applied with a go/packages overlay (no file is written). Mutants are the "tiny positive
// example that must match on every run": they keep a rule from passing vacuously, and most of
// them are the reverse of a fix: commit, so a returning defect is reported again.
type Mutant struct {
	Rule   string
	Name   string
	File   string // module-relative file
	Old    string // text that must be present (otherwise the mutant is skipped)
	New    string
	Old2   string // optional second replacement in the same file
	New2   string
	Old3   string // optional third replacement in the same file (e.g. an import)
	New3   string
	Expect string // substring of the obligation key that must be reported as violated
}

var mutants = map[string][]Mutant{}

func mutant(m Mutant) { mutants[m.Rule] = append(mutants[m.Rule], m) }

// MutantsOf returns the mutants registered for a rule.
func MutantsOf(rule string) []Mutant { return mutants[rule] }

package rules

import (
	"fmt"
	"go/ast"
	"go/token"
	"go/types"
	"sort"
	"strings"

	"golang.org/x/tools/go/packages"

	"verif/internal/core"
)

// R-REFPORT: sibling agreement between the kernels this repository ported from the reference engine
// and the reference functions themselves, read on every run from the source of the pinned Prometheus
// module (the very package the repository links against).
//
// What is compared is the *decision signature* of a function, following calls into functions of the
// same package:
//   - every comparison with a float64 or int64 operand, as an ordered pair of operand kinds (a
//     constant with its value, or "v" for anything else) that is invariant under negating the
//     comparison together with its branches and under swapping its operands:
//     x<y and x>=y are S(x,y); x>y and x<=y are S(y,x); == and != are E(..);
//   - every math.IsNaN / math.IsInf test and every staleness-marker test (value.IsStaleNaN);
//   - the number of float multiplications and divisions (additions and subtractions are not counted:
//     moving an accumulation into a helper that returns a partial sum changes their number);
//   - every reference to a function of package math (simpleFunc(math.Abs));
//   - the set of non-zero float constants the function computes with.
//
// Renaming, reordering, extracting helpers or variables, turning a switch into ifs and inverting an
// if/else leave the signature unchanged. Dropping or adding a guard, moving a boundary against a
// constant (> 0 to >= 0), losing a NaN/Inf test and changing a constant change it. Which side of a
// comparison between two variables is the larger one is *not* part of the signature (it cannot be
// told apart from an inverted branch without matching variables across the two code bases).
// Arms for native histograms (case chunkenc.ValHistogram / ValFloatHistogram) are skipped on both
// sides: the repository rejects native histograms.

const pkgPromqlRef = "github.com/prometheus/prometheus/promql"

type refPair struct {
	class    string // select | range | instant | agg: which property the pair belongs to
	repoPkg  string // module-relative package
	repoFunc string // function name, "Recv.Method", or "@key" for the func literal stored under Funcs[key]
	refFunc  string // function name or "Recv.Method" in the reference package
	stop     string // comma-separated helpers of the reference that are not entered (compared by another rule)
}

var refPairs = []refPair{
	{"range", "execution/function", "extrapolatedRate", "extrapolatedRate", ""},
	{"range", "execution/function", "instantValue", "instantValue", ""},
	{"range", "execution/function", "avgOverTime", "funcAvgOverTime", ""},
	{"range", "execution/function", "sumOverTime", "funcSumOverTime", ""},
	{"range", "execution/function", "stddevOverTime", "funcStddevOverTime", ""},
	{"range", "execution/function", "stdvarOverTime", "funcStdvarOverTime", ""},
	{"range", "execution/function", "maxOverTime", "funcMaxOverTime", ""},
	{"range", "execution/function", "minOverTime", "funcMinOverTime", ""},
	{"range", "execution/function", "changes", "funcChanges", ""},
	{"range", "execution/function", "resets", "funcResets", ""},
	{"range", "execution/function", "deriv", "funcDeriv", ""},
	{"range", "execution/function", "linearRegression", "linearRegression", ""},
	{"range", "execution/function", "KahanSumInc", "kahanSumInc", ""},
	{"instant", "execution/function", "bucketQuantile", "bucketQuantile", ""},
	{"instant", "execution/function", "coalesceBuckets", "coalesceBuckets", ""},
	{"instant", "execution/function", "ensureMonotonic", "ensureMonotonic", ""},
	{"instant", "execution/function", "buckets.Less", "buckets.Less", ""},
	{"agg", "execution/aggregate", "quantile", "quantile", ""},
	{"agg", "execution/aggregate", "convertibleToInt64", "convertibleToInt64", ""},
	{"hints", "execution", "getTimeRangesForVectorSelector", "Engine.getTimeRangesForSelector", ""},
	{"range", "execution/scan", "selectPoints", "evaluator.matrixIterSlice", ""},
	{"select", "execution/scan", "selectPoint", "evaluator.vectorSelectorSingle", ""},
	// the per-sample loop of a vector-scalar operation: the operation itself (vectorElemBinop) is a table
	// entry in the port and compared by R-OPTABLE
	{"binary", "execution/binary", "scalarOperator.Next", "evaluator.VectorscalarBinop", "vectorElemBinop"},
}

func init() {
	const refDoc = "the port makes the same decisions as the function of the pinned Prometheus version it was ported from: the same comparisons on floats and timestamps (as operand-kind pairs invariant under branch inversion), the same NaN/Inf tests, the same number of float multiplications and divisions, the same functions of package math, the same non-zero float constants, following package-local helpers on both sides. Every entry of function.Funcs is paired with the function the reference registers under that name in promql.FunctionCalls. The reference is re-read from the module source on every run"
	register(&Rule{ID: "R-REFPORT-SELECT", Min: 1, Run: func(p *core.Program) []core.Obligation { return ruleRefPort(p, "R-REFPORT-SELECT", "select") },
		Doc: "the instant-vector sample selection (scan.selectPoint) against evaluator.vectorSelectorSingle: " + refDoc})
	register(&Rule{ID: "R-REFPORT-RANGE", Min: 25, Run: func(p *core.Program) []core.Obligation { return ruleRefPort(p, "R-REFPORT-RANGE", "range") },
		Doc: "the range-vector window selection (scan.selectPoints against evaluator.matrixIterSlice) and every range-function kernel and helper: " + refDoc})
	register(&Rule{ID: "R-REFPORT-INSTANT", Min: 25, Run: func(p *core.Program) []core.Obligation { return ruleRefPort(p, "R-REFPORT-INSTANT", "instant") },
		Doc: "every instant-function kernel and the histogram quantile helpers: " + refDoc})
	register(&Rule{ID: "R-REFPORT-BINARY", Min: 1, Run: func(p *core.Program) []core.Obligation { return ruleRefPort(p, "R-REFPORT-BINARY", "binary") },
		Doc: "the per-sample loop of a vector-scalar operation (binary.scalarOperator.Next against evaluator.VectorscalarBinop, the operation itself excluded: R-OPTABLE compares the operation tables): " + refDoc})
	register(&Rule{ID: "R-REFPORT-HINTS", Min: 1, Run: func(p *core.Program) []core.Obligation { return ruleRefPort(p, "R-REFPORT-HINTS", "hints") },
		Doc: "the time range of a storage select (execution.getTimeRangesForVectorSelector) is derived with the kinds of integer arithmetic of the reference's getTimeRangesForSelector only: start and end minus look-back, range and offset - no rounding, alignment or scaling of the hinted range"})
	register(&Rule{ID: "R-REFPORT-AGG", Min: 5, Run: func(p *core.Program) []core.Obligation {
		return append(ruleRefPort(p, "R-REFPORT-AGG", "agg"), ruleRefAggArms(p, "R-REFPORT-AGG")...)
	},
		Doc: "the sample quantile of the quantile aggregation (aggregate.quantile against promql.quantile) and the grouped accumulators for sum, max, min, group and quantile against the arms of the same aggregation in the reference's aggregation(): " + refDoc})

	mutant(Mutant{Rule: "R-REFPORT-RANGE", Name: "extrapolation-to-zero-ignores-negative-first-sample", File: "execution/function/functions.go",
		Old: "isCounter && resultValue > 0 && samples[0].V >= 0", New: "isCounter && resultValue > 0", Expect: "extrapolatedRate"})
	mutant(Mutant{Rule: "R-REFPORT-RANGE", Name: "sum-over-time-compensates-infinite-sum", File: "execution/function/functions.go",
		Old: "\tif math.IsInf(sum, 0) {\n\t\treturn sum\n\t}\n\treturn sum + c", New: "\treturn sum + c", Expect: "sumOverTime"})
	mutant(Mutant{Rule: "R-REFPORT-RANGE", Name: "extrapolation-threshold-constant", File: "execution/function/functions.go",
		Old: "averageDurationBetweenSamples * 1.1", New: "averageDurationBetweenSamples * 1.5", Expect: "extrapolatedRate"})
	mutant(Mutant{Rule: "R-REFPORT-RANGE", Name: "counter-reset-scan-only-when-negative", File: "execution/function/functions.go",
		Old: "\tif isCounter {\n", New: "\tif isCounter && resultValue < 0 {\n", Expect: "extrapolatedRate"})
}

// refAllow lists, per reference function, the one place where the port deliberately differs: the
// expected (port - reference) count of a signature element, with the reason.
var refAllow = map[string]map[string]int{
	// the port divides the range in milliseconds by 1000 where the reference calls Duration.Seconds()
	"extrapolatedRate": {"A/": 1},
	// the port reads the scalar operand from a stream that may have no sample at a step and substitutes NaN
	// (the reference evaluates the scalar expression, which yields NaN itself)
	"evaluator.VectorscalarBinop": {"M:NaN": 1},
}

type refSig struct {
	elems  map[string]int
	consts map[string]bool
	intOps map[string]bool // kinds of integer (int64) arithmetic used; compared for the time-range derivation only
}

func (s *refSig) String() string {
	var ks []string
	for k, v := range s.elems {
		ks = append(ks, fmt.Sprintf("%s x%d", k, v))
	}
	for k := range s.consts {
		ks = append(ks, "K:"+k)
	}
	sort.Strings(ks)
	return strings.Join(ks, "; ")
}

func isFloatBasic(t types.Type) bool {
	if t == nil {
		return false
	}
	b, ok := t.Underlying().(*types.Basic)
	return ok && b.Info()&types.IsFloat != 0
}

func isInt64Basic(t types.Type) bool {
	if t == nil {
		return false
	}
	b, ok := t.Underlying().(*types.Basic)
	return ok && b.Kind() == types.Int64
}

type refWalker struct {
	pk    *packages.Package
	decls map[*types.Func]*ast.FuncDecl
	seen  map[*types.Func]bool
	sig   *refSig
	// module: the other packages of the analysed module, by path: a call of (or reference to) one of their
	// functions is followed like a package-local helper (nil for the reference side)
	module map[string]*packages.Package
	subs   map[string]*refWalker
	// order: the package-level helpers called, in the order of their first call (depth first)
	order *[]string
}

// other returns the walker (sharing signature and visited set) for another package of the module.
func (w *refWalker) other(path string) *refWalker {
	if w.module == nil || w.module[path] == nil || !strings.HasPrefix(path, core.Module) {
		return nil
	}
	if w.subs == nil {
		w.subs = map[string]*refWalker{}
	}
	if sw, ok := w.subs[path]; ok {
		return sw
	}
	sw := newRefWalker(w.module[path])
	sw.seen, sw.sig, sw.module, sw.subs, sw.order = w.seen, w.sig, w.module, w.subs, w.order
	w.subs[path] = sw
	return sw
}

// follow enters the declaration of fo once: a helper of this package or of another package of the module.
func (w *refWalker) follow(fo *types.Func) {
	if fo == nil || fo.Pkg() == nil || w.seen[fo] {
		return
	}
	tw := w
	if fo.Pkg() != w.pk.Types {
		tw = w.other(fo.Pkg().Path())
		if tw == nil {
			return
		}
	}
	if fd := tw.decls[fo]; fd != nil && fd.Body != nil {
		w.seen[fo] = true
		tw.walk(fd.Body)
	}
}

func newRefWalker(pk *packages.Package) *refWalker {
	w := &refWalker{pk: pk, decls: map[*types.Func]*ast.FuncDecl{}, seen: map[*types.Func]bool{}, sig: &refSig{elems: map[string]int{}, consts: map[string]bool{}, intOps: map[string]bool{}}, order: &[]string{}}
	for _, f := range pk.Syntax {
		for _, d := range f.Decls {
			if fd, ok := d.(*ast.FuncDecl); ok {
				if o, ok := pk.TypesInfo.Defs[fd.Name].(*types.Func); ok {
					w.decls[o] = fd
				}
			}
		}
	}
	return w
}

// walkEntry walks the entry of a pair: a function declaration or literal, or (a table entry that
// names a package function) that function's declaration.
func (w *refWalker) walkEntry(n ast.Node) {
	if id, ok := n.(*ast.Ident); ok {
		if fo, ok := w.pk.TypesInfo.Uses[id].(*types.Func); ok && fo.Pkg() == w.pk.Types {
			if fd := w.decls[fo]; fd != nil && fd.Body != nil {
				w.seen[fo] = true
				w.walk(fd.Body)
				return
			}
		}
	}
	w.walk(n)
}

// reached reports whether the walk entered the package function of that name.
func (w *refWalker) reached(name string) bool {
	for f := range w.seen {
		if f.Name() == name {
			return true
		}
	}
	return false
}

func (w *refWalker) opKind(e ast.Expr) string {
	if tv, ok := w.pk.TypesInfo.Types[e]; ok && tv.Value != nil {
		return "c:" + tv.Value.ExactString()
	}
	return "v"
}

func (w *refWalker) walk(body ast.Node) {
	info := w.pk.TypesInfo
	ast.Inspect(body, func(n ast.Node) bool {
		if e, ok := n.(ast.Expr); ok {
			leaf := false
			switch y := e.(type) {
			case *ast.BasicLit:
				leaf = true
			case *ast.Ident:
				_, leaf = info.Uses[y].(*types.Const)
			case *ast.SelectorExpr:
				_, leaf = info.Uses[y.Sel].(*types.Const)
			}
			if tv, ok := info.Types[e]; ok && leaf && tv.Value != nil && isFloatBasic(tv.Type) {
				if v := tv.Value.ExactString(); v != "0" {
					w.sig.consts[v] = true
				}
				if _, isSel := e.(*ast.SelectorExpr); isSel {
					return false
				}
			}
		}
		if se, ok := n.(*ast.SelectorExpr); ok {
			if fo, ok := info.Uses[se.Sel].(*types.Func); ok && fo.Pkg() != nil && fo.Pkg().Path() == "math" && fo.Name() != "IsNaN" && fo.Name() != "IsInf" {
				w.sig.elems["M:"+fo.Name()]++
			}
		}
		switch x := n.(type) {
		case *ast.CaseClause:
			for _, e := range x.List {
				if se, ok := e.(*ast.SelectorExpr); ok && (se.Sel.Name == "ValHistogram" || se.Sel.Name == "ValFloatHistogram") {
					return false // native histograms are not ported
				}
			}
		case *ast.BinaryExpr:
			switch x.Op {
			case token.MUL, token.QUO:
				if isFloatBasic(info.TypeOf(x)) {
					w.sig.elems["A"+x.Op.String()]++
				}
			}
			switch x.Op {
			case token.ADD, token.SUB, token.MUL, token.QUO, token.REM, token.AND, token.OR, token.XOR, token.SHL, token.SHR, token.AND_NOT:
				if isInt64Basic(info.TypeOf(x)) {
					w.sig.intOps[x.Op.String()] = true
				}
			}
			switch x.Op {
			case token.LSS, token.GTR, token.LEQ, token.GEQ, token.EQL, token.NEQ:
				tx, ty := info.TypeOf(x.X), info.TypeOf(x.Y)
				pre := ""
				switch {
				case isFloatBasic(tx) || isFloatBasic(ty):
					pre = "f"
				case isInt64Basic(tx) || isInt64Basic(ty):
					pre = "i"
				default:
					return true
				}
				l, r := w.opKind(x.X), w.opKind(x.Y)
				switch x.Op {
				case token.LSS, token.GEQ:
					w.sig.elems[fmt.Sprintf("%sS(%s,%s)", pre, l, r)]++
				case token.GTR, token.LEQ:
					w.sig.elems[fmt.Sprintf("%sS(%s,%s)", pre, r, l)]++
				default:
					if l > r {
						l, r = r, l
					}
					w.sig.elems[fmt.Sprintf("%sE(%s,%s)", pre, l, r)]++
				}
			}
		case *ast.ReturnStmt:
			// a function handed back as a value (return kahanSum, nil)
			for _, r := range x.Results {
				var ro types.Object
				switch f := r.(type) {
				case *ast.Ident:
					ro = info.Uses[f]
				case *ast.SelectorExpr:
					ro = info.Uses[f.Sel]
				}
				if rf, ok := ro.(*types.Func); ok {
					w.follow(rf)
				}
			}
		case *ast.AssignStmt:
			if len(x.Lhs) == 1 && isInt64Basic(info.TypeOf(x.Lhs[0])) && x.Tok != token.ASSIGN && x.Tok != token.DEFINE {
				w.sig.intOps[strings.TrimSuffix(x.Tok.String(), "=")] = true
			}
			if len(x.Lhs) == 1 && isFloatBasic(info.TypeOf(x.Lhs[0])) {
				switch x.Tok {
				case token.MUL_ASSIGN:
					w.sig.elems["A*"]++
				case token.QUO_ASSIGN:
					w.sig.elems["A/"]++
				}
			}
		case *ast.CallExpr:
			var obj types.Object
			switch f := x.Fun.(type) {
			case *ast.Ident:
				obj = info.Uses[f]
			case *ast.SelectorExpr:
				obj = info.Uses[f.Sel]
			}
			fo, ok := obj.(*types.Func)
			if !ok || fo.Pkg() == nil {
				// a call of a comparator value (func(float64, float64) bool held in a variable or field)
				// is one comparison of two floats
				if sg, ok := info.TypeOf(x.Fun).(*types.Signature); ok && obj != nil && sg.Params().Len() == 2 && sg.Results().Len() == 1 &&
					isFloatBasic(sg.Params().At(0).Type()) && isFloatBasic(sg.Params().At(1).Type()) && types.Identical(sg.Results().At(0).Type(), types.Typ[types.Bool]) {
					w.sig.elems["fS(v,v)"]++
				}
				return true
			}
			if fo.Pkg().Path() == "math" && (fo.Name() == "IsNaN" || fo.Name() == "IsInf") {
				w.sig.elems["math."+fo.Name()]++
			}
			if fo.Pkg().Path() == pkgValue && fo.Name() == "IsStaleNaN" && len(x.Args) == 1 {
				// a staleness test is a decision on a sample, like a NaN test (the test of a native
				// histogram's sum is not ported: the repository rejects native histograms)
				histogram := false
				if se, ok := x.Args[0].(*ast.SelectorExpr); ok {
					if t := info.TypeOf(se.X); t != nil && strings.Contains(t.String(), "Histogram") {
						histogram = true
					}
				}
				if !histogram {
					w.sig.elems["value.IsStaleNaN"]++
				}
			}
			// a package function handed over as a value (simpleFunc(math.Abs), aggrOverTime(..., f))
			for _, a := range x.Args {
				var ao types.Object
				switch f := a.(type) {
				case *ast.Ident:
					ao = info.Uses[f]
				case *ast.SelectorExpr:
					ao = info.Uses[f.Sel]
				}
				if af, ok := ao.(*types.Func); ok {
					// a named comparator handed over as a value (extreme(points, greaterThan)): its one
					// comparison is counted where the value is called
					if sg, ok := af.Type().(*types.Signature); ok && sg.Recv() == nil && sg.Params().Len() == 2 && sg.Results().Len() == 1 &&
						isFloatBasic(sg.Params().At(0).Type()) && isFloatBasic(sg.Params().At(1).Type()) && types.Identical(sg.Results().At(0).Type(), types.Typ[types.Bool]) {
						continue
					}
					w.follow(af)
				}
			}
			if fo.Pkg() == w.pk.Types && fo.Type().(*types.Signature).Recv() == nil {
				known := false
				for _, n := range *w.order {
					if n == fo.Name() {
						known = true
					}
				}
				if !known {
					*w.order = append(*w.order, fo.Name())
				}
			}
			w.follow(fo)
		}
		return true
	})
}

// findRefBody finds a function ("name" or "Recv.name") or, for "@key", the func literal stored under
// the string key of a composite literal (the Funcs table).
func findRefBody(pk *packages.Package, name string) ast.Node {
	if strings.HasPrefix(name, "@") {
		key := `"` + name[1:] + `"`
		var out ast.Node
		for _, f := range pk.Syntax {
			ast.Inspect(f, func(n ast.Node) bool {
				kv, ok := n.(*ast.KeyValueExpr)
				if !ok || out != nil {
					return out == nil
				}
				if bl, ok := kv.Key.(*ast.BasicLit); ok && bl.Value == key {
					out = kv.Value
				}
				return true
			})
		}
		return out
	}
	recv, fn := "", name
	if i := strings.IndexByte(name, '.'); i >= 0 {
		recv, fn = name[:i], name[i+1:]
	}
	for _, f := range pk.Syntax {
		for _, d := range f.Decls {
			fd, ok := d.(*ast.FuncDecl)
			if !ok || fd.Name.Name != fn || fd.Body == nil {
				continue
			}
			got := ""
			if fd.Recv != nil && len(fd.Recv.List) == 1 {
				t := fd.Recv.List[0].Type
				if st, ok := t.(*ast.StarExpr); ok {
					t = st.X
				}
				if id, ok := t.(*ast.Ident); ok {
					got = id.Name
				}
			}
			if got == recv {
				return fd
			}
		}
	}
	// the function was turned into a method (or a method into a function): the only declaration of that name
	if pk.PkgPath != pkgPromqlRef {
		var only *ast.FuncDecl
		n := 0
		for _, f := range pk.Syntax {
			for _, d := range f.Decls {
				if fd, ok := d.(*ast.FuncDecl); ok && fd.Name.Name == fn && fd.Body != nil {
					only = fd
					n++
				}
			}
		}
		if n == 1 {
			return only
		}
	}
	return nil
}

func ruleRefPort(p *core.Program, rule, class string) []core.Obligation {
	var obs []core.Obligation
	ref := p.Deps[pkgPromqlRef]
	if ref == nil || len(ref.Syntax) == 0 || ref.TypesInfo == nil {
		return []core.Obligation{core.Ob(rule, "reference package "+pkgPromqlRef, "-", "", core.Lost, "the pinned reference package was not loaded with syntax")}
	}
	pairs := append([]refPair{}, refPairs...)
	listed := map[string]bool{}
	for _, pr := range pairs {
		listed[pr.repoPkg+" "+pr.repoFunc] = true
	}
	// every entry of function.Funcs is paired with the function the reference registers under the same
	// name in promql.FunctionCalls
	refCalls := mapLiteralIdents(ref, "FunctionCalls")
	refFuncs, err := referenceFunctions(p)
	if err != nil {
		return []core.Obligation{core.Ob(rule, "parser.Functions", "-", "", core.Lost, err.Error())}
	}
	if fp := p.ByPath[core.Module+"/execution/function"]; fp != nil {
		for _, name := range mapLiteralStringKeys(fp, "Funcs") {
			if rf, ok := refCalls[name]; ok && !listed["execution/function @"+name] && !refPortSkip[name] {
				c := "instant"
				if sig, ok := refFuncs[name]; ok && len(sig.argTypes) > 0 && strings.HasSuffix(sig.argTypes[0], "ValueTypeMatrix") {
					c = "range"
				}
				pairs = append(pairs, refPair{c, "execution/function", "@" + name, rf, ""})
			}
		}
	}
	for _, pr := range pairs {
		if pr.class != class {
			continue
		}
		key := fmt.Sprintf("%s.%s decides like promql.%s", pr.repoPkg, strings.TrimPrefix(pr.repoFunc, "@"), pr.refFunc)
		rp := p.ByPath[core.Module+"/"+pr.repoPkg]
		if rp == nil {
			obs = append(obs, core.Ob(rule, key, "-", "", core.Lost, "package not found"))
			continue
		}
		a, b := findRefBody(rp, pr.repoFunc), findRefBody(ref, pr.refFunc)
		if a == nil {
			obs = append(obs, core.Ob(rule, key, "-", "", core.Lost, "ported function not found in the repository"))
			continue
		}
		if b == nil {
			obs = append(obs, core.Ob(rule, key, "-", "", core.Lost, "reference function not found in the pinned module"))
			continue
		}
		wa, wb := newRefWalker(rp), newRefWalker(ref)
		wa.module = p.ByPath
		for _, name := range strings.Split(pr.stop, ",") {
			for fo := range wb.decls {
				if name != "" && fo.Name() == name {
					wb.seen[fo] = true
				}
			}
		}
		wa.walkEntry(a)
		wb.walkEntry(b)
		var diff []string
		allow := map[string]int{}
		for refFn, d := range refAllow {
			// the exception applies to the function itself and to the kernels that call it
			if pr.refFunc == refFn || wb.reached(refFn) {
				for k, v := range d {
					allow[k] += v
				}
			}
		}
		for k, n := range wb.sig.elems {
			if m := wa.sig.elems[k]; m != n+allow[k] {
				diff = append(diff, fmt.Sprintf("%s: reference %d, port %d", k, n, m))
			}
		}
		for k, m := range wa.sig.elems {
			if _, ok := wb.sig.elems[k]; !ok && m != allow[k] {
				diff = append(diff, fmt.Sprintf("%s: reference 0, port %d", k, m))
			}
		}
		for k := range wb.sig.consts {
			if !wa.sig.consts[k] {
				diff = append(diff, "constant "+k+" of the reference is missing")
			}
		}
		for k := range wa.sig.consts {
			if !wb.sig.consts[k] {
				diff = append(diff, "constant "+k+" does not occur in the reference")
			}
		}
		// the helpers that are themselves ports are called in the reference's order (coalesce the buckets,
		// then make them monotonic): compared on the helpers both sides call
		refName := map[string]string{}
		for _, q := range pairs {
			if q.repoPkg == pr.repoPkg && !strings.HasPrefix(q.repoFunc, "@") && !strings.Contains(q.repoFunc, ".") && !strings.Contains(q.refFunc, ".") {
				refName[q.repoFunc] = q.refFunc
			}
		}
		var po, ro []string
		inRef := map[string]bool{}
		for _, n := range *wb.order {
			inRef[n] = true
		}
		inPort := map[string]bool{}
		for _, n := range *wa.order {
			if rn, ok := refName[n]; ok && inRef[rn] {
				po = append(po, rn)
				inPort[rn] = true
			}
		}
		for _, n := range *wb.order {
			if inPort[n] {
				ro = append(ro, n)
			}
		}
		if strings.Join(po, ",") != strings.Join(ro, ",") {
			diff = append(diff, fmt.Sprintf("ported helpers are called in the order %v, the reference calls them in the order %v", po, ro))
		}
		if class == "hints" {
			// the reference also handles subqueries: only the kinds of integer arithmetic are compared
			diff = nil
			for op := range wa.sig.intOps {
				if !wb.sig.intOps[op] {
					diff = append(diff, "integer operation "+op+" does not occur in the reference's derivation (which only subtracts offsets and ranges)")
				}
			}
		}
		sort.Strings(diff)
		site := p.Pos(a.Pos())
		if len(diff) > 0 {
			obs = append(obs, core.Ob(rule, key, site, pr.repoFunc, core.Violated,
				"the port no longer makes the decisions of the reference function ("+strings.Join(diff, "; ")+"); S(a,b): a<b or its negation, E: equality, f/i: float/int64 operands, c:<value>: constant operand"))
		} else {
			obs = append(obs, core.Ob(rule, key, site, pr.repoFunc, core.Held, "same decision signature as the reference: "+wa.sig.String()))
		}
	}
	return obs
}

func init() {
	mutant(Mutant{Rule: "R-REFPORT-AGG", Name: "ungrouped-sum-compensated", File: "execution/aggregate/vector_table.go",
		Old: "\t\treturn floats.Sum, nil\n", New: "\t\treturn compensatedSum, nil\n",
		Old2: "func (t *vectorTable) size() int {", New2: "func compensatedSum(in []float64) float64 {\n\tvar sum, c float64\n\tfor _, v := range in {\n\t\tsum, c = function.KahanSumInc(v, sum, c)\n\t}\n\treturn sum + c\n}\n\nfunc (t *vectorTable) size() int {",
		Old3: "import (\n", New3: "import (\n\t\"github.com/thanos-community/promql-engine/execution/function\"\n", Expect: "vectorized accumulator \"sum\""})
	mutant(Mutant{Rule: "R-REFPORT-INSTANT", Name: "buckets-made-monotonic-before-merging", File: "execution/function/quantile.go",
		Old: "\tbuckets = coalesceBuckets(buckets)\n\tensureMonotonic(buckets)\n", New: "\tensureMonotonic(buckets)\n\tbuckets = coalesceBuckets(buckets)\n", Expect: "bucketQuantile"})
	mutant(Mutant{Rule: "R-REFPORT-SELECT", Name: "staleness-test-on-the-sought-sample", File: "execution/scan/vector_selector.go",
		Old: "\t\tt, v = it.At()\n", New: "\t\tt, v = it.At()\n\t\tif value.IsStaleNaN(v) {\n\t\t\treturn 0, 0, false, nil\n\t\t}\n", Expect: "selectPoint"})
	mutant(Mutant{Rule: "R-REFPORT-BINARY", Name: "nan-scalar-fast-path", File: "execution/binary/scalar.go",
		Old: "\t\t\toperands := o.getOperands(vector, i, scalarVal)\n", New: "\t\t\tif math.IsNaN(scalarVal) && !o.returnBool {\n\t\t\t\tcontinue\n\t\t\t}\n\t\t\toperands := o.getOperands(vector, i, scalarVal)\n", Expect: "scalarOperator.Next"})
	mutant(Mutant{Rule: "R-REFPORT-RANGE", Name: "stddev-sample-variance", File: "execution/function/functions.go",
		Old: "\treturn math.Sqrt((aux + cAux) / count)\n", New: "\treturn math.Sqrt((aux + cAux) / count * (count / (count - 1)))\n", Expect: "stddevOverTime"})
}

// refPortSkip: entries of function.Funcs that are not ports of the reference function of the same name.
var refPortSkip = map[string]bool{
	// scalar() is evaluated by the function operator itself (it depends on the number of samples per
	// step); the table entry is a placeholder (rules R-PAIRING, R-STEPTS and R-SAMPLE0 cover that branch)
	"scalar": true,
}

// mapLiteralStringKeys returns the string keys of the composite literal assigned to the package variable.
func mapLiteralStringKeys(pk *packages.Package, varName string) []string {
	var out []string
	eachMapLiteralEntry(pk, varName, func(kv *ast.KeyValueExpr) {
		if bl, ok := kv.Key.(*ast.BasicLit); ok && bl.Kind == token.STRING {
			out = append(out, strings.Trim(bl.Value, "\""))
		}
	})
	sort.Strings(out)
	return out
}

// mapLiteralIdents returns key -> identifier for the entries `"key": ident` of the package variable.
func mapLiteralIdents(pk *packages.Package, varName string) map[string]string {
	out := map[string]string{}
	eachMapLiteralEntry(pk, varName, func(kv *ast.KeyValueExpr) {
		bl, ok := kv.Key.(*ast.BasicLit)
		id, ok2 := kv.Value.(*ast.Ident)
		if ok && ok2 && bl.Kind == token.STRING {
			out[strings.Trim(bl.Value, "\"")] = id.Name
		}
	})
	return out
}

func eachMapLiteralEntry(pk *packages.Package, varName string, f func(*ast.KeyValueExpr)) {
	for _, file := range pk.Syntax {
		for _, d := range file.Decls {
			gd, ok := d.(*ast.GenDecl)
			if !ok || gd.Tok != token.VAR {
				continue
			}
			for _, sp := range gd.Specs {
				vs := sp.(*ast.ValueSpec)
				for i, nm := range vs.Names {
					if nm.Name != varName || i >= len(vs.Values) {
						continue
					}
					if cl, ok := vs.Values[i].(*ast.CompositeLit); ok {
						for _, el := range cl.Elts {
							if kv, ok := el.(*ast.KeyValueExpr); ok {
								f(kv)
							}
						}
					}
				}
			}
		}
	}
}

func init() {
	mutant(Mutant{Rule: "R-REFPORT-INSTANT", Name: "ln-is-log2", File: "execution/function/functions.go",
		Old: "\"ln\":    simpleFunc(math.Log),", New: "\"ln\":    simpleFunc(math.Log2),", Expect: "function.ln "})
	mutant(Mutant{Rule: "R-REFPORT-INSTANT", Name: "clamp-extra-nan-test-on-bounds", File: "execution/function/functions.go",
		Old: "\t\tif max < min {\n\t\t\treturn InvalidSample\n\t\t}", New: "\t\tif max < min || math.IsNaN(min) {\n\t\t\treturn InvalidSample\n\t\t}", Expect: "function.clamp "})
}

func init() {
	mutant(Mutant{Rule: "R-REFPORT-SELECT", Name: "sample-exactly-lookback-old-dropped", File: "execution/scan/vector_selector.go",
		Old: "if !ok || t < refTime-lookbackDelta {", New: "if !ok || t < refTime-lookbackDelta || t == refTime-lookbackDelta {", Expect: "selectPoint"})
	mutant(Mutant{Rule: "R-REFPORT-AGG", Name: "quantile-above-one-clamped", File: "execution/aggregate/scalar_table.go",
		Old: "\tif q > 1 {\n\t\treturn math.Inf(+1)\n\t}", New: "\tif q > 1 {\n\t\tq = 1\n\t}", Expect: "quantile"})
	mutant(Mutant{Rule: "R-REFPORT-RANGE", Name: "window-overlap-test-dropped", File: "execution/scan/matrix_selector.go",
		Old: "if len(out) > 0 && out[len(out)-1].T >= mint {", New: "if len(out) > 0 {", Expect: "selectPoints"})
}

// ---- aggregation arms -------------------------------------------------------------------------

// refAggArms: the accumulators of execution/aggregate.makeAccumulatorFunc that are ports of the arm of
// the same aggregation in the reference's aggregation(). avg, stddev and stdvar are different
// algorithms (sum/count instead of a running mean; Kahan-compensated Welford) and are not compared;
// count is an integer counter in the reference (nothing to compare).
var refAggArms = []string{"sum", "max", "min", "group", "quantile"}

// caseBodies returns the bodies of all case clauses of fn for which match holds on one list element.
func caseBodies(fn ast.Node, match func(ast.Expr) bool) []ast.Node {
	var out []ast.Node
	ast.Inspect(fn, func(n ast.Node) bool {
		cc, ok := n.(*ast.CaseClause)
		if !ok {
			return true
		}
		for _, e := range cc.List {
			if match(e) {
				for _, st := range cc.Body {
					out = append(out, st)
				}
				break
			}
		}
		return true
	})
	return out
}

func ruleRefAggArms(p *core.Program, rule string) []core.Obligation {
	var obs []core.Obligation
	ref := p.Deps[pkgPromqlRef]
	rp := p.ByPath[core.Module+"/execution/aggregate"]
	if ref == nil || rp == nil {
		return []core.Obligation{core.Ob(rule, "aggregation arms", "-", "", core.Lost, "packages not loaded")}
	}
	vocab, err := readParserVocab(p)
	if err != nil {
		return []core.Obligation{core.Ob(rule, "aggregation arms", "-", "", core.Lost, err.Error())}
	}
	refFn := findRefBody(ref, "evaluator.aggregation")
	repoFn := findRefBody(rp, "makeAccumulatorFunc")
	if refFn == nil || repoFn == nil {
		return []core.Obligation{core.Ob(rule, "aggregation arms", "-", "", core.Lost, "aggregation() / makeAccumulatorFunc not found")}
	}
	for _, spelling := range refAggArms {
		key := fmt.Sprintf("execution/aggregate accumulator %q decides like the reference arm", spelling)
		tok := ""
		for _, name := range vocab.aggregators {
			if vocab.tokenString[name] == spelling {
				tok = name
			}
		}
		if tok == "" {
			obs = append(obs, core.Ob(rule, key, "-", "", core.Lost, "no aggregator token with that spelling in the pinned parser"))
			continue
		}
		ra := caseBodies(repoFn, func(e ast.Expr) bool {
			if se, ok := e.(*ast.SelectorExpr); ok && se.Sel.Name == tok {
				return true // switch on the parser's token constant instead of its spelling
			}
			bl, ok := e.(*ast.BasicLit)
			return ok && bl.Kind == token.STRING && bl.Value == `"`+spelling+`"`
		})
		rb := caseBodies(refFn, func(e ast.Expr) bool {
			se, ok := e.(*ast.SelectorExpr)
			return ok && se.Sel.Name == tok
		})
		if len(ra) == 0 || len(rb) == 0 {
			obs = append(obs, core.Ob(rule, key, "-", "", core.Lost, fmt.Sprintf("arm not found (repo %d statements, reference %d)", len(ra), len(rb))))
			continue
		}
		wa, wb := newRefWalker(rp), newRefWalker(ref)
		wa.module = p.ByPath
		for _, n := range ra {
			wa.walk(n)
		}
		for _, n := range rb {
			wb.walk(n)
		}
		diff := sigDiff(wa.sig, wb.sig, nil)
		site := p.Pos(ra[0].Pos())
		if len(diff) > 0 {
			obs = append(obs, core.Ob(rule, key, site, "makeAccumulatorFunc", core.Violated,
				"the accumulator no longer makes the decisions of the reference arm parser."+tok+" ("+strings.Join(diff, "; ")+"); S(a,b): a<b or its negation, f: float operands, M: function of package math"))
		} else {
			obs = append(obs, core.Ob(rule, key, site, "makeAccumulatorFunc", core.Held, "same decision signature as the reference arm: "+wa.sig.String()))
		}
	}
	// the accumulators of aggregations without grouping labels (one value per step, computed from the
	// step's sample slice): the arms that are ports of the reference arm. max/min delegate to gonum and
	// avg divides a plain sum (the reference keeps an incremental mean): not compared.
	if vecFn := findRefBody(rp, "newVectorAccumulator"); vecFn != nil {
		for _, spelling := range []string{"sum", "count", "group"} {
			key := fmt.Sprintf("execution/aggregate vectorized accumulator %q decides like the reference arm", spelling)
			tok := ""
			for _, name := range vocab.aggregators {
				if vocab.tokenString[name] == spelling {
					tok = name
				}
			}
			ra := caseBodies(vecFn, func(e ast.Expr) bool {
				if se, ok := e.(*ast.SelectorExpr); ok && se.Sel.Name == tok {
					return true
				}
				bl, ok := e.(*ast.BasicLit)
				return ok && bl.Kind == token.STRING && bl.Value == `"`+spelling+`"`
			})
			rb := caseBodies(refFn, func(e ast.Expr) bool {
				se, ok := e.(*ast.SelectorExpr)
				return ok && se.Sel.Name == tok
			})
			if tok == "" || len(ra) == 0 || len(rb) == 0 {
				obs = append(obs, core.Ob(rule, key, "-", "", core.Lost, fmt.Sprintf("arm not found (repo %d statements, reference %d)", len(ra), len(rb))))
				continue
			}
			wa, wb := newRefWalker(rp), newRefWalker(ref)
			wa.module = p.ByPath
			for _, n := range ra {
				wa.walk(n)
			}
			for _, n := range rb {
				wb.walk(n)
			}
			// the arm of a constant (count adds 1 per sample in the reference, the port takes the length;
			// group is the constant 1 on both sides): constants are not compared, decisions are
			wa.sig.consts, wb.sig.consts = map[string]bool{}, map[string]bool{}
			diff := sigDiff(wa.sig, wb.sig, nil)
			if len(diff) > 0 {
				obs = append(obs, core.Ob(rule, key, p.Pos(ra[0].Pos()), "newVectorAccumulator", core.Violated,
					"the accumulator no longer makes the decisions of the reference arm parser."+tok+" ("+strings.Join(diff, "; ")+"): aggregations with and without grouping labels, and the reference, disagree"))
			} else {
				obs = append(obs, core.Ob(rule, key, p.Pos(ra[0].Pos()), "newVectorAccumulator", core.Held, "same decision signature as the reference arm: "+wa.sig.String()))
			}
		}
	}
	// topk / bottomk: the admission test of kAggregate.aggregate against the TOPK and the BOTTOMK arm (both
	// have the same shape; the repository shares one implementation with a comparator), and the heap order
	for _, pr := range []struct{ repoFn, what, tok, refFn string }{
		{"kAggregate.aggregate", "admission to the heap", "TOPK", ""},
		{"kAggregate.aggregate", "admission to the heap", "BOTTOMK", ""},
		{"samplesHeap.Less", "heap order", "", "vectorByValueHeap.Less"},
		{"samplesHeap.Less", "heap order", "", "vectorByReverseValueHeap.Less"},
	} {
		a := findRefBody(rp, pr.repoFn)
		var bs []ast.Node
		name := pr.refFn
		if pr.tok != "" {
			name = "arm parser." + pr.tok
			bs = caseBodies(refFn, func(e ast.Expr) bool { se, ok := e.(*ast.SelectorExpr); return ok && se.Sel.Name == pr.tok })
		} else if b := findRefBody(ref, pr.refFn); b != nil {
			bs = []ast.Node{b}
		}
		key := fmt.Sprintf("execution/aggregate.%s (%s) decides like the reference %s", pr.repoFn, pr.what, name)
		if a == nil || len(bs) == 0 {
			obs = append(obs, core.Ob(rule, key, "-", "", core.Lost, "function or arm not found"))
			continue
		}
		wa, wb := newRefWalker(rp), newRefWalker(ref)
		wa.module = p.ByPath
		wa.walk(a)
		for _, n := range bs {
			wb.walk(n)
		}
		// k and the heap length are int in the port and int64 in the reference: only the float decisions are compared
		for _, sg := range []*refSig{wa.sig, wb.sig} {
			for k := range sg.elems {
				if strings.HasPrefix(k, "i") {
					delete(sg.elems, k)
				}
			}
		}
		if diff := sigDiff(wa.sig, wb.sig, nil); len(diff) > 0 {
			obs = append(obs, core.Ob(rule, key, p.Pos(a.Pos()), pr.repoFn, core.Violated, "no longer makes the decisions of the reference ("+strings.Join(diff, "; ")+"); a call of the comparator counts as one comparison fS(v,v)"))
		} else {
			obs = append(obs, core.Ob(rule, key, p.Pos(a.Pos()), pr.repoFn, core.Held, "same decision signature as the reference: "+wa.sig.String()))
		}
	}
	return obs
}

// sigDiff lists the differences between the port's and the reference's signature; allow is the expected
// (port - reference) delta.
func sigDiff(port, ref *refSig, allow map[string]int) []string {
	var diff []string
	for k, n := range ref.elems {
		if m := port.elems[k]; m != n+allow[k] {
			diff = append(diff, fmt.Sprintf("%s: reference %d, port %d", k, n, m))
		}
	}
	for k, m := range port.elems {
		if _, ok := ref.elems[k]; !ok && m != allow[k] {
			diff = append(diff, fmt.Sprintf("%s: reference 0, port %d", k, m))
		}
	}
	for k := range ref.consts {
		if !port.consts[k] {
			diff = append(diff, "constant "+k+" of the reference is missing")
		}
	}
	for k := range port.consts {
		if !ref.consts[k] {
			diff = append(diff, "constant "+k+" does not occur in the reference")
		}
	}
	sort.Strings(diff)
	return diff
}

func init() {
	mutant(Mutant{Rule: "R-REFPORT-AGG", Name: "grouped-max-propagates-nan", File: "execution/aggregate/scalar_table.go",
		Old: "\t\t\t\t\tif !hasValue || value < v || math.IsNaN(value) {\n\t\t\t\t\t\tvalue = v\n\t\t\t\t\t}", New: "\t\t\t\t\tif !hasValue {\n\t\t\t\t\t\tvalue = v\n\t\t\t\t\t} else {\n\t\t\t\t\t\tvalue = math.Max(value, v)\n\t\t\t\t\t}", Expect: "\"max\""})
	mutant(Mutant{Rule: "R-REFPORT-AGG", Name: "grouped-min-plain-comparison", File: "execution/aggregate/scalar_table.go",
		Old: "if !hasValue || value > v || math.IsNaN(value) {", New: "if !hasValue || v < value {", Expect: "\"min\""})
}

func init() {
	mutant(Mutant{Rule: "R-REFPORT-AGG", Name: "topk-admission-without-nan-test", File: "execution/aggregate/khashaggregate.go",
		Old: "if h.Len() < k || h.compare(h.entries[0].total, samples[i]) || math.IsNaN(h.entries[0].total) {", New: "if h.Len() < k || h.compare(h.entries[0].total, samples[i]) {", Expect: "admission"})
}

// ---- label operations of the binary operator ---------------------------------------------------

func init() {
	register(&Rule{ID: "R-REFLABELS", Min: 1, Run: ruleRefLabels,
		Doc: "the result label set of a vector-to-vector binary operation is derived with the label operations of the reference's resultMetric (read from the pinned module): execution/binary.signature and buildOutputSeries together perform the same number of Builder.Del, Builder.Keep and Builder.Set operations and of Labels.Get look-ups, and the same comparisons of a label value with a constant (the empty value that removes an included label)"})

	mutant(Mutant{Rule: "R-REFLABELS", Name: "included-label-with-empty-value-kept", File: "execution/binary/vector.go",
		Old: "\t\t\tif v := lowCardSeries.Metric.Get(name); v != \"\" {\n\t\t\t\tlb.Set(name, v)\n\t\t\t} else {\n\t\t\t\tlb.Del(name)\n\t\t\t}", New: "\t\t\tif v := lowCardSeries.Metric.Get(name); v != \"\" {\n\t\t\t\tlb.Set(name, v)\n\t\t\t}", Expect: "resultMetric"})
	mutant(Mutant{Rule: "R-REFLABELS", Name: "name-dropped-twice-on-filter", File: "execution/binary/vector.go",
		Old: "\tif !keepOriginalLabels {\n\t\tlb.Keep(grouping...)\n\t}", New: "\tif !keepOriginalLabels {\n\t\tlb.Keep(grouping...)\n\t\tlb.Del(labels.MetricName)\n\t}", Expect: "resultMetric"})
}

func labelOpSig(pk *packages.Package, nodes []ast.Node) map[string]int {
	out := map[string]int{}
	info := pk.TypesInfo
	// helpers of the same package are followed (once each)
	decls := newRefWalker(pk).decls
	seen := map[*types.Func]bool{}
	var queue []ast.Node
	queue = append(queue, nodes...)
	nodes = nil
	for len(queue) > 0 {
		n := queue[0]
		queue = queue[1:]
		nodes = append(nodes, n)
		ast.Inspect(n, func(x ast.Node) bool {
			call, ok := x.(*ast.CallExpr)
			if !ok {
				return true
			}
			var obj types.Object
			switch f := call.Fun.(type) {
			case *ast.Ident:
				obj = info.Uses[f]
			case *ast.SelectorExpr:
				obj = info.Uses[f.Sel]
			}
			if fo, ok := obj.(*types.Func); ok && fo.Pkg() == pk.Types && !seen[fo] {
				if fd := decls[fo]; fd != nil && fd.Body != nil {
					seen[fo] = true
					queue = append(queue, fd.Body)
				}
			}
			return true
		})
	}
	isStr := func(e ast.Expr) bool {
		b, ok := info.TypeOf(e).Underlying().(*types.Basic)
		return ok && b.Info()&types.IsString != 0
	}
	for _, n := range nodes {
		ast.Inspect(n, func(x ast.Node) bool {
			switch y := x.(type) {
			case *ast.CallExpr:
				se, ok := y.Fun.(*ast.SelectorExpr)
				if !ok {
					return true
				}
				fo, ok := info.Uses[se.Sel].(*types.Func)
				if !ok || fo.Pkg() == nil || fo.Pkg().Path() != pkgLabels {
					return true
				}
				sg, _ := fo.Type().(*types.Signature)
				if sg == nil || sg.Recv() == nil {
					return true
				}
				recv := core.NamedOf(sg.Recv().Type())
				if recv == nil {
					return true
				}
				switch recv.Obj().Name() + "." + fo.Name() {
				case "Builder.Del", "Builder.Keep", "Builder.Set", "Labels.Get":
					out[recv.Obj().Name()+"."+fo.Name()]++
				}
			case *ast.BinaryExpr:
				if (y.Op == token.EQL || y.Op == token.NEQ) && info.TypeOf(y.X) != nil && isStr(y.X) {
					for _, e := range []ast.Expr{y.X, y.Y} {
						if tv, ok := info.Types[e]; ok && tv.Value != nil {
							out["value compared with "+tv.Value.ExactString()]++
						}
					}
				}
			}
			return true
		})
	}
	return out
}

func ruleRefLabels(p *core.Program) []core.Obligation {
	const rule = "R-REFLABELS"
	key := "execution/binary.signature + buildOutputSeries derive labels like promql.resultMetric"
	ref := p.Deps[pkgPromqlRef]
	rp := p.ByPath[core.Module+"/execution/binary"]
	if ref == nil || rp == nil {
		return []core.Obligation{core.Ob(rule, key, "-", "", core.Lost, "packages not loaded")}
	}
	a1, a2, b := findRefBody(rp, "signature"), findRefBody(rp, "buildOutputSeries"), findRefBody(ref, "resultMetric")
	if a1 == nil || a2 == nil || b == nil {
		return []core.Obligation{core.Ob(rule, key, "-", "", core.Lost, "signature / buildOutputSeries / resultMetric not found")}
	}
	sa, sb := labelOpSig(rp, []ast.Node{a1, a2}), labelOpSig(ref, []ast.Node{b})
	var diff []string
	for k, n := range sb {
		if sa[k] != n {
			diff = append(diff, fmt.Sprintf("%s: reference %d, port %d", k, n, sa[k]))
		}
	}
	for k, n := range sa {
		if _, ok := sb[k]; !ok {
			diff = append(diff, fmt.Sprintf("%s: reference 0, port %d", k, n))
		}
	}
	sort.Strings(diff)
	if len(diff) > 0 {
		return []core.Obligation{core.Ob(rule, key, p.Pos(a2.Pos()), "buildOutputSeries", core.Violated, "the label operations differ from the reference's ("+strings.Join(diff, "; ")+")")}
	}
	var ks []string
	for k, n := range sa {
		ks = append(ks, fmt.Sprintf("%s x%d", k, n))
	}
	sort.Strings(ks)
	return []core.Obligation{core.Ob(rule, key, p.Pos(a2.Pos()), "buildOutputSeries", core.Held, "same label operations: "+strings.Join(ks, "; "))}
}

func init() {
	mutant(Mutant{Rule: "R-REFPORT-AGG", Name: "int64-bound-rounded-up", File: "execution/aggregate/khashaggregate.go",
		Old: "\treturn v <= maxInt64 && v >= minInt64\n", New: "\treturn v <= math.MaxInt64 && v >= math.MinInt64\n", Expect: "convertibleToInt64"})
}

func init() {
	mutant(Mutant{Rule: "R-REFPORT-HINTS", Name: "hinted-end-aligned-to-step-grid", File: "execution/execution.go",
		Old: "\toffset := n.OriginalOffset.Milliseconds()\n\treturn start - offset, end - offset\n", New: "\toffset := n.OriginalOffset.Milliseconds()\n\tif step := opts.Step.Milliseconds(); step > 0 && n.Timestamp == nil {\n\t\tend -= end % step\n\t}\n\treturn start - offset, end - offset\n", Expect: "getTimeRangesForVectorSelector"})
}

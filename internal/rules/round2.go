package rules

import (
	"fmt"
	"go/token"
	"go/types"
	"sort"
	"strings"

	"golang.org/x/tools/go/ssa"

	"verif/internal/core"
)

// Rules added after the second round of independently seeded defects (see DESIGN.md, "Validation").

func init() {
	register(&Rule{ID: "R-SHORTCUT", Min: 2, Run: ruleShortcut,
		Doc: "in the functions that derive group keys and output label sets with a labels.Builder, an early return guarded only by the length of the label list never precedes a builder transformation that is guarded by one of the function's flags (without / keep...): Keep() and Del() with no names are not no-ops, so the empty-list shortcut is only valid after the flag-dependent label handling"})
	register(&Rule{ID: "R-PULLALL", Min: 4, Run: rulePullAll,
		Doc: "an operator that returns a batch has pulled every operand it pulls at all: every return of a non-nil batch is dominated by each child Next() call site of the method (or by the loop/branch decision that controls that call site): operands stay aligned step by step"})
	register(&Rule{ID: "R-NODECOPY", Min: 1, Run: ruleNodeCopy,
		Doc: "when the logical plan rebuilds a parser node from an existing node of the same type (two or more fields copied over), it copies every semantic field of that node type (all fields but PosRange and the reference engine's caches): a forgotten field (Without, Timestamp, StartOrEnd ...) silently changes the query"})
	register(&Rule{ID: "R-EXPRORIGIN", Min: 2, Run: ruleExprOrigin,
		Doc: "the expression kept in the query object, from which Exec derives the result type, is the parsed user expression (result of parser.ParseExpr), never the optimised plan, whose root may be a Coalesce/RemoteExecution of type matrix"})
	register(&Rule{ID: "R-ACCNONEMPTY", Min: 1, Run: ruleAccNonEmpty,
		Doc: "every call of a vectorised accumulator (gonum floats.Max/Min panic on an empty slice) is dominated by the non-empty branch of a length test of the step vector it is applied to"})
	register(&Rule{ID: "R-ERRSEND", Min: 1, Run: ruleErrSend,
		Doc: "no value that can carry an error is sent with a non-blocking send (select with default): when the channel is full the error would be dropped and the closed channel would read as a cleanly exhausted stream"})
	register(&Rule{ID: "R-WORKERCLOSE", Min: 1, Run: ruleWorkerClose,
		Doc: "every exit of a worker goroutine that is taken because the context is done closes the worker's output channel first: a consumer parked in GetOutput is released"})

	mutant(Mutant{Rule: "R-SHORTCUT", Name: "empty-without-collapses", File: "execution/aggregate/scalar_table.go",
		Old: "\tbuf = buf[:0]\n\tif without {\n\t\tlb := labels.NewBuilder(metric)\n", New: "\tbuf = buf[:0]\n\tif len(grouping) == 0 {\n\t\treturn 0, \"\", labels.Labels{}\n\t}\n\tif without {\n\t\tlb := labels.NewBuilder(metric)\n", Expect: "hashMetric"})
	mutant(Mutant{Rule: "R-SHORTCUT", Name: "empty-on-keeps-labels", File: "execution/binary/vector.go",
		Old: "\tif !keepOriginalLabels {\n\t\tlb.Keep(grouping...)\n\t}\n\tif len(grouping) == 0 {\n\t\treturn 0, lb.Labels(nil)\n\t}\n", New: "\tif len(grouping) == 0 {\n\t\treturn 0, lb.Labels(nil)\n\t}\n\tif !keepOriginalLabels {\n\t\tlb.Keep(grouping...)\n\t}\n", Expect: "signature"})
	mutant(Mutant{Rule: "R-PULLALL", Name: "empty-batch-fast-path", File: "execution/function/operator.go",
		Old: "\tif len(vectors) == 0 {\n\t\treturn nil, nil\n\t}\n\n\tscalarIndex := 0", New: "\tif len(vectors) == 0 {\n\t\treturn nil, nil\n\t}\n\tif len(vectors[0].Samples) == 0 && len(vectors) == 1 {\n\t\treturn vectors, nil\n\t}\n\n\tscalarIndex := 0", Expect: "functionOperator"})
	mutant(Mutant{Rule: "R-NODECOPY", Name: "without-not-copied", File: "logicalplan/distribute.go",
		Old: "\t\t\t\tWithout:  aggr.Without,\n", New: "", Expect: "AggregateExpr"})
	mutant(Mutant{Rule: "R-NODECOPY", Name: "engine-options-rebuilt-without-a-field", File: "engine/engine.go",
		Old: "\treturn &distributedEngine{\n\t\tendpoints:   endpoints,\n\t\tlocalEngine: New(opts),\n\t}", New: "\tfresh := Opts{EngineOpts: opts.EngineOpts, LogicalOptimizers: opts.LogicalOptimizers, DebugWriter: opts.DebugWriter}\n\treturn &distributedEngine{\n\t\tendpoints:   endpoints,\n\t\tlocalEngine: New(fresh),\n\t}", Expect: "Opts"})
	mutant(Mutant{Rule: "R-EXPRORIGIN", Name: "optimised-root-kept", File: "engine/engine.go",
		Old: "\texec, err := execution.New(lplan.Expr(), q, ts, ts, 0, e.getLookbackDelta(opts))", New: "\texpr = lplan.Expr()\n\texec, err := execution.New(expr, q, ts, ts, 0, e.getLookbackDelta(opts))", Expect: "NewInstantQuery"})
	mutant(Mutant{Rule: "R-ACCNONEMPTY", Name: "empty-step-guard-lost", File: "execution/aggregate/vector_table.go",
		Old: "\tif len(vector.SampleIDs) == 0 {\n\t\tt.hasValue = false\n\t\treturn\n\t}\n\tt.hasValue = true\n", New: "\tt.hasValue = len(vector.SampleIDs) > 0\n", Expect: "vectorTable"})
	mutant(Mutant{Rule: "R-ERRSEND", Name: "error-sent-non-blocking", File: "execution/exchange/concurrent.go",
		Old: "\t\t\tif err != nil {\n\t\t\t\tc.buffer <- maybeStepVector{err: err}\n\t\t\t\treturn\n\t\t\t}", New: "\t\t\tif err != nil {\n\t\t\t\tselect {\n\t\t\t\tcase c.buffer <- maybeStepVector{err: err}:\n\t\t\t\tdefault:\n\t\t\t\t}\n\t\t\t\treturn\n\t\t\t}", Expect: "pull"})
	mutant(Mutant{Rule: "R-WORKERCLOSE", Name: "cancel-aware-delivery-without-close", File: "worker/worker.go",
		Old: "\t\t\tw.output <- w.doWork(w.workerID, task.arg, task.in)\n", New: "\t\t\tselect {\n\t\t\tcase w.output <- w.doWork(w.workerID, task.arg, task.in):\n\t\t\tcase <-w.ctx.Done():\n\t\t\t\treturn\n\t\t\t}\n", Expect: "ctx.Done exit"})
}

// ---------------------------------------------------------------------------------------------

func isBuilderMutation(c *ssa.CallCommon) bool {
	n := core.CalleeName(c)
	return n == "(*"+pkgLabels+".Builder).Del" || n == "(*"+pkgLabels+".Builder).Keep" || n == "(*"+pkgLabels+".Builder).Set"
}

// dependsOnBoolParam reports whether cond's slice contains a bool parameter of fn.
func dependsOnBoolParam(fn *ssa.Function, cond ssa.Value) bool {
	hit := false
	core.BackSlice(cond, func(x ssa.Value) bool {
		if pr, ok := x.(*ssa.Parameter); ok && pr.Parent() == fn {
			if b, ok := pr.Type().Underlying().(*types.Basic); ok && b.Kind() == types.Bool {
				hit = true
			}
		}
		return !hit
	})
	return hit
}

func ruleShortcut(p *core.Program) []core.Obligation {
	const rule = "R-SHORTCUT"
	var obs []core.Obligation
	for _, fn := range p.Funcs {
		rel := core.Rel(fn.Pkg.Pkg.Path())
		if rel != "execution/aggregate" && rel != "execution/binary" {
			continue
		}
		// flag-guarded builder mutations
		type mut struct {
			ins ssa.Instruction
		}
		var flagged []ssa.Instruction
		hasBuilder := false
		core.EachInstr(fn, func(b *ssa.BasicBlock, i int, ins ssa.Instruction) {
			c, ok := ins.(*ssa.Call)
			if !ok || !isBuilderMutation(&c.Call) {
				return
			}
			hasBuilder = true
			for _, cond := range controllingConds(ins) {
				if dependsOnBoolParam(fn, cond) {
					flagged = append(flagged, ins)
					return
				}
			}
		})
		if !hasBuilder {
			continue
		}
		k := 0
		core.EachInstr(fn, func(b *ssa.BasicBlock, i int, ins ssa.Instruction) {
			ret, ok := ins.(*ssa.Return)
			if !ok || b == fn.Recover {
				return
			}
			// the nearest controlling If of this return
			if len(b.Preds) != 1 {
				return
			}
			g := b.Preds[0]
			iff := core.IfOf(g)
			if iff == nil {
				return
			}
			k++
			key := fmt.Sprintf("%s early return #%d", core.FuncName(fn), k)
			// the flags the return itself is conditioned on (directly or through enclosing branches)
			retFlags := boolParamsOf(fn, iff.Cond)
			for _, c := range controllingConds(ret) {
				for pr := range boolParamsOf(fn, c) {
					retFlags[pr] = true
				}
			}
			// the other successor of the guard: can it reach a flag-guarded mutation that this return has not passed?
			var other *ssa.BasicBlock
			for _, s := range g.Succs {
				if s != b {
					other = s
				}
			}
			bad := ""
			for _, m := range flagged {
				if other == nil || !(other == m.Block() || core.Reaches(other, m.Block())) || core.BlockDominates(m.Block(), b) {
					continue
				}
				// every flag that decides about m must either have been decided before the guard or be part of the return's own condition
				for _, fb := range fn.Blocks {
					fi := core.IfOf(fb)
					if fi == nil {
						continue
					}
					fparams := boolParamsOf(fn, fi.Cond)
					if len(fparams) == 0 || !(core.BranchDominates(fb, 0, m.Block()) || core.BranchDominates(fb, 1, m.Block())) {
						continue
					}
					if fb.Dominates(g) {
						continue
					}
					for pr := range fparams {
						if !retFlags[pr] {
							bad = p.Pos(m.Pos())
						}
					}
				}
			}
			if bad != "" {
				obs = append(obs, core.Ob(rule, key, p.Pos(ret.Pos()), core.FuncName(fn), core.Violated, "a shortcut return guarded only by the length of the label list comes before the flag-dependent label transformation at "+bad+": for an empty list that transformation is not a no-op (Keep() removes every label, 'without ()' keeps every label), so the shortcut returns the wrong label set / group key"))
			} else {
				obs = append(obs, core.Ob(rule, key, p.Pos(ret.Pos()), core.FuncName(fn), core.Held, "no flag-guarded label transformation is skipped"))
			}
		})
	}
	return obs
}

// ---------------------------------------------------------------------------------------------

func rulePullAll(p *core.Program) []core.Obligation {
	const rule = "R-PULLALL"
	var obs []core.Obligation
	isChildNext := func(fn *ssa.Function, ins ssa.Instruction) bool {
		cc := core.CallCommon(ins)
		if cc == nil || !cc.IsInvoke() || !isVectorOperatorIface(cc.Value.Type()) || cc.Method.Name() != "Next" {
			return false
		}
		return rootedAtReceiver(fn, cc.Value)
	}
	// pullers: methods that contain a child pull (directly)
	pullsDirect := func(f *ssa.Function) bool {
		hit := false
		core.EachInstr(f, func(b *ssa.BasicBlock, i int, ins ssa.Instruction) {
			if isChildNext(f, ins) {
				hit = true
			}
		})
		if hit {
			return true
		}
		for _, a := range f.AnonFuncs { // once-guarded pulls
			core.EachInstr(a, func(b *ssa.BasicBlock, i int, ins ssa.Instruction) {
				cc := core.CallCommon(ins)
				if cc != nil && cc.IsInvoke() && isVectorOperatorIface(cc.Value.Type()) && cc.Method.Name() == "Next" {
					hit = true
				}
			})
		}
		return hit
	}
	for _, fn := range p.Funcs {
		recv := recvNamed(fn)
		if recv == nil || fn.Name() != "Next" || !strings.HasPrefix(core.Rel(fn.Pkg.Pkg.Path()), "execution") {
			continue
		}
		var pulls []ssa.Instruction
		core.EachInstr(fn, func(b *ssa.BasicBlock, i int, ins ssa.Instruction) {
			if isChildNext(fn, ins) {
				pulls = append(pulls, ins)
				return
			}
			if c, ok := ins.(*ssa.Call); ok {
				if callee := c.Call.StaticCallee(); callee != nil && p.InRepo(callee) && recvNamed(callee) == recv && pullsDirect(callee) {
					pulls = append(pulls, ins)
				}
			}
		})
		if len(pulls) == 0 {
			continue
		}
		// batch returns that are not tail calls of a child
		isBatchReturn := func(ret *ssa.Return) bool {
			rs := core.RetResults(ret)
			if len(rs) != 2 || core.IsNilConst(rs[0]) {
				return false
			}
			if ex, ok := rs[0].(*ssa.Extract); ok {
				if ex2, ok := rs[1].(*ssa.Extract); ok && ex2.Tuple == ex.Tuple {
					return false
				}
			}
			return core.IsNilConst(rs[1])
		}
		// aligned pulls: those from which a batch return can be reached
		aligned := map[ssa.Instruction]bool{}
		for _, pl := range pulls {
			core.EachInstr(fn, func(b *ssa.BasicBlock, i int, ins ssa.Instruction) {
				if ret, ok := ins.(*ssa.Return); ok && b != fn.Recover && isBatchReturn(ret) {
					if b == pl.Block() || core.Reaches(pl.Block(), b) {
						aligned[pl] = true
					}
				}
			})
		}
		k := 0
		core.EachInstr(fn, func(b *ssa.BasicBlock, i int, ins ssa.Instruction) {
			ret, ok := ins.(*ssa.Return)
			if !ok || b == fn.Recover {
				return
			}
			rs := core.RetResults(ret)
			if len(rs) != 2 || core.IsNilConst(rs[0]) {
				return // end of stream or error
			}
			// a tail call returning the child's own (batch, error) pair
			if ex, ok := rs[0].(*ssa.Extract); ok {
				if ex2, ok := rs[1].(*ssa.Extract); ok && ex2.Tuple == ex.Tuple {
					return
				}
			}
			if !core.IsNilConst(rs[1]) {
				return
			}
			k++
			key := fmt.Sprintf("%s.Next batch return #%d", recv.Obj().Name(), k)
			bad := ""
			for _, pl := range pulls {
				if core.BlockDominates(pl.Block(), b) {
					continue
				}
				if !aligned[pl] {
					continue // a pull whose own (batch, error) pair is returned directly: an alternative mode of the operator
				}
				// (a) the pull sits in a loop over the operands and the return comes after that loop
				ok := false
				for h, body := range core.LoopBodies(fn) {
					if body[pl.Block()] && core.BlockDominates(h, b) && !body[b] {
						ok = true
					}
				}
				// (b) the operand is optional: the pull is guarded by a nil test of a receiver field that also dominates the return
				for _, cb := range fn.Blocks {
					iff := core.IfOf(cb)
					if iff == nil || !core.BlockDominates(cb, b) || !(core.BranchDominates(cb, 0, pl.Block()) || core.BranchDominates(cb, 1, pl.Block())) {
						continue
					}
					if bo, isBin := iff.Cond.(*ssa.BinOp); isBin && (core.IsNilConst(bo.X) || core.IsNilConst(bo.Y)) {
						other := bo.X
						if core.IsNilConst(bo.X) {
							other = bo.Y
						}
						if rootedAtReceiver(fn, other) {
							ok = true
						}
					}
				}
				if !ok {
					bad = p.Pos(pl.Pos())
				}
			}
			if bad != "" {
				obs = append(obs, core.Ob(rule, key, p.Pos(ret.Pos()), core.FuncName(fn), core.Violated, "a batch is returned on a path that has not pulled the operand pulled at "+bad+": that operand falls one batch behind and every later step is paired with the wrong step of it"))
			} else {
				obs = append(obs, core.Ob(rule, key, p.Pos(ret.Pos()), core.FuncName(fn), core.Held, fmt.Sprintf("dominated by all %d operand pulls (or the decisions controlling them)", len(pulls))))
			}
		})
	}
	return obs
}

// ---------------------------------------------------------------------------------------------

var nodeCopyExempt = map[string]bool{"PosRange": true, "UnexpandedSeriesSet": true, "Series": true}

func ruleNodeCopy(p *core.Program) []core.Obligation {
	const rule = "R-NODECOPY"
	var obs []core.Obligation
	n := 0
	for _, fn := range p.Funcs {
		rel := core.Rel(fn.Pkg.Pkg.Path())
		if rel != "logicalplan" && rel != "engine" && rel != "query" && rel != "execution" {
			continue
		}
		core.EachInstr(fn, func(b *ssa.BasicBlock, i int, ins ssa.Instruction) {
			al, ok := ins.(*ssa.Alloc)
			if !ok {
				return
			}
			nt := core.NamedOf(al.Type())
			if nt == nil || nt.Obj().Pkg() == nil {
				return
			}
			// parser nodes rebuilt by the logical plan, and the option structs of the engine
			if pp := nt.Obj().Pkg().Path(); !(pp == pkgParser || (strings.HasPrefix(pp, core.Module) && strings.HasSuffix(nt.Obj().Name(), "pts")) || (pp == modQuery && nt.Obj().Name() == "Options")) {
				return
			}
			st, ok := nt.Underlying().(*types.Struct)
			if !ok {
				return
			}
			// fields stored, and how many are copies of the same field of another node of this type
			stored := map[string]bool{}
			copied := 0
			for _, r := range core.Referrers(al) {
				fa, ok := r.(*ssa.FieldAddr)
				if !ok {
					continue
				}
				_, fname, _, _ := core.FieldRef(fa)
				for _, rr := range core.Referrers(fa) {
					s, ok := rr.(*ssa.Store)
					if !ok || s.Addr != ssa.Value(fa) {
						continue
					}
					stored[fname] = true
					for v := range core.PhiClosure(s.Val) {
						if l := core.Deref(v); l != nil {
							if n2, f2, _, ok := core.FieldRef(l); ok && n2 == nt && f2 == fname {
								copied++
							}
						}
					}
				}
			}
			if copied < 2 {
				return
			}
			n++
			var missing []string
			for i := 0; i < st.NumFields(); i++ {
				f := st.Field(i).Name()
				if !stored[f] && !nodeCopyExempt[f] {
					missing = append(missing, f)
				}
			}
			sort.Strings(missing)
			key := fmt.Sprintf("%s rebuilds a %s", core.FuncName(fn), nt.Obj().Name())
			if len(missing) > 0 {
				obs = append(obs, core.Ob(rule, key, p.Pos(al.Pos()), core.FuncName(fn), core.Violated, fmt.Sprintf("the rebuilt node copies %d fields of the original but not %v: the rewritten query differs from the one the user wrote", copied, missing)))
			} else {
				obs = append(obs, core.Ob(rule, key, p.Pos(al.Pos()), core.FuncName(fn), core.Held, fmt.Sprintf("all semantic fields set (%d copied)", copied)))
			}
		})
	}
	if n == 0 {
		obs = append(obs, core.Ob(rule, "no parser node is rebuilt from another", "-", "", core.Held, ""))
	}
	return obs
}

func ruleExprOrigin(p *core.Program) []core.Obligation {
	const rule = "R-EXPRORIGIN"
	var obs []core.Obligation
	for _, entry := range []string{"NewInstantQuery", "NewRangeQuery"} {
		fn := p.Func("engine", "compatibilityEngine."+entry)
		key := "engine." + entry + " keeps the parsed expression in the query"
		if fn == nil {
			obs = append(obs, core.Ob(rule, key, "-", "", core.Lost, "not found"))
			continue
		}
		found := false
		core.EachInstr(fn, func(b *ssa.BasicBlock, i int, ins ssa.Instruction) {
			st, ok := ins.(*ssa.Store)
			if !ok || !core.IsFieldOf(st.Addr, modEngine, "compatibilityQuery", "expr") {
				return
			}
			found = true
			okAll := true
			for v := range core.PhiClosure(st.Val) {
				ex, ok := v.(*ssa.Extract)
				if !ok {
					okAll = false
					continue
				}
				c, ok := ex.Tuple.(*ssa.Call)
				if !ok || !core.IsStatic(&c.Call, pkgParser+".ParseExpr") {
					okAll = false
				}
			}
			if okAll {
				obs = append(obs, core.Ob(rule, key, p.Pos(st.Pos()), core.FuncName(fn), core.Held, "q.expr is the result of parser.ParseExpr"))
			} else {
				obs = append(obs, core.Ob(rule, key, p.Pos(st.Pos()), core.FuncName(fn), core.Violated, "q.expr is not (only) the parsed expression: Exec takes the result type from it, and the root of an optimised/distributed plan is a Coalesce of type matrix, so an instant vector query returns a matrix"))
			}
		})
		if !found {
			obs = append(obs, core.Ob(rule, key, p.Pos(fn.Pos()), core.FuncName(fn), core.Lost, "no store to compatibilityQuery.expr"))
		}
	}
	return obs
}

func ruleAccNonEmpty(p *core.Program) []core.Obligation {
	const rule = "R-ACCNONEMPTY"
	var obs []core.Obligation
	for _, fn := range p.Funcs {
		if core.Rel(fn.Pkg.Pkg.Path()) != "execution/aggregate" {
			continue
		}
		core.EachInstr(fn, func(b *ssa.BasicBlock, i int, ins ssa.Instruction) {
			c, ok := ins.(*ssa.Call)
			if !ok || c.Call.IsInvoke() || c.Call.StaticCallee() != nil {
				return
			}
			if !core.TypeIs(c.Call.Value.Type(), core.Module+"/execution/aggregate", "vectorAccumulator") {
				return
			}
			key := core.FuncName(fn) + " applies a vectorised accumulator"
			// the argument is vector.Samples; a length test of a slice of the same vector must put us on its non-empty branch
			arg := c.Call.Args[0]
			var base ssa.Value
			if _, _, bs, ok := core.FieldRef(arg); ok {
				base = bs
			} else if l := core.Deref(arg); l != nil {
				if _, _, bs, ok := core.FieldRef(l); ok {
					base = bs
				}
			}
			guarded := false
			for _, gb := range fn.Blocks {
				iff := core.IfOf(gb)
				if iff == nil {
					continue
				}
				cond, negated := core.StripNot(iff.Cond)
				// the outcome of the length test kept in a field or local first (t.hasValue = len(..) != 0; if t.hasValue)
				if ld, isLoad := cond.(*ssa.UnOp); isLoad && ld.Op == token.MUL {
					var last *ssa.Store
					core.EachInstr(fn, func(_ *ssa.BasicBlock, _ int, x ssa.Instruction) {
						st, ok := x.(*ssa.Store)
						if !ok || !(st.Addr == ld.X || core.SameExpr(st.Addr, ld.X)) || !core.InstrDominates(st, ld) {
							return
						}
						if last == nil || core.InstrDominates(last, st) {
							last = st
						}
					})
					if last != nil {
						cond = last.Val
						if c2, n2 := core.StripNot(cond); n2 {
							cond, negated = c2, !negated
						}
					}
				}
				bo, ok := cond.(*ssa.BinOp)
				if !ok {
					continue
				}
				lc, ok := bo.X.(*ssa.Call)
				if !ok {
					continue
				}
				bi, ok := lc.Call.Value.(*ssa.Builtin)
				if !ok || bi.Name() != "len" {
					continue
				}
				// len(vector.X) with the same vector
				var lbase ssa.Value
				if _, _, bs, ok := core.FieldRef(lc.Call.Args[0]); ok {
					lbase = bs
				} else if l := core.Deref(lc.Call.Args[0]); l != nil {
					if _, _, bs, ok := core.FieldRef(l); ok {
						lbase = bs
					}
				}
				if base == nil || lbase == nil || !(lbase == base || core.SameExpr(lbase, base)) {
					continue
				}
				cst, ok := core.ConstInt(bo.Y)
				if !ok || cst != 0 {
					continue
				}
				succ := -1
				switch bo.Op {
				case token.EQL:
					succ = 1
				case token.NEQ, token.GTR:
					succ = 0
				}
				if succ >= 0 && negated {
					succ = 1 - succ
				}
				if succ >= 0 && core.BranchDominates(gb, succ, b) {
					guarded = true
				}
			}
			if guarded {
				obs = append(obs, core.Ob(rule, key, p.Pos(c.Pos()), core.FuncName(fn), core.Held, "only on the non-empty branch of a length test of the step vector"))
			} else {
				obs = append(obs, core.Ob(rule, key, p.Pos(c.Pos()), core.FuncName(fn), core.Violated, "the accumulator is applied to a step vector that may be empty: floats.Max/Min panic on a zero-length slice, on a worker goroutine that has no recover"))
			}
		})
	}
	return obs
}

func ruleErrSend(p *core.Program) []core.Obligation {
	const rule = "R-ERRSEND"
	var obs []core.Obligation
	errT := types.Universe.Lookup("error").Type()
	carriesErr := func(t types.Type) bool {
		if types.Identical(t, errT) {
			return true
		}
		if st, ok := t.Underlying().(*types.Struct); ok {
			for i := 0; i < st.NumFields(); i++ {
				if types.Identical(st.Field(i).Type(), errT) {
					return true
				}
			}
		}
		return false
	}
	n := 0
	for _, fn := range p.Funcs {
		core.EachInstr(fn, func(b *ssa.BasicBlock, i int, ins ssa.Instruction) {
			sel, ok := ins.(*ssa.Select)
			if !ok {
				return
			}
			for _, st := range sel.States {
				if st.Dir != types.SendOnly || st.Send == nil || !carriesErr(st.Send.Type()) {
					continue
				}
				n++
				key := core.FuncName(fn) + " sends an error-carrying value in a select"
				if !sel.Blocking {
					obs = append(obs, core.Ob(rule, key, p.Pos(sel.Pos()), core.FuncName(fn), core.Violated, "non-blocking send (select with default) of a value that carries an error: with a full buffer the error is dropped and the stream ends as if it were exhausted"))
				} else {
					obs = append(obs, core.Ob(rule, key, p.Pos(sel.Pos()), core.FuncName(fn), core.Held, "blocking select"))
				}
			}
		})
	}
	obs = append(obs, core.Ob(rule, "error-carrying values are sent with blocking sends", "-", "", core.Held, fmt.Sprintf("%d sends inside select statements examined; plain sends block by construction", n)))
	return obs
}

func ruleWorkerClose(p *core.Program) []core.Obligation {
	const rule = "R-WORKERCLOSE"
	var obs []core.Obligation
	// the worker goroutine's code: the function started by the go statement of Group.Start and the
	// functions of package worker it calls (start, or start + a run loop it was split into)
	var fns []*ssa.Function
	seenFn := map[*ssa.Function]bool{}
	var add func(f *ssa.Function)
	add = func(f *ssa.Function) {
		if f == nil || f.Blocks == nil || seenFn[f] || f.Pkg == nil || core.Rel(f.Pkg.Pkg.Path()) != "worker" {
			return
		}
		seenFn[f] = true
		fns = append(fns, f)
		core.EachInstr(f, func(_ *ssa.BasicBlock, _ int, x ssa.Instruction) {
			if c, ok := x.(*ssa.Call); ok {
				add(c.Call.StaticCallee())
			}
		})
	}
	for _, f := range p.Funcs {
		if core.Rel(f.Pkg.Pkg.Path()) != "worker" {
			continue
		}
		core.EachInstr(f, func(_ *ssa.BasicBlock, _ int, x ssa.Instruction) {
			if g, ok := x.(*ssa.Go); ok {
				if mc, ok := g.Call.Value.(*ssa.MakeClosure); ok {
					if cf, ok := mc.Fn.(*ssa.Function); ok {
						add(cf)
					}
				} else {
					add(g.Call.StaticCallee())
				}
			}
		})
	}
	if len(fns) == 0 {
		return []core.Obligation{core.Ob(rule, "worker goroutine", "-", "", core.Lost, "no go statement in package worker")}
	}
	k := 0
	for _, fn := range fns {
		obs = append(obs, workerCloseIn(p, rule, fn, &k)...)
	}
	return obs
}

func workerCloseIn(p *core.Program, rule string, fn *ssa.Function, kp *int) []core.Obligation {
	var obs []core.Obligation
	// select states that receive from ctx.Done()
	k := *kp
	defer func() { *kp = k }()
	core.EachInstr(fn, func(b *ssa.BasicBlock, i int, ins ssa.Instruction) {
		sel, ok := ins.(*ssa.Select)
		if !ok {
			return
		}
		for si, st := range sel.States {
			if st.Dir != types.RecvOnly {
				continue
			}
			isDone := false
			if c, ok := st.Chan.(*ssa.Call); ok && c.Call.IsInvoke() && c.Call.Method.Name() == "Done" {
				isDone = true
			}
			if !isDone {
				continue
			}
			// the block taken for this state: If (extract #0 == si)
			var target *ssa.BasicBlock
			for _, r := range core.Referrers(sel) {
				ex, ok := r.(*ssa.Extract)
				if !ok || ex.Index != 0 {
					continue
				}
				for _, rr := range core.Referrers(ex) {
					bo, ok := rr.(*ssa.BinOp)
					if !ok || bo.Op != token.EQL {
						continue
					}
					if c, ok := core.ConstInt(bo.Y); ok && int(c) == si {
						for _, r3 := range core.Referrers(bo) {
							if iff, ok := r3.(*ssa.If); ok {
								target = iff.Block().Succs[0]
							}
						}
					}
				}
			}
			k++
			key := fmt.Sprintf("worker goroutine ctx.Done exit #%d closes the output", k)
			if target == nil {
				obs = append(obs, core.Ob(rule, key, p.Pos(sel.Pos()), core.FuncName(fn), core.Undecided, "select state not resolved"))
				continue
			}
			// every return reachable from target without leaving through the loop must be preceded by close(w.output) in the region dominated by target
			closes := false
			returns := false
			for _, tb := range fn.Blocks {
				if !core.BlockDominates(target, tb) {
					continue
				}
				for _, x := range tb.Instrs {
					if c, ok := x.(*ssa.Call); ok {
						if closesWorkerOutput(c) {
							closes = true
						}
						// or a helper method of the worker that does
						if callee := c.Call.StaticCallee(); callee != nil && p.InRepo(callee) && recvNamed(callee) == recvNamed(fn) {
							core.EachInstr(callee, func(b2 *ssa.BasicBlock, j int, y ssa.Instruction) {
								if c2, ok := y.(*ssa.Call); ok && closesWorkerOutput(c2) && allReturnsAfter(callee, c2) {
									closes = true
								}
							})
						}
					}
					if _, ok := x.(*ssa.Return); ok {
						returns = true
						if !closes {
							obs = append(obs, core.Ob(rule, key, p.Pos(x.Pos()), core.FuncName(fn), core.Violated, "the worker exits on ctx.Done without closing its output channel: an aggregation parked in GetOutput on this worker never returns, Exec hangs although its context is cancelled"))
							return
						}
					}
				}
			}
			if returns {
				obs = append(obs, core.Ob(rule, key, p.Pos(sel.Pos()), core.FuncName(fn), core.Held, "close(w.output) precedes the return"))
			}
		}
	})
	return obs
}

func closesWorkerOutput(c *ssa.Call) bool {
	bi, ok := c.Call.Value.(*ssa.Builtin)
	if !ok || bi.Name() != "close" {
		return false
	}
	l := core.Deref(c.Call.Args[0])
	return l != nil && core.IsFieldOf(l, modWorker, "Worker", "output")
}

// boolParamsOf returns the bool parameters of fn in the slice of cond.
func boolParamsOf(fn *ssa.Function, cond ssa.Value) map[*ssa.Parameter]bool {
	out := map[*ssa.Parameter]bool{}
	core.BackSlice(cond, func(x ssa.Value) bool {
		if pr, ok := x.(*ssa.Parameter); ok && pr.Parent() == fn {
			if b, ok := pr.Type().Underlying().(*types.Basic); ok && b.Kind() == types.Bool {
				out[pr] = true
			}
		}
		return true
	})
	return out
}

func init() {
	register(&Rule{ID: "R-ENDSTICKY", Min: 3, Run: ruleEndSticky,
		Doc: "every operator that owns a step cursor and a window end tests `cursor > maxt` and returns the end-of-stream (nil, nil) before it produces anything: the test dominates every batch return, so a stream that has ended stays ended however often Next is called"})
	mutant(Mutant{Rule: "R-ENDSTICKY", Name: "literal-restarts-after-end", File: "execution/scan/literal_selector.go",
		Old: "\tif o.currentStep > o.maxt {\n\t\treturn nil, nil\n\t}\n", New: "", Expect: "numberLiteralSelector"})
}

func ruleEndSticky(p *core.Program) []core.Obligation {
	const rule = "R-ENDSTICKY"
	var obs []core.Obligation
	for _, fn := range p.Funcs {
		recv := recvNamed(fn)
		if recv == nil || fn.Name() != "Next" || fn.Parent() != nil {
			continue
		}
		st, _ := recv.Underlying().(*types.Struct)
		has := map[string]bool{}
		for i := 0; st != nil && i < st.NumFields(); i++ {
			has[st.Field(i).Name()] = true
		}
		if !has["maxt"] || !has["currentStep"] {
			continue
		}
		key := recv.Obj().Name() + ".Next tests the end of the window first"
		// the end test: If (load currentStep > load maxt) whose true branch returns (nil, nil)
		var test *ssa.BasicBlock
		for _, b := range fn.Blocks {
			iff := core.IfOf(b)
			if iff == nil {
				continue
			}
			bo, ok := iff.Cond.(*ssa.BinOp)
			if !ok || bo.Op != token.GTR {
				continue
			}
			lx, ly := core.Deref(bo.X), core.Deref(bo.Y)
			if lx == nil || ly == nil {
				continue
			}
			_, fx, _, ok1 := core.FieldRef(lx)
			_, fy, _, ok2 := core.FieldRef(ly)
			if !ok1 || !ok2 || fx != "currentStep" || fy != "maxt" {
				continue
			}
			endReturn := false
			for _, x := range b.Succs[0].Instrs {
				if ret, ok := x.(*ssa.Return); ok {
					rs := core.RetResults(ret)
					if len(rs) == 2 && core.IsNilConst(rs[0]) && core.IsNilConst(rs[1]) {
						endReturn = true
					}
				}
			}
			if endReturn && (test == nil || b.Dominates(test)) {
				test = b
			}
		}
		if test == nil {
			obs = append(obs, core.Ob(rule, key, p.Pos(fn.Pos()), core.FuncName(fn), core.Violated, "Next has no `currentStep > maxt => return nil, nil` test: after the window is exhausted a further call produces step vectors again (past the end, or from a restarted child)"))
			continue
		}
		bad := ""
		core.EachInstr(fn, func(b *ssa.BasicBlock, i int, ins ssa.Instruction) {
			ret, ok := ins.(*ssa.Return)
			if !ok || b == fn.Recover {
				return
			}
			rs := core.RetResults(ret)
			if len(rs) == 2 && !core.IsNilConst(rs[0]) && !core.BranchDominates(test, 1, b) {
				bad = p.Pos(ret.Pos())
			}
		})
		if bad != "" {
			obs = append(obs, core.Ob(rule, key, p.Pos(fn.Pos()), core.FuncName(fn), core.Violated, "the batch returned at "+bad+" is not behind the end-of-window test"))
		} else {
			obs = append(obs, core.Ob(rule, key, p.Pos(fn.Pos()), core.FuncName(fn), core.Held, "the end test dominates every batch return"))
		}
	}
	return obs
}

package core

import (
	"fmt"
	"os"
	"path/filepath"
	"strings"
)

// ApplyUnifiedDiff applies a `git diff` style patch to the files under dir *in memory* and returns
// the new contents keyed by absolute file name (for a go/packages overlay). Nothing is written. A patch
// may add a file to an existing package; it may not delete one.
// Hunks are located by their context/removed lines (searched near the recorded position), so a patch
// keeps applying while unrelated parts of the file change. An error means the patch no longer fits.
func ApplyUnifiedDiff(dir, diff string) (map[string][]byte, error) {
	out := map[string][]byte{}
	lines := strings.Split(diff, "\n")
	i := 0
	for i < len(lines) {
		if !strings.HasPrefix(lines[i], "--- ") {
			i++
			continue
		}
		if i+1 >= len(lines) || !strings.HasPrefix(lines[i+1], "+++ ") {
			i++
			continue
		}
		oldName := strings.TrimPrefix(strings.TrimPrefix(lines[i], "--- "), "a/")
		newName := strings.TrimPrefix(strings.TrimPrefix(lines[i+1], "+++ "), "b/")
		i += 2
		if newName == "/dev/null" {
			return nil, fmt.Errorf("patch deletes a file (%s): not supported", oldName)
		}
		file := filepath.Join(dir, newName)
		var src []string
		if oldName == "/dev/null" {
			// a new file (it must belong to a package that already exists: the overlay adds it there)
			if _, err := os.Stat(file); err == nil {
				return nil, fmt.Errorf("patch creates %s, which exists", newName)
			}
			if _, err := os.Stat(filepath.Dir(file)); err != nil {
				return nil, fmt.Errorf("patch creates a file in a new directory (%s): not supported", newName)
			}
			src = []string{""}
		} else if b, ok := out[file]; ok {
			src = strings.Split(string(b), "\n")
		} else {
			b, err := os.ReadFile(file)
			if err != nil {
				return nil, err
			}
			src = strings.Split(string(b), "\n")
		}
		offset := 0
		for i < len(lines) && strings.HasPrefix(lines[i], "@@") {
			var os_, ol, ns, nl int
			hdr := lines[i]
			if _, err := fmt.Sscanf(hdr, "@@ -%d,%d +%d,%d @@", &os_, &ol, &ns, &nl); err != nil {
				if _, err2 := fmt.Sscanf(hdr, "@@ -%d +%d,%d @@", &os_, &ns, &nl); err2 != nil {
					if _, err3 := fmt.Sscanf(hdr, "@@ -%d,%d +%d @@", &os_, &ol, &ns); err3 != nil {
						return nil, fmt.Errorf("bad hunk header %q", hdr)
					}
				}
			}
			i++
			var before, after []string
			for i < len(lines) && !strings.HasPrefix(lines[i], "@@") && !strings.HasPrefix(lines[i], "diff ") && !strings.HasPrefix(lines[i], "--- ") {
				l := lines[i]
				switch {
				case strings.HasPrefix(l, "+"):
					after = append(after, l[1:])
				case strings.HasPrefix(l, "-"):
					before = append(before, l[1:])
				case strings.HasPrefix(l, " "):
					before = append(before, l[1:])
					after = append(after, l[1:])
				case l == "":
					// an empty context line whose leading space was stripped, or the end of the patch
					if i == len(lines)-1 {
						i++
						continue
					}
					before = append(before, "")
					after = append(after, "")
				case strings.HasPrefix(l, "\\"):
				default:
					return nil, fmt.Errorf("unexpected patch line %q", l)
				}
				i++
			}
			// trailing empty context produced by the final newline of the patch
			for len(before) > 0 && len(after) > 0 && before[len(before)-1] == "" && after[len(after)-1] == "" && len(before) > ol && ol > 0 {
				before, after = before[:len(before)-1], after[:len(after)-1]
			}
			want := os_ - 1 + offset
			if want < 0 {
				want = 0 // the hunk of a new file: @@ -0,0 +1,n @@
			}
			pos := findBlock(src, before, want)
			if pos < 0 {
				return nil, fmt.Errorf("hunk %q does not apply to %s", hdr, newName)
			}
			src = append(append(append([]string{}, src[:pos]...), after...), src[pos+len(before):]...)
			offset += len(after) - len(before)
		}
		out[file] = []byte(strings.Join(src, "\n"))
	}
	if len(out) == 0 {
		return nil, fmt.Errorf("no file patched")
	}
	return out, nil
}

// findBlock finds block in src, preferring the position closest to want.
func findBlock(src, block []string, want int) int {
	if len(block) == 0 {
		if want >= 0 && want <= len(src) {
			return want
		}
		return -1
	}
	best, bestDist := -1, 1<<30
	for p := 0; p+len(block) <= len(src); p++ {
		ok := true
		for k := range block {
			if src[p+k] != block[k] {
				ok = false
				break
			}
		}
		if ok {
			d := p - want
			if d < 0 {
				d = -d
			}
			if d < bestDist {
				best, bestDist = p, d
			}
		}
	}
	return best
}

package core

import (
	"encoding/json"
	"fmt"
	"os"
	"path/filepath"
	"sort"
	"strings"
)

// Status of an obligation.
const (
	Held      = "held"
	Violated  = "violated"
	Undecided = "undecided" // an idiom the rule does not understand: fails the check
	Lost      = "anchor-lost"
)

// Obligation is one rule instance enumerated from the code.
type Obligation struct {
	Rule   string `json:"rule"`
	Key    string `json:"key"`  // rule + construct, never a line number
	Site   string `json:"site"` // file:line, for the reader only
	Func   string `json:"func,omitempty"`
	Status string `json:"status"`
	Detail string `json:"detail,omitempty"`
}

// Ob builds an obligation.
func Ob(rule, key, site, fn, status, detail string) Obligation {
	return Obligation{Rule: rule, Key: rule + ":" + key, Site: site, Func: fn, Status: status, Detail: detail}
}

// KnownFinding is an entry of /verif/known_findings.json.
type KnownFinding struct {
	Property string `json:"property"`
	Rule     string `json:"rule"`
	Key      string `json:"key"`    // obligation key
	Status   string `json:"status"` // "known" or "fixed"
	Commit   string `json:"commit,omitempty"`
	What     string `json:"what"`
}

// LoadKnown reads the known-findings file (never written at run time).
func LoadKnown(path string) ([]KnownFinding, error) {
	b, err := os.ReadFile(path)
	if err != nil {
		return nil, err
	}
	var out struct {
		Findings []KnownFinding `json:"findings"`
	}
	if err := json.Unmarshal(b, &out); err != nil {
		return nil, err
	}
	return out.Findings, nil
}

// Evidence is the schema of /verif/evidence/<id>.json.
type Evidence struct {
	PropertyID  string         `json:"property_id"`
	Tier        string         `json:"tier"`
	Seed        int            `json:"seed"`
	Level       string         `json:"level"`
	Coverage    map[string]any `json:"coverage"`
	Assumptions []string       `json:"assumptions"`
	WallS       float64        `json:"wall_s"`
	Violations  int            `json:"violations"`
}

// WriteJSON writes v to path atomically.
func WriteJSON(path string, v any) error {
	b, err := json.MarshalIndent(v, "", " ")
	if err != nil {
		return err
	}
	if err := os.MkdirAll(filepath.Dir(path), 0o755); err != nil {
		return err
	}
	tmp := path + ".tmp"
	if err := os.WriteFile(tmp, append(b, '\n'), 0o644); err != nil {
		return err
	}
	return os.Rename(tmp, path)
}

// SortObligations orders obligations deterministically.
func SortObligations(obs []Obligation) {
	sort.SliceStable(obs, func(i, j int) bool {
		if obs[i].Rule != obs[j].Rule {
			return obs[i].Rule < obs[j].Rule
		}
		if obs[i].Key != obs[j].Key {
			return obs[i].Key < obs[j].Key
		}
		return obs[i].Site < obs[j].Site
	})
}

// Line renders one obligation for the terminal.
func (o Obligation) Line() string {
	s := fmt.Sprintf("%-9s %-18s %s  [%s]", strings.ToUpper(o.Status), o.Rule, o.Key, o.Site)
	if o.Func != "" {
		s += " in " + o.Func
	}
	if o.Detail != "" {
		s += ": " + o.Detail
	}
	return s
}

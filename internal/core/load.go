// Package core holds the loader, the obligation model and the reporting of pqlint.
package core

import (
	"fmt"
	"go/ast"
	"go/token"
	"go/types"
	"os"
	"sort"
	"strings"
	"sync"

	"golang.org/x/tools/go/packages"
	"golang.org/x/tools/go/ssa"
	"golang.org/x/tools/go/ssa/ssautil"
)

// Module is the module path of the analysed repository.
const Module = "github.com/thanos-community/promql-engine"

// Program is the type-checked, SSA-built view of /repo's working tree (non-test code).
type Program struct {
	Dir      string
	Fset     *token.FileSet
	Pkgs     []*packages.Package // repo packages, sorted by path
	ByPath   map[string]*packages.Package
	Deps     map[string]*packages.Package // all packages in the import graph, by path
	SSA      *ssa.Program
	SSAPkgs  map[string]*ssa.Package // repo packages by path
	Funcs    []*ssa.Function         // every function with a body declared in the repo (incl. anonymous), sorted
	byObject map[*types.Func]*ssa.Function

	idxOnce     sync.Once
	callSites   map[*ssa.Function][]*ssa.CallCommon // nil entry: the function is used as a value
	fieldStores map[string][]ssa.Value
}

// Load type-checks the repository at dir and builds SSA for its packages.
// overlay maps absolute file names to replacement contents (used by the self-tests).
// Any load or type error is returned as an error: a rule never passes on code it could not see.
func Load(dir string, overlay map[string][]byte) (*Program, error) {
	env := append(os.Environ(), "GOFLAGS=-mod=mod", "GOPROXY=off", "GOSUMDB=off", "GOTOOLCHAIN=local", "GOWORK=off")
	cfg := &packages.Config{
		Mode: packages.NeedName | packages.NeedFiles | packages.NeedCompiledGoFiles | packages.NeedImports |
			packages.NeedDeps | packages.NeedTypes | packages.NeedTypesSizes | packages.NeedSyntax |
			packages.NeedTypesInfo | packages.NeedModule,
		Dir:     dir,
		Env:     env,
		Overlay: overlay,
		Tests:   false,
	}
	pkgs, err := packages.Load(cfg, "./...")
	if err != nil {
		return nil, fmt.Errorf("packages.Load: %w", err)
	}
	if len(pkgs) == 0 {
		return nil, fmt.Errorf("no packages loaded from %s", dir)
	}
	var errs []string
	deps := map[string]*packages.Package{}
	packages.Visit(pkgs, nil, func(p *packages.Package) {
		deps[p.PkgPath] = p
		for _, e := range p.Errors {
			errs = append(errs, e.Error())
		}
	})
	if len(errs) > 0 {
		sort.Strings(errs)
		if len(errs) > 10 {
			errs = errs[:10]
		}
		return nil, fmt.Errorf("load/type errors:\n  %s", strings.Join(errs, "\n  "))
	}
	sort.Slice(pkgs, func(i, j int) bool { return pkgs[i].PkgPath < pkgs[j].PkgPath })
	p := &Program{Dir: dir, Fset: pkgs[0].Fset, Pkgs: pkgs, ByPath: map[string]*packages.Package{}, Deps: deps,
		SSAPkgs: map[string]*ssa.Package{}, byObject: map[*types.Func]*ssa.Function{}}
	for _, pk := range pkgs {
		if !strings.HasPrefix(pk.PkgPath, Module) {
			return nil, fmt.Errorf("unexpected package %s outside module %s", pk.PkgPath, Module)
		}
		p.ByPath[pk.PkgPath] = pk
		// The repository has no cgo, no unsafe and no build-tagged files: one configuration covers the build.
		for _, imp := range pk.Imports {
			if imp.PkgPath == "unsafe" || imp.PkgPath == "C" {
				return nil, fmt.Errorf("package %s imports %s: the aliasing arguments of the rules no longer hold", pk.PkgPath, imp.PkgPath)
			}
		}
		if len(pk.IgnoredFiles) > 0 {
			return nil, fmt.Errorf("package %s has build-constrained files %v that were not analysed", pk.PkgPath, pk.IgnoredFiles)
		}
	}
	prog, ssapkgs := ssautil.Packages(pkgs, ssa.InstantiateGenerics)
	prog.Build()
	p.SSA = prog
	for i, sp := range ssapkgs {
		if sp == nil {
			return nil, fmt.Errorf("no SSA for %s", pkgs[i].PkgPath)
		}
		p.SSAPkgs[pkgs[i].PkgPath] = sp
	}
	all := ssautil.AllFunctions(prog)
	// AllFunctions leaves out the methods of unexported types that no analysed code converts to an interface
	// (engine.localEngine is only used as an api.RemoteEngine by callers outside the module): every method
	// declared in the module is analysed.
	var addFn func(fn *ssa.Function)
	addFn = func(fn *ssa.Function) {
		if fn == nil || all[fn] {
			return
		}
		all[fn] = true
		for _, af := range fn.AnonFuncs {
			addFn(af)
		}
	}
	for _, sp := range ssapkgs {
		for _, m := range sp.Members {
			t, ok := m.(*ssa.Type)
			if !ok || types.IsInterface(t.Type()) {
				continue
			}
			if n, isNamed := t.Type().(*types.Named); isNamed && n.TypeParams().Len() > 0 {
				continue
			}
			for _, T := range []types.Type{t.Type(), types.NewPointer(t.Type())} {
				mset := prog.MethodSets.MethodSet(T)
				for i := 0; i < mset.Len(); i++ {
					addFn(prog.MethodValue(mset.At(i)))
				}
			}
		}
	}
	for fn := range all {
		if fn.Pkg == nil || fn.Blocks == nil {
			continue
		}
		if _, ok := p.SSAPkgs[fn.Pkg.Pkg.Path()]; !ok {
			continue
		}
		if fn.Synthetic != "" && fn.Name() != "init" {
			// wrappers, thunks and bound-method closures carry no source of their own
			continue
		}
		p.Funcs = append(p.Funcs, fn)
		if obj, ok := fn.Object().(*types.Func); ok {
			p.byObject[obj] = fn
		}
	}
	sort.Slice(p.Funcs, func(i, j int) bool {
		a, b := p.Funcs[i], p.Funcs[j]
		if a.Pkg.Pkg.Path() != b.Pkg.Pkg.Path() {
			return a.Pkg.Pkg.Path() < b.Pkg.Pkg.Path()
		}
		if a.String() != b.String() {
			return a.String() < b.String()
		}
		return a.Pos() < b.Pos()
	})
	return p, nil
}

// Pkg returns the package with the module-relative path rel ("execution/scan").
func (p *Program) Pkg(rel string) *packages.Package {
	if rel == "" {
		return p.ByPath[Module]
	}
	return p.ByPath[Module+"/"+rel]
}

// SSAPkg returns the SSA package with the module-relative path rel.
func (p *Program) SSAPkg(rel string) *ssa.Package { return p.SSAPkgs[Module+"/"+rel] }

// Func resolves a function or method by module-relative package path and name:
// Func("execution", "newOperator"), Func("execution/aggregate", "kAggregate.Next").
// It returns nil if the anchor does not exist.
func (p *Program) Func(rel, name string) *ssa.Function {
	sp := p.SSAPkg(rel)
	if sp == nil {
		return nil
	}
	if i := strings.Index(name, "."); i >= 0 {
		tn, mn := name[:i], name[i+1:]
		obj := sp.Pkg.Scope().Lookup(tn)
		if obj == nil {
			return nil
		}
		for _, t := range []types.Type{obj.Type(), types.NewPointer(obj.Type())} {
			ms := p.SSA.MethodSets.MethodSet(t)
			if sel := ms.Lookup(sp.Pkg, mn); sel != nil {
				if f := p.SSA.MethodValue(sel); f != nil && f.Synthetic == "" {
					return f
				}
			}
		}
		return nil
	}
	return sp.Func(name)
}

// FuncOf returns the SSA function for a types.Func declared in the repo (nil otherwise).
func (p *Program) FuncOf(obj *types.Func) *ssa.Function {
	if f, ok := p.byObject[obj]; ok {
		return f
	}
	return p.SSA.FuncValue(obj)
}

// InRepo reports whether fn is declared in the analysed module.
func (p *Program) InRepo(fn *ssa.Function) bool {
	if fn == nil {
		return false
	}
	for fn.Parent() != nil {
		fn = fn.Parent()
	}
	if fn.Pkg == nil {
		if o := fn.Origin(); o != nil && o.Pkg != nil {
			return strings.HasPrefix(o.Pkg.Pkg.Path(), Module)
		}
		return false
	}
	return strings.HasPrefix(fn.Pkg.Pkg.Path(), Module)
}

// Rel strips the module prefix from a package path.
func Rel(path string) string {
	return strings.TrimPrefix(strings.TrimPrefix(path, Module), "/")
}

// Pos renders a position as module-relative file:line.
func (p *Program) Pos(pos token.Pos) string {
	if !pos.IsValid() {
		return "-"
	}
	ps := p.Fset.Position(pos)
	f := strings.TrimPrefix(ps.Filename, p.Dir+"/")
	return fmt.Sprintf("%s:%d", f, ps.Line)
}

// FuncName renders a function name without the module prefix.
func FuncName(fn *ssa.Function) string {
	if fn == nil {
		return "?"
	}
	return strings.ReplaceAll(fn.String(), Module+"/", "")
}

// FileOf returns the syntax file containing pos in the repo packages.
func (p *Program) FileOf(pos token.Pos) (*packages.Package, *ast.File) {
	for _, pk := range p.Pkgs {
		for _, f := range pk.Syntax {
			if f.Pos() <= pos && pos <= f.End() {
				return pk, f
			}
		}
	}
	return nil, nil
}

func (p *Program) buildIndex() {
	p.idxOnce.Do(func() {
		p.callSites = map[*ssa.Function][]*ssa.CallCommon{}
		p.fieldStores = map[string][]ssa.Value{}
		for _, fn := range p.Funcs {
			for _, b := range fn.Blocks {
				for _, ins := range b.Instrs {
					if cc := CallCommon(ins); cc != nil && !cc.IsInvoke() {
						if f := cc.StaticCallee(); f != nil {
							p.callSites[f] = append(p.callSites[f], cc)
						}
					}
					if st, ok := ins.(*ssa.Store); ok {
						if n, f, _, ok := FieldRef(st.Addr); ok && n != nil {
							k := n.String() + "." + f
							p.fieldStores[k] = append(p.fieldStores[k], st.Val)
						}
					}
					// function used as a value (not as the callee of this instruction)
					var ops []*ssa.Value
					for _, op := range ins.Operands(ops) {
						if op == nil || *op == nil {
							continue
						}
						f, ok := (*op).(*ssa.Function)
						if !ok {
							continue
						}
						if cc := CallCommon(ins); cc != nil && cc.Value == *op {
							continue
						}
						p.callSites[f] = append(p.callSites[f], nil)
					}
				}
			}
		}
	})
}

// CallSitesOf returns the static call sites (call, go, defer) of fn in the repo; a nil entry
// means fn is also used as a function value.
func (p *Program) CallSitesOf(fn *ssa.Function) []*ssa.CallCommon {
	p.buildIndex()
	return p.callSites[fn]
}

// FieldStores returns every value stored into field f of struct type n anywhere in the repo.
func (p *Program) FieldStores(n *types.Named, f string) []ssa.Value {
	p.buildIndex()
	return p.fieldStores[n.String()+"."+f]
}

package core

import (
	"go/constant"
	"go/token"
	"go/types"
	"strings"

	"golang.org/x/tools/go/ssa"
)

// EachInstr calls f for every instruction of fn (not of nested closures).
func EachInstr(fn *ssa.Function, f func(b *ssa.BasicBlock, i int, ins ssa.Instruction)) {
	for _, b := range fn.Blocks {
		for i, ins := range b.Instrs {
			f(b, i, ins)
		}
	}
}

// CallCommon returns the call description of a Call, Go or Defer instruction.
func CallCommon(ins ssa.Instruction) *ssa.CallCommon {
	switch c := ins.(type) {
	case *ssa.Call:
		return &c.Call
	case *ssa.Go:
		return &c.Call
	case *ssa.Defer:
		return &c.Call
	}
	return nil
}

// CalleeName returns "pkgpath.Func" or "(recv).Method" style full name of a static callee, "" if dynamic.
func CalleeName(c *ssa.CallCommon) string {
	if c == nil {
		return ""
	}
	if c.IsInvoke() {
		return ""
	}
	if f := c.StaticCallee(); f != nil {
		return f.String()
	}
	if b, ok := c.Value.(*ssa.Builtin); ok {
		return "builtin." + b.Name()
	}
	return ""
}

// IsStatic reports whether c statically calls the function with the given full name
// (as printed by ssa.Function.String, e.g. "math.IsNaN" or "(*sync.Mutex).Lock").
func IsStatic(c *ssa.CallCommon, full string) bool { return c != nil && CalleeName(c) == full }

// InvokeOf reports whether c is an interface method call of method name on an interface
// whose named type is pkgpath.typeName (typeName "" matches any type of that package).
func InvokeOf(c *ssa.CallCommon, pkgpath, typeName, method string) bool {
	if c == nil || !c.IsInvoke() || c.Method.Name() != method {
		return false
	}
	n := NamedOf(c.Value.Type())
	if n == nil || n.Obj().Pkg() == nil {
		return false
	}
	return n.Obj().Pkg().Path() == pkgpath && (typeName == "" || n.Obj().Name() == typeName)
}

// NamedOf unwraps pointers and returns the named type, if any.
func NamedOf(t types.Type) *types.Named {
	for {
		switch tt := t.(type) {
		case *types.Pointer:
			t = tt.Elem()
			continue
		case *types.Named:
			return tt
		case *types.Alias:
			t = types.Unalias(tt)
			continue
		}
		return nil
	}
}

// TypeIs reports whether t (after pointer unwrapping) is the named type pkgpath.name.
func TypeIs(t types.Type, pkgpath, name string) bool {
	n := NamedOf(t)
	return n != nil && n.Obj().Pkg() != nil && n.Obj().Pkg().Path() == pkgpath && n.Obj().Name() == name
}

// FieldRef describes v if it is a FieldAddr or Field: the struct's named type, the field name and the base.
func FieldRef(v ssa.Value) (named *types.Named, field string, base ssa.Value, ok bool) {
	switch x := v.(type) {
	case *ssa.FieldAddr:
		st := x.X.Type().Underlying().(*types.Pointer).Elem()
		s, _ := st.Underlying().(*types.Struct)
		if s == nil {
			return nil, "", nil, false
		}
		return NamedOf(st), s.Field(x.Field).Name(), x.X, true
	case *ssa.Field:
		s, _ := x.X.Type().Underlying().(*types.Struct)
		if s == nil {
			return nil, "", nil, false
		}
		return NamedOf(x.X.Type()), s.Field(x.Field).Name(), x.X, true
	}
	return nil, "", nil, false
}

// IsFieldOf reports whether v is a FieldAddr/Field of struct type pkgpath.typeName, field name.
func IsFieldOf(v ssa.Value, pkgpath, typeName, field string) bool {
	n, f, _, ok := FieldRef(v)
	if !ok || f != field || n == nil || n.Obj().Pkg() == nil {
		return false
	}
	return n.Obj().Pkg().Path() == pkgpath && n.Obj().Name() == typeName
}

// Deref returns the address operand if v is a load (*addr), else nil.
func Deref(v ssa.Value) ssa.Value {
	if u, ok := v.(*ssa.UnOp); ok && u.Op == token.MUL {
		return u.X
	}
	return nil
}

// ConstInt returns the integer value of v if it is an integer constant.
func ConstInt(v ssa.Value) (int64, bool) {
	c, ok := v.(*ssa.Const)
	if !ok || c.Value == nil || c.Value.Kind() != constant.Int {
		return 0, false
	}
	i, ok := constant.Int64Val(c.Value)
	return i, ok
}

// IsNilConst reports whether v is the nil constant.
func IsNilConst(v ssa.Value) bool {
	c, ok := v.(*ssa.Const)
	return ok && c.Value == nil
}

// SameExpr reports structural equality of two SSA values viewed as side-effect free
// access paths: identical values, or FieldAddr/Field/IndexAddr/Index/Slice-free loads built
// from structurally equal parts. It is used to recognise "the same memory location read twice".
func SameExpr(a, b ssa.Value) bool {
	return sameExpr(a, b, 0)
}

func sameExpr(a, b ssa.Value, d int) bool {
	if a == b {
		return true
	}
	if d > 8 || a == nil || b == nil {
		return false
	}
	switch x := a.(type) {
	case *ssa.Const:
		y, ok := b.(*ssa.Const)
		return ok && types.Identical(x.Type(), y.Type()) && ((x.Value == nil && y.Value == nil) || (x.Value != nil && y.Value != nil && constant.Compare(x.Value, token.EQL, y.Value)))
	case *ssa.UnOp:
		y, ok := b.(*ssa.UnOp)
		return ok && x.Op == y.Op && x.Op == token.MUL && sameExpr(x.X, y.X, d+1)
	case *ssa.FieldAddr:
		y, ok := b.(*ssa.FieldAddr)
		return ok && x.Field == y.Field && sameExpr(x.X, y.X, d+1)
	case *ssa.Field:
		y, ok := b.(*ssa.Field)
		return ok && x.Field == y.Field && sameExpr(x.X, y.X, d+1)
	case *ssa.IndexAddr:
		y, ok := b.(*ssa.IndexAddr)
		return ok && sameExpr(x.X, y.X, d+1) && sameExpr(x.Index, y.Index, d+1)
	case *ssa.Index:
		y, ok := b.(*ssa.Index)
		return ok && sameExpr(x.X, y.X, d+1) && sameExpr(x.Index, y.Index, d+1)
	}
	return false
}

// BlockDominates reports whether a dominates b (reflexive).
func BlockDominates(a, b *ssa.BasicBlock) bool { return a == b || a.Dominates(b) }

// InstrIndex returns the index of ins within its block.
func InstrIndex(ins ssa.Instruction) int {
	for i, x := range ins.Block().Instrs {
		if x == ins {
			return i
		}
	}
	return -1
}

// InstrDominates reports whether instruction a is executed before b on every path reaching b.
func InstrDominates(a, b ssa.Instruction) bool {
	if a.Block() == b.Block() {
		return InstrIndex(a) < InstrIndex(b)
	}
	return a.Block().Dominates(b.Block())
}

// BranchDominates reports whether taking successor succIdx (0 = true, 1 = false) of the If that
// ends block ifb is a precondition of reaching target: the successor has ifb as its only
// predecessor and dominates target.
func BranchDominates(ifb *ssa.BasicBlock, succIdx int, target *ssa.BasicBlock) bool {
	if len(ifb.Succs) != 2 {
		return false
	}
	s := ifb.Succs[succIdx]
	if len(s.Preds) != 1 || s.Preds[0] != ifb {
		return false
	}
	if ifb.Succs[0] == ifb.Succs[1] {
		return false
	}
	return BlockDominates(s, target)
}

// IfOf returns the If instruction terminating b, or nil.
func IfOf(b *ssa.BasicBlock) *ssa.If {
	if len(b.Instrs) == 0 {
		return nil
	}
	i, _ := b.Instrs[len(b.Instrs)-1].(*ssa.If)
	return i
}

// StripNot removes logical negations from a condition and reports whether their number is odd.
func StripNot(v ssa.Value) (ssa.Value, bool) {
	neg := false
	for {
		u, ok := v.(*ssa.UnOp)
		if !ok || u.Op != token.NOT {
			return v, neg
		}
		neg = !neg
		v = u.X
	}
}

// BackSlice walks the value-dependence graph of v backwards (operands of arithmetic, conversions,
// phis, loads, field/index projections, extracts and calls' arguments) and calls visit on every
// value reached. visit returns false to stop descending below that value.
func BackSlice(v ssa.Value, visit func(ssa.Value) bool) {
	seen := map[ssa.Value]bool{}
	var walk func(ssa.Value)
	walk = func(x ssa.Value) {
		if x == nil || seen[x] {
			return
		}
		seen[x] = true
		if !visit(x) {
			return
		}
		switch t := x.(type) {
		case *ssa.Phi:
			for _, e := range t.Edges {
				walk(e)
			}
		case *ssa.UnOp:
			walk(t.X)
		case *ssa.BinOp:
			walk(t.X)
			walk(t.Y)
		case *ssa.Convert:
			walk(t.X)
		case *ssa.ChangeType:
			walk(t.X)
		case *ssa.ChangeInterface:
			walk(t.X)
		case *ssa.MakeInterface:
			walk(t.X)
		case *ssa.TypeAssert:
			walk(t.X)
		case *ssa.Extract:
			walk(t.Tuple)
		case *ssa.Field:
			walk(t.X)
		case *ssa.FieldAddr:
			walk(t.X)
		case *ssa.Index:
			walk(t.X)
			walk(t.Index)
		case *ssa.IndexAddr:
			walk(t.X)
			walk(t.Index)
		case *ssa.Slice:
			walk(t.X)
		case *ssa.Lookup:
			walk(t.X)
			walk(t.Index)
		case *ssa.Call:
			for _, a := range t.Call.Args {
				walk(a)
			}
			if !t.Call.IsInvoke() {
				walk(t.Call.Value)
			} else {
				walk(t.Call.Value)
			}
		}
	}
	walk(v)
}

// PhiClosure returns the set of non-phi values that can flow into v through phis (v itself if not a phi).
func PhiClosure(v ssa.Value) map[ssa.Value]bool {
	out := map[ssa.Value]bool{}
	seen := map[ssa.Value]bool{}
	var walk func(ssa.Value)
	walk = func(x ssa.Value) {
		if seen[x] {
			return
		}
		seen[x] = true
		if p, ok := x.(*ssa.Phi); ok {
			for _, e := range p.Edges {
				walk(e)
			}
			return
		}
		out[x] = true
	}
	walk(v)
	return out
}

// Referrers returns the referrers of v (nil-safe).
func Referrers(v ssa.Value) []ssa.Instruction {
	r := v.Referrers()
	if r == nil {
		return nil
	}
	return *r
}

// LoopDepth computes, for every block of fn, the number of natural loops containing it.
func LoopDepth(fn *ssa.Function) map[*ssa.BasicBlock]int {
	depth := map[*ssa.BasicBlock]int{}
	// back edge: n -> h where h dominates n
	for _, n := range fn.Blocks {
		for _, h := range n.Succs {
			if !BlockDominates(h, n) {
				continue
			}
			// natural loop of back edge n->h
			body := map[*ssa.BasicBlock]bool{h: true}
			stack := []*ssa.BasicBlock{n}
			for len(stack) > 0 {
				x := stack[len(stack)-1]
				stack = stack[:len(stack)-1]
				if body[x] {
					continue
				}
				body[x] = true
				stack = append(stack, x.Preds...)
			}
			for b := range body {
				depth[b]++
			}
		}
	}
	// loops sharing a header (several back edges) were counted once per back edge; normalise by
	// recomputing with merged bodies per header.
	depth = map[*ssa.BasicBlock]int{}
	bodies := map[*ssa.BasicBlock]map[*ssa.BasicBlock]bool{}
	for _, n := range fn.Blocks {
		for _, h := range n.Succs {
			if !BlockDominates(h, n) {
				continue
			}
			body := bodies[h]
			if body == nil {
				body = map[*ssa.BasicBlock]bool{h: true}
				bodies[h] = body
			}
			stack := []*ssa.BasicBlock{n}
			for len(stack) > 0 {
				x := stack[len(stack)-1]
				stack = stack[:len(stack)-1]
				if body[x] {
					continue
				}
				body[x] = true
				stack = append(stack, x.Preds...)
			}
		}
	}
	for _, body := range bodies {
		for b := range body {
			depth[b]++
		}
	}
	return depth
}

// Reaches reports whether there is a CFG path of length >= 1 from a to b.
func Reaches(a, b *ssa.BasicBlock) bool {
	seen := map[*ssa.BasicBlock]bool{}
	stack := append([]*ssa.BasicBlock{}, a.Succs...)
	for len(stack) > 0 {
		x := stack[len(stack)-1]
		stack = stack[:len(stack)-1]
		if seen[x] {
			continue
		}
		seen[x] = true
		if x == b {
			return true
		}
		stack = append(stack, x.Succs...)
	}
	return false
}

// GlobalOf returns the global if v is a load of, or the address of, a package-level variable.
func GlobalOf(v ssa.Value) *ssa.Global {
	if g, ok := v.(*ssa.Global); ok {
		return g
	}
	if a := Deref(v); a != nil {
		if g, ok := a.(*ssa.Global); ok {
			return g
		}
	}
	return nil
}

// IsGlobal reports whether g is the package-level variable rel.name (module-relative package path).
func IsGlobal(g *ssa.Global, rel, name string) bool {
	return g != nil && g.Pkg != nil && Rel(g.Pkg.Pkg.Path()) == rel && g.Name() == name
}

// ShortType renders a type without module prefixes.
func ShortType(t types.Type) string {
	return strings.ReplaceAll(types.TypeString(t, nil), Module+"/", "")
}

// Closures returns the anonymous functions (transitively) nested in fn.
func Closures(fn *ssa.Function) []*ssa.Function {
	var out []*ssa.Function
	var walk func(f *ssa.Function)
	walk = func(f *ssa.Function) {
		for _, a := range f.AnonFuncs {
			out = append(out, a)
			walk(a)
		}
	}
	walk(fn)
	return out
}

// RetResults returns the values a Return instruction returns, looking through the spill that
// go/ssa introduces in functions with defers (*t0 = v; rundefers; t1 = *t0; return t1).
func RetResults(ret *ssa.Return) []ssa.Value {
	out := make([]ssa.Value, len(ret.Results))
	for i, r := range ret.Results {
		out[i] = r
		u, ok := r.(*ssa.UnOp)
		if !ok || u.Op != token.MUL || u.Block() != ret.Block() {
			continue
		}
		alloc, ok := u.X.(*ssa.Alloc)
		if !ok || alloc.Heap {
			continue
		}
		// last store to the spill slot before the load, in the same block
		instrs := ret.Block().Instrs
		for j := InstrIndex(u) - 1; j >= 0; j-- {
			if st, ok := instrs[j].(*ssa.Store); ok && st.Addr == alloc {
				out[i] = st.Val
				break
			}
		}
	}
	return out
}

// LoopBodies returns the natural loops of fn: header -> set of blocks of the loop (merged over back edges).
func LoopBodies(fn *ssa.Function) map[*ssa.BasicBlock]map[*ssa.BasicBlock]bool {
	bodies := map[*ssa.BasicBlock]map[*ssa.BasicBlock]bool{}
	for _, n := range fn.Blocks {
		for _, h := range n.Succs {
			if !BlockDominates(h, n) {
				continue
			}
			body := bodies[h]
			if body == nil {
				body = map[*ssa.BasicBlock]bool{h: true}
				bodies[h] = body
			}
			stack := []*ssa.BasicBlock{n}
			for len(stack) > 0 {
				x := stack[len(stack)-1]
				stack = stack[:len(stack)-1]
				if body[x] {
					continue
				}
				body[x] = true
				stack = append(stack, x.Preds...)
			}
		}
	}
	return bodies
}

// InnermostLoop returns the body of the smallest natural loop containing b (nil if none).
func InnermostLoop(fn *ssa.Function, b *ssa.BasicBlock) map[*ssa.BasicBlock]bool {
	var best map[*ssa.BasicBlock]bool
	for _, body := range LoopBodies(fn) {
		if body[b] && (best == nil || len(body) < len(best)) {
			best = body
		}
	}
	return best
}

#!/bin/sh
# Development tool: re-runs all checks against every recorded seeded change and compares with meta.json.
cd /verif
for d in seeded/*/ ; do
  n=$(basename $d); [ -f $d/patch.diff ] || continue
  exp=$(python3 -c "import json;print(json.load(open('$d/meta.json'))['detected'])")
  out=$(tools/against.sh rg_$n /verif/$d/patch.diff 2>&1)
  got=False; echo "$out" | grep -q VIOLATION && got=True
  [ "$exp" = "$got" ] && echo "ok   $n detected=$got" || echo "DIFF $n expected detected=$exp got=$got"
done

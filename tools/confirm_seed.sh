#!/bin/sh
# usage: tools/confirm_seed.sh <Cxx> <a|b>
# Confirms a seeded change delivered by a sub-agent in /tmp/seed_out/<id>/: applies to HEAD, builds,
# the unedited suite passes with it, its demonstration fails with it and passes without it.
ID=$1; X=$2; BASE=${SEEDBASE:-/tmp/seed_out}; SRC=$BASE/$ID
export GOFLAGS=-mod=mod GOPROXY=off GOSUMDB=off GOTOOLCHAIN=local; unset GOWORK
W=/tmp/confirm_${ID}_$X; LOG=$BASE/confirm_${ID}_$X.log
rm -rf $W; git -C /repo worktree add -q --detach $W HEAD || exit 2
trap 'git -C /repo worktree remove --force $W' EXIT
: > $LOG
DEMO=$(ls $SRC/zz_demo_${ID}_${X}_test.go 2>/dev/null | head -1)
[ -f "$SRC/$X.patch.diff" ] && [ -n "$DEMO" ] || { echo "$ID$X: MISSING files"; exit 1; }
TESTS=$(grep -o '^func Test[A-Za-z0-9_]*' $DEMO | sed 's/func //' | tr '\n' '|' | sed 's/|$//')
RACE=""; grep -q -- "-race" $SRC/$X.meta.json 2>/dev/null && RACE="-race"
cd $W
# 1. demo on the unchanged tree
cp $DEMO engine/
if ! go test $RACE -vet=off -count=1 -run "^($TESTS)\$" ./engine/ >>$LOG 2>&1; then echo "$ID$X: REJECT demo fails on unchanged tree"; exit 1; fi
rm engine/$(basename $DEMO)
# 2. patch applies, builds, suite passes
if ! git apply $SRC/$X.patch.diff >>$LOG 2>&1; then echo "$ID$X: REJECT patch does not apply to HEAD"; exit 1; fi
if git diff --name-only | grep -q '_test.go'; then echo "$ID$X: REJECT patch edits tests"; exit 1; fi
if ! go build ./... >>$LOG 2>&1; then echo "$ID$X: REJECT does not build"; exit 1; fi
if ! go test -vet=off -count=1 ./... >>$LOG 2>&1; then echo "$ID$X: REJECT existing suite fails with the change"; exit 1; fi
# 3. demo fails with the change
cp $DEMO engine/
if go test $RACE -vet=off -count=1 -run "^($TESTS)\$" ./engine/ >>$LOG 2>&1; then echo "$ID$X: REJECT demo passes with the change"; exit 1; fi
echo "$ID$X: CONFIRMED tests=$TESTS files=$(git diff --name-only | tr '\n' ' ')"

#!/usr/bin/env python3
"""usage: tools/addrule.py <rule> <property>...   -- appends a rule to the Rules list of properties (development tool)"""
import re, sys
p = '/verif/internal/rules/properties.go'
s = open(p).read()
rule = sys.argv[1]
for pid in sys.argv[2:]:
    m = re.search(r'ID: "%s".*?Rules:\s*\[\]string\{([^}]*)\}' % pid, s, re.S)
    assert m, pid
    if '"%s"' % rule in m.group(1):
        continue
    k = m.end() - 1
    s = s[:k] + ', "%s"' % rule + s[k:]
open(p, 'w').write(s)

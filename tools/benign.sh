#!/bin/sh
# Development tool: every behaviour-preserving refactor in /verif/benign must (a) apply, build and keep the
# suite green, and (b) leave every check silent. A check that fires here is a false alarm to be corrected.
export GOFLAGS=-mod=mod GOPROXY=off GOSUMDB=off GOTOOLCHAIN=local; unset GOWORK
for d in /verif/benign/*.diff; do
  n=$(basename $d .diff); W=/tmp/benignchk_$n
  rm -rf $W; git -C /repo worktree add -q --detach $W HEAD
  if ! git -C $W apply $d 2>/dev/null; then echo "$n: patch no longer applies (skipped)"; git -C /repo worktree remove --force $W; continue; fi
  if [ "$1" = "--test" ]; then (cd $W && go build ./... && go test -vet=off -count=1 ./... >/dev/null 2>&1) || echo "$n: SUITE FAILS"; fi
  git -C /repo worktree remove --force $W
  /verif/tools/against.sh $n $d 2>&1 | grep -v ": done"
done
echo "benign: finished"

#!/bin/sh
# usage: tools/against.sh <name> <patch.diff|-R:commit|@commit> [properties...]
# Development tool (not a registered check): runs the checks against a scratch copy of /repo with one
# change applied and prints which properties report a violation. The scratch copy lives under /tmp and
# is removed afterwards; /repo and /verif/evidence are not touched.
set -e
NAME=$1; WHAT=$2; shift 2
PROPS=${*:-C02 C03 C04 C05 C06 C08 C09 C10 C11 C12 C13 C14 C15 C16 C17 C18 C19 C20}
S=/tmp/scratch_$NAME; O=/tmp/scratch_out_$NAME
rm -rf $S $O; mkdir -p $O
case "$WHAT" in
  @*) git -C /repo worktree add -q --detach $S ${WHAT#@} ;;
  -R:*) git -C /repo worktree add -q --detach $S HEAD; git -C /repo diff ${WHAT#-R:} ${WHAT#-R:}^ | git -C $S apply ;;
  *) git -C /repo worktree add -q --detach $S HEAD; git -C $S apply "$WHAT" ;;
esac
cd /verif
for p in $PROPS; do
  out=$(${PQLINT:-bin/pqlint} -property $p -tier quick -repo $S -verif /verif -out $O -noselftest 2>&1) || true
  if echo "$out" | grep -q "^VIOLATION"; then
    echo "$NAME: $p VIOLATION"
    echo "$out" | grep -E "^(VIOLATED|UNDECIDED|ANCHOR)" | cut -c1-330 | sed 's/^/    /'
  elif echo "$out" | grep -q "CHECK BROKEN\|cannot analyse"; then
    echo "$NAME: $p BROKEN"; echo "$out" | grep -E "BROKEN|cannot" | head -3 | cut -c1-300 | sed 's/^/    /'
  fi
done
git -C /repo worktree remove --force $S; rm -rf $O
echo "$NAME: done"

#!/usr/bin/env python3
"""Regenerates the per-round tables of DESIGN.md section 6 from seeded/*/meta.json (development tool)."""
import json, glob, os, re, sys

def rows(prefix):
    out = []
    for mf in sorted(glob.glob('/verif/seeded/*/meta.json')):
        d = os.path.basename(os.path.dirname(mf))
        if prefix == '' and d.startswith('r'):
            continue
        if prefix and not d.startswith(prefix):
            continue
        m = json.load(open(mf))
        summ = (m.get('summary') or m.get('description') or '').replace('\n', ' ').replace('|', '/')[:150]
        if m.get('detected'):
            rules = ', '.join(m.get('detected_by_rules', []))
            if prefix:
                if m.get('detected_at_first_run'):
                    rules += ' (first run)'
                elif prefix == 'r7_':
                    rules += ' (after round 7, §6.12)'
                elif prefix == 'r6_':
                    rules += ' (after round 6, §6.11)'
                elif prefix == 'r5_':
                    rules += ' (after round 5, §6.8 / third pass, §6.10)'
                elif prefix == 'r4_':
                    rules += ' (after round 4, §6.7)'
                elif 'R-JOIN' in rules or 'R-BATCHIDX' in rules or 'R-VALIDEVERY' in rules or 'R-MEMOKEY' in rules or 'R-MATCHPOS' in rules or 'R-REFPORT' in rules:
                    rules += ' (after the second strengthening pass, §6.6)'
                else:
                    rules += ' (after strengthening)'
            elif 'strengthened' in m and 'R-REFPORT' in rules:
                rules += ' (after the second strengthening pass, §6.6)'
            props = ', '.join(sorted(m.get('detected_by_properties', [])))
        else:
            rules, props = '**missed**', ''
        out.append('| %s | %s | %s | %s |' % (d, summ, rules, props))
    return out

def table(prefix):
    return '\n'.join(['| seed | change | detected by rule(s) | checks that fail |', '|---|---|---|---|'] + rows(prefix)) + '\n'

def stats(prefix):
    n = f = d = 0
    for mf in sorted(glob.glob('/verif/seeded/*/meta.json')):
        name = os.path.basename(os.path.dirname(mf))
        if (prefix == '' and name.startswith('r')) or (prefix and not name.startswith(prefix)):
            continue
        m = json.load(open(mf)); n += 1
        f += 1 if m.get('detected_at_first_run') else 0
        d += 1 if m.get('detected') else 0
    return n, f, d

if __name__ == '__main__':
    s = open('/verif/DESIGN.md').read()
    for prefix, first in (('', '| C02a |'), ('r2_', '| r2_C02a |'), ('r3_', '| r3_C02a |'), ('r4_', '| r4_C02a |'), ('r5_', '| r5_C02a |'), ('r6_', '| r6_C02a |'), ('r7_', '| r7_C02a |')):
        i = s.index('| seed | change | detected by rule(s) | checks that fail |', s.rindex('\n## 6', 0, s.index(first)))
        # the table that contains `first`
        i = s.rindex('| seed | change |', 0, s.index(first))
        j = s.index('\n\n', i)
        s = s[:i] + table(prefix).rstrip('\n') + s[j:]
    open('/verif/DESIGN.md', 'w').write(s)
    for prefix in ('', 'r2_', 'r3_', 'r4_', 'r5_', 'r6_', 'r7_'):
        print(prefix or 'r1', stats(prefix))

#!/bin/sh
# usage: tools/try_benign.sh <base-out-dir> <Cxx> <a|b|c>
# Development tool: applies a refactoring delivered by a sub-agent to a scratch worktree, confirms that it builds
# and that the unedited suite passes, and runs all 18 checks (quick, no self-tests) against it. Prints every
# check that does not stay silent.
BASE=$1; ID=$2; X=$3; SRC=$BASE/$ID
export GOFLAGS=-mod=mod GOPROXY=off GOSUMDB=off GOTOOLCHAIN=local; unset GOWORK
cd /verif
S=/tmp/scratch_b_$ID$X; O=/tmp/scratch_bo_$ID$X
rm -rf $S $O; mkdir -p $O
[ -f $SRC/$X.patch.diff ] || { echo "$ID$X: MISSING"; exit 1; }
git -C /repo worktree add -q --detach $S HEAD || exit 2
trap 'git -C /repo worktree remove --force $S; rm -rf $O' EXIT
if ! git -C $S apply $SRC/$X.patch.diff 2>$O/apply.err; then echo "$ID$X: REJECT patch does not apply: $(head -1 $O/apply.err)"; exit 1; fi
if git -C $S status --short | grep -q '_test.go'; then echo "$ID$X: REJECT edits tests"; exit 1; fi
if ! (cd $S && go build ./... >$O/build.log 2>&1); then echo "$ID$X: REJECT does not build"; exit 1; fi
if ! (cd $S && go test -vet=off -count=1 ./... >$O/test.log 2>&1); then echo "$ID$X: REJECT suite fails"; exit 1; fi
alarms=0
for p in C02 C03 C04 C05 C06 C08 C09 C10 C11 C12 C13 C14 C15 C16 C17 C18 C19 C20; do
  out=$(${PQLINT:-bin/pqlint} -property $p -tier quick -repo $S -verif /verif -out $O -noselftest 2>&1); rc=$?
  if [ $rc -ne 0 ]; then
    alarms=$((alarms+1))
    echo "$ID$X: ALARM $p rc=$rc"
    echo "$out" | grep -E "^(VIOLATED|UNDECIDED|ANCHOR)|BROKEN|cannot" | cut -c1-420 | sed 's/^/    /'
  fi
done
[ $alarms -eq 0 ] && echo "$ID$X: QUIET ($(git -C $S diff --stat | tail -1))"

#!/usr/bin/env python3
"""usage: tools/update_catalogue.py [pqlint-binary]  -- regenerates DESIGN.md section 2 (rule catalogue and property table) from `pqlint -catalogue` (development tool)"""
import subprocess, sys
binp = sys.argv[1] if len(sys.argv) > 1 else '/verif/bin/pqlint'
cat = subprocess.run([binp, '-catalogue'], capture_output=True, text=True, check=True).stdout
p = '/verif/DESIGN.md'
s = open(p).read()
head = '## 2. Rule catalogue (generated from the code: `bin/pqlint -catalogue`)\n\n'
a = s.index(head) + len(head)
b = s.index('---------------------------------------------------------------------------\n## 3.')
s = s[:a] + cat.rstrip('\n') + '\n\n' + s[b:]
open(p, 'w').write(s)
print('catalogue: %d lines' % cat.count('\n'))

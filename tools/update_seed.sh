#!/bin/sh
# usage: tools/update_seed.sh <seed-dir-name> [note]
# Development tool: re-runs the current checker against a recorded seeded change (scratch copy under /tmp)
# and rewrites detected / detected_by_* / violated_obligations in its meta.json (first-run fields are kept).
N=$1; NOTE=$2
export GOFLAGS=-mod=mod GOPROXY=off GOSUMDB=off GOTOOLCHAIN=local; unset GOWORK
cd /verif
S=/tmp/scratch_u_$N; O=/tmp/scratch_uo_$N
rm -rf $S $O; mkdir -p $O
git -C /repo worktree add -q --detach $S HEAD && git -C $S apply /verif/seeded/$N/patch.diff || { echo "$N: cannot apply"; git -C /repo worktree remove --force $S; exit 1; }
: > $O/now.txt
for p in C02 C03 C04 C05 C06 C08 C09 C10 C11 C12 C13 C14 C15 C16 C17 C18 C19 C20; do
  out=$(bin/pqlint -property $p -tier quick -repo $S -verif /verif -out $O -noselftest 2>&1) || true
  if echo "$out" | grep -q "^VIOLATION"; then
    echo "$out" | grep -E "^(VIOLATED|UNDECIDED|ANCHOR)" | sed "s/^/$p /" >> $O/now.txt
  elif echo "$out" | grep -q "CHECK BROKEN\|cannot analyse"; then
    echo "$p BROKEN $(echo "$out" | grep -E 'BROKEN|cannot' | head -1)" >> $O/now.txt
  fi
done
git -C /repo worktree remove --force $S
python3 - "$N" "$O" "$NOTE" <<'PY'
import json, re, sys
N, O, NOTE = sys.argv[1:4]
props, rules, obl, broken = [], [], {}, []
for l in open(O + '/now.txt'):
    m = re.match(r'(C\d+) (VIOLATED|UNDECIDED|ANCHOR\S*)\s+(R-[A-Z0-9-]+)\s+(R-[A-Z0-9-]+:.*?)  \[', l)
    if not m:
        if ' BROKEN ' in l: broken.append(l.split()[0])
        continue
    p, _, rule, key = m.groups()
    if p not in props: props.append(p)
    if rule not in rules: rules.append(rule)
    obl.setdefault(p, [])
    if key not in obl[p]: obl[p].append(key)
f = '/verif/seeded/%s/meta.json' % N
m = json.load(open(f))
was = m.get('detected')
m['detected'] = bool(props); m['detected_by_properties'] = sorted(props); m['detected_by_rules'] = rules; m['violated_obligations'] = obl
if broken: m['checks_broken_not_counted'] = sorted(broken)
elif 'checks_broken_not_counted' in m: del m['checks_broken_not_counted']
if NOTE and props and not was: m['strengthened'] = NOTE
json.dump(m, open(f, 'w'), indent=1)
print('%s: detected=%s %s %s%s' % (N, bool(props), rules, sorted(props), ' (broken, not counted: %s)' % broken if broken else ''))
PY
rm -rf $O

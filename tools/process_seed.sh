#!/bin/sh
# usage: tools/process_seed.sh <round> <Cxx> <a|b> [frozen-pqlint]
# Development tool: confirms a seeded change delivered in /tmp/seed<round>_out/<Cxx>/ (tools/confirm_seed.sh),
# runs the checks of the checker as it stood before the round (frozen binary, "first run") and of the
# current checker against a scratch copy with the patch, and stores the result as /verif/seeded/r<round>_<Cxx><x>/.
R=$1; ID=$2; X=$3; FROZEN=${4:-/tmp/pqlint_frozen_r$R}
BASE=/tmp/seed${R}_out; SRC=$BASE/$ID
export GOFLAGS=-mod=mod GOPROXY=off GOSUMDB=off GOTOOLCHAIN=local; unset GOWORK
cd /verif
res=$(SEEDBASE=$BASE tools/confirm_seed.sh $ID $X 2>&1 | tail -1)
echo "$res"
case "$res" in *CONFIRMED*) ;; *) exit 1 ;; esac
S=/tmp/scratch_p_$ID$X; O=/tmp/scratch_po_$ID$X
rm -rf $S $O; mkdir -p $O
git -C /repo worktree add -q --detach $S HEAD && git -C $S apply $SRC/$X.patch.diff || { echo "$ID$X: cannot apply"; git -C /repo worktree remove --force $S; exit 1; }
: > $O/first.txt; : > $O/now.txt
for p in C02 C03 C04 C05 C06 C08 C09 C10 C11 C12 C13 C14 C15 C16 C17 C18 C19 C20; do
  for which in first now; do
    bin=bin/pqlint; [ $which = first ] && bin=$FROZEN
    out=$($bin -property $p -tier quick -repo $S -verif /verif -out $O -noselftest 2>&1) || true
    if echo "$out" | grep -q "^VIOLATION"; then
      echo "$out" | grep -E "^(VIOLATED|UNDECIDED|ANCHOR)" | sed "s/^/$p /" >> $O/$which.txt
    elif echo "$out" | grep -q "CHECK BROKEN\|cannot analyse"; then
      echo "$p BROKEN $(echo "$out" | grep -E 'BROKEN|cannot' | head -1)" >> $O/$which.txt
    fi
  done
done
git -C /repo worktree remove --force $S
python3 - "$R" "$ID" "$X" "$SRC" "$O" "$res" <<'PY'
import json, os, re, sys, shutil
R, ID, X, SRC, O, res = sys.argv[1:7]
def parse(f):
    props, rules, obl = [], [], {}
    for l in open(f):
        m = re.match(r'(C\d+) (VIOLATED|UNDECIDED|ANCHOR\S*)\s+(R-[A-Z0-9-]+)\s+(R-[A-Z0-9-]+:.*?)  \[', l)
        if not m:
            if ' BROKEN ' in l:
                p = l.split()[0]; props.append(p); obl.setdefault(p, []).append('CHECK BROKEN (counted as detected: the check refuses to pass)')
            continue
        p, _, rule, key = m.groups()
        if p not in props: props.append(p)
        if rule not in rules: rules.append(rule)
        obl.setdefault(p, [])
        if key not in obl[p]: obl[p].append(key)
    return props, rules, obl
fp, fr, fo = parse(O + '/first.txt')
np_, nr, no = parse(O + '/now.txt')
src = json.load(open('%s/%s.meta.json' % (SRC, X)))
d = '/verif/seeded/r%s_%s%s' % (R, ID, X)
os.makedirs(d, exist_ok=True)
shutil.copy('%s/%s.patch.diff' % (SRC, X), d + '/patch.diff')
demo = 'zz_demo_%s_%s_test.go' % (ID, X)
shutil.copy('%s/%s' % (SRC, demo), '%s/%s.txt' % (d, demo))
meta = {
 'property': ID, 'variant': X, 'round': int(R),
 'summary': src.get('summary', ''), 'needs': src.get('needs', ''), 'files': src.get('files', []),
 'origin': 'round %s: independent sub-agent; saw only the property text, a scratch worktree of /repo at HEAD and the list of the earlier changes it must not repeat; nothing from /verif' % R,
 'confirmed': 'SEEDBASE=/tmp/seed%s_out tools/confirm_seed.sh %s %s: %s' % (R, ID, X, res.strip()),
 'demo': demo + '.txt',
 'checks_run': 'tools/process_seed.sh (all 18 checks, quick tier, scratch copy with the patch applied; first run = the checker binary as built before the round started)',
 'detected_at_first_run': bool(fp), 'first_run_rules': fr, 'first_run_properties': sorted(fp),
 'detected': bool(np_), 'detected_by_properties': sorted(np_), 'detected_by_rules': nr, 'violated_obligations': no,
}
json.dump(meta, open(d + '/meta.json', 'w'), indent=1)
print('%s%s: first-run=%s %s | now=%s %s' % (ID, X, bool(fp), fr, bool(np_), nr))
PY
rm -rf $O

#!/bin/sh
# Builds the static checker offline from the module cache.
set -e
cd "$(dirname "$0")"
export GOFLAGS=-mod=mod GOPROXY=off GOSUMDB=off GOTOOLCHAIN=local
unset GOWORK
mkdir -p bin evidence
go build -o bin/pqlint ./cmd/pqlint

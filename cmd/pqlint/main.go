// pqlint decides structural clauses of the properties C02..C20 of promql-engine from the
// type-checked source of /repo (AST, SSA, dominators, call graph). It never runs the engine.
//
//	pqlint -property C13 -tier quick
//	pqlint -rule R-SLOTPTR            (development: one rule, no evidence)
package main

import (
	"encoding/json"
	"flag"
	"fmt"
	"os"
	"path/filepath"
	"runtime/debug"
	"sort"
	"strconv"
	"strings"
	"sync"
	"sync/atomic"
	"time"

	"verif/internal/core"
	"verif/internal/rules"
)

func main() {
	var (
		prop    = flag.String("property", "", "property id (C02..C20)")
		tier    = flag.String("tier", "quick", "quick|thorough")
		repo    = flag.String("repo", "/repo", "repository root")
		verif   = flag.String("verif", "", "verif root (default: directory above the binary)")
		rule    = flag.String("rule", "", "run a single rule and print its obligations")
		noSelf  = flag.Bool("noselftest", false, "skip the mutant self-tests (development only)")
		verbose = flag.Bool("v", false, "print every obligation")
		outDir  = flag.String("out", "", "directory for evidence files (default <verif>/evidence)")
		catalog = flag.Bool("catalogue", false, "print the rule catalogue and the property table as markdown and exit")
	)
	flag.Parse()
	if *verif == "" {
		exe, _ := os.Executable()
		*verif = filepath.Dir(filepath.Dir(exe))
	}
	if t := os.Getenv("VERIF_TIER"); t != "" && flag.Lookup("tier").Value.String() == "quick" {
		// explicit flag wins; the environment only fills the default
		if t == "thorough" || t == "quick" {
			*tier = t
		}
	}
	seed, _ := strconv.Atoi(os.Getenv("VERIF_SEED"))
	if *outDir == "" {
		*outDir = filepath.Join(*verif, "evidence")
	}
	start := time.Now()
	if *catalog {
		fmt.Println("| rule | min. instances | decides | in-memory mutants (must fire on every run) |")
		fmt.Println("|---|---|---|---|")
		for _, id := range rules.All() {
			r := rules.Get(id)
			var ms []string
			for _, m := range rules.MutantsOf(id) {
				ms = append(ms, m.Name)
			}
			fmt.Printf("| %s | %d | %s | %s |\n", id, r.Min, r.Doc, strings.Join(ms, ", "))
		}
		fmt.Println()
		fmt.Println("### Property table")
		fmt.Println()
		fmt.Println("A rule followed by `[...]` contributes only the obligations whose key names one of the listed constructs.")
		fmt.Println()
		fmt.Println("| property | rules |")
		fmt.Println("|---|---|")
		for _, id := range rules.Properties() {
			pr := rules.PropertyOf(id)
			var rs []string
			for _, r := range pr.Rules {
				if sc, ok := pr.Scope[r]; ok {
					r += " [" + strings.Join(sc, ", ") + "]"
				}
				rs = append(rs, r)
			}
			fmt.Printf("| %s | %s |\n", id, strings.Join(rs, ", "))
		}
		return
	}

	prog, err := core.Load(*repo, nil)
	if err != nil {
		fmt.Fprintf(os.Stderr, "pqlint: cannot analyse %s: %v\n", *repo, err)
		os.Exit(2)
	}

	if *rule != "" {
		r := rules.Get(*rule)
		if r == nil {
			fmt.Fprintf(os.Stderr, "unknown rule %s; have %v\n", *rule, rules.All())
			os.Exit(2)
		}
		obs := r.Run(prog)
		core.SortObligations(obs)
		bad := 0
		for _, o := range obs {
			fmt.Println(o.Line())
			if o.Status != core.Held {
				bad++
			}
		}
		fmt.Printf("%s: %d obligations, %d not held (min %d) in %.1fs\n", r.ID, len(obs), bad, r.Min, time.Since(start).Seconds())
		if !*noSelf {
			for _, res := range runMutants(*repo, []string{r.ID}, 1<<30, seed) {
				fmt.Println("  selftest", res.Line())
			}
		}
		if bad > 0 {
			os.Exit(1)
		}
		return
	}

	pr := rules.PropertyOf(*prop)
	if pr == nil {
		fmt.Fprintf(os.Stderr, "pqlint: property %q is not claimed; claimed: %v\n", *prop, rules.Properties())
		os.Exit(2)
	}
	known, err := core.LoadKnown(filepath.Join(*verif, "known_findings.json"))
	if err != nil {
		fmt.Fprintf(os.Stderr, "pqlint: known_findings.json: %v\n", err)
		os.Exit(2)
	}

	var all []core.Obligation
	perRule := map[string]int{}
	var broken []string
	var ruleDocs []string
	for _, id := range pr.Rules {
		r := rules.Get(id)
		if r == nil {
			broken = append(broken, "rule "+id+" is not registered")
			continue
		}
		obs := r.Run(prog)
		found := len(obs)
		var scoped []core.Obligation
		for _, o := range obs {
			if pr.InScope(id, o) {
				scoped = append(scoped, o)
			}
		}
		obs = scoped
		perRule[id] = len(obs)
		// fewer than half of the instances confirmed by hand: the rule has lost its anchors (a smaller drop is
		// ordinary code evolution - the instances that are left are still decided)
		if found < (r.Min+1)/2 {
			broken = append(broken, fmt.Sprintf("rule %s found %d instances, fewer than half of the %d confirmed by hand: an anchor was renamed or removed and the rule must be re-validated", id, found, r.Min))
		}
		all = append(all, obs...)
		ruleDocs = append(ruleDocs, id+": "+r.Doc)
	}
	core.SortObligations(all)

	// classify
	isKnown := func(o core.Obligation) *core.KnownFinding {
		for i := range known {
			k := &known[i]
			if k.Status == "known" && k.Property == pr.ID && k.Key == o.Key {
				return k
			}
		}
		return nil
	}
	var violations, knownHits []core.Obligation
	held := 0
	for _, o := range all {
		switch o.Status {
		case core.Held:
			held++
		default:
			if k := isKnown(o); k != nil && o.Status == core.Violated {
				knownHits = append(knownHits, o)
				fmt.Printf("KNOWN-FINDING: property=%s %s (%s at %s)\n", pr.ID, k.What, o.Key, o.Site)
			} else {
				violations = append(violations, o)
			}
		}
	}

	// self-tests of the checker: every rule must fire on its in-memory mutants of the current tree
	var selfRes []mutantResult
	var warnings []string
	strict := os.Getenv("VERIF_STRICT") != ""
	if !*noSelf {
		limit := 2 // quick: two mutants per rule, rotated by seed
		if *tier == "thorough" {
			limit = 1 << 30
		}
		selfRes = runMutants(*repo, pr.Rules, limit, seed)
		// A rule is dead (the check is broken) when mutants of it applied and none of them made it fire.
		// A single silent mutant next to firing ones is reported (and fails the check in strict mode,
		// VERIF_STRICT=1, used during development): on a tree that was edited around the mutant's site the
		// mutation may simply no longer mean what it meant.
		applied, firedBy := map[string]int{}, map[string]int{}
		for _, r := range selfRes {
			switch r.Status {
			case "fired":
				applied[r.Rule]++
				firedBy[r.Rule]++
			case "silent":
				applied[r.Rule]++
				if strict {
					broken = append(broken, "self-test: "+r.Line())
				} else {
					warnings = append(warnings, "self-test: "+r.Line())
				}
			}
		}
		for rule, n := range applied {
			if n > 0 && firedBy[rule] == 0 && !strict {
				broken = append(broken, fmt.Sprintf("self-test: rule %s did not fire on any of its %d applicable in-memory mutants: the rule is dead on this tree", rule, n))
			}
		}
	}

	// the recorded corpus, applied in memory: seeded defects this property's rules must report, and
	// behaviour-preserving refactorings on which they must stay silent
	if !*noSelf {
		limit := 1
		if *tier == "thorough" {
			limit = 1 << 30
		}
		baseline := map[string]bool{}
		for _, o := range all {
			if o.Status != core.Held {
				baseline[o.Key] = true
			}
		}
		corpus := runCorpus(*repo, *verif, pr, limit, seed, baseline)
		// The recorded corpus validates the checker, not the tree under test: a recorded change that is no
		// longer reported, or a refactoring that now makes a rule fire, is a regression of the checker. It
		// fails the check in strict mode (development); otherwise it is reported and recorded in the evidence.
		for _, r := range corpus {
			if r.Status == "silent" || r.Status == "false-alarm" {
				if strict {
					broken = append(broken, "corpus: "+r.Line())
				} else {
					warnings = append(warnings, "corpus: "+r.Line())
				}
			}
		}
		selfRes = append(selfRes, corpus...)
	}

	if *verbose {
		for _, o := range all {
			fmt.Println(o.Line())
		}
	}
	fmt.Printf("pqlint %s tier=%s: %d packages, %d functions, %d obligations (%d held, %d known findings, %d violations) rules=%v\n",
		pr.ID, *tier, len(prog.Pkgs), len(prog.Funcs), len(all), held, len(knownHits), len(violations), perRule)
	for _, r := range selfRes {
		fmt.Println("  selftest", r.Line())
	}
	sort.Strings(warnings)
	for _, w := range warnings {
		fmt.Println("  WARNING (checker self-validation, not a verdict about the tree):", w)
	}

	// evidence
	distinct := map[string]bool{}
	for _, o := range all {
		distinct[o.Key] = true
	}
	var samples []any
	for i, o := range all {
		if i%max(1, len(all)/8) == 0 {
			samples = append(samples, o)
		}
	}
	for _, o := range violations {
		samples = append(samples, o)
	}
	var selfLines []string
	applied, fired := 0, 0
	for _, r := range selfRes {
		selfLines = append(selfLines, r.Line())
		if r.Status != "skipped" {
			applied++
		}
		if r.Status == "fired" || r.Status == "quiet" {
			fired++
		}
	}
	ev := core.Evidence{
		PropertyID: pr.ID, Tier: *tier, Seed: seed, Level: pr.Level,
		Coverage: map[string]any{
			"explanation": pr.Explanation + " Rules applied -- " + strings.Join(ruleDocs, " | "),
			"evaluations": len(all), "distinct_nontrivial": len(distinct),
			"rule":                "one obligation per rule instance enumerated from the type-checked source (every go statement, call site, case, table entry ... the rule quantifies over); distinct = distinct rule+construct keys",
			"samples":             samples,
			"obligations":         len(all),
			"discharged":          held + len(knownHits),
			"obligations_by_rule": perRule,
			"checker_cmd":         "bin/pqlint -property " + pr.ID + " -tier " + *tier,
			"trusted_base":        []string{"Go type checker (go/types)", "golang.org/x/tools v0.29.0 go/packages, go/ssa (SSA construction, dominators)", "the rule implementations in /verif/internal/rules", "the reading of the pinned Prometheus parser tables' shape"},
			"packages":            len(prog.Pkgs), "functions_analysed": len(prog.Funcs),
			"exhaustive":         true,
			"selftests":          selfLines,
			"selftests_applied":  applied,
			"selftests_fired":    fired,
			"known_findings_hit": len(knownHits),
		},
		Assumptions: append([]string{"decides the structural clauses listed in coverage.explanation for all paths of the current source; it does not decide the behaviour itself"}, pr.NotDecided...),
		WallS:       time.Since(start).Seconds(),
		Violations:  len(violations),
	}
	evPath := filepath.Join(*outDir, pr.ID+".json")
	if err := core.WriteJSON(evPath, ev); err != nil {
		fmt.Fprintf(os.Stderr, "pqlint: writing evidence: %v\n", err)
		os.Exit(2)
	}

	if len(violations) > 0 {
		replay := filepath.Join(*outDir, pr.ID+".replay.json")
		_ = core.WriteJSON(replay, map[string]any{"property": pr.ID, "violations": violations})
		for _, o := range violations {
			fmt.Println(o.Line())
		}
		fmt.Printf("VIOLATION property=%s replay=%s\n", pr.ID, replay)
		os.Exit(1)
	}
	if len(broken) > 0 {
		sort.Strings(broken)
		for _, b := range broken {
			fmt.Fprintln(os.Stderr, "pqlint: CHECK BROKEN:", b)
		}
		os.Exit(2)
	}
}

type mutantResult struct {
	Rule, Name, Status, Detail string
}

func (m mutantResult) Line() string {
	return fmt.Sprintf("%s/%s: %s %s", m.Rule, m.Name, m.Status, m.Detail)
}

// runMutants applies, in memory (go/packages overlay, nothing is written), each registered
// single-site mutation of the current tree and checks that the rule reports a new violation.
// A mutant whose anchor text no longer exists, or that does not type-check, is skipped.
func runMutants(repo string, ruleIDs []string, perRule int, seed int) []mutantResult {
	type job struct {
		r *rules.Rule
		m rules.Mutant
	}
	var jobs []job
	for _, id := range ruleIDs {
		r := rules.Get(id)
		if r == nil {
			continue
		}
		ms := rules.MutantsOf(id)
		n := len(ms)
		for k := 0; k < n && k < perRule; k++ {
			jobs = append(jobs, job{r, ms[(k+seed%max(1, n)+n)%n]})
		}
	}
	out := make([]mutantResult, len(jobs))
	sem := make(chan struct{}, 4)
	var wg sync.WaitGroup
	for i, j := range jobs {
		wg.Add(1)
		go func(i int, j job) {
			defer wg.Done()
			sem <- struct{}{}
			defer func() { <-sem }()
			res := mutantResult{Rule: j.r.ID, Name: j.m.Name}
			defer func() {
				if e := recover(); e != nil {
					res.Status, res.Detail = "silent", fmt.Sprintf("rule panicked on mutant: %v", e)
				}
				out[i] = res
			}()
			file := filepath.Join(repo, j.m.File)
			src, err := os.ReadFile(file)
			if err != nil || !strings.Contains(string(src), j.m.Old) {
				res.Status, res.Detail = "skipped", "anchor text not present in "+j.m.File
				return
			}
			mutated := strings.Replace(string(src), j.m.Old, j.m.New, 1)
			if j.m.Old2 != "" {
				if !strings.Contains(mutated, j.m.Old2) {
					res.Status, res.Detail = "skipped", "second anchor text not present in "+j.m.File
					return
				}
				mutated = strings.Replace(mutated, j.m.Old2, j.m.New2, 1)
			}
			if j.m.Old3 != "" {
				if !strings.Contains(mutated, j.m.Old3) {
					res.Status, res.Detail = "skipped", "third anchor text not present in "+j.m.File
					return
				}
				mutated = strings.Replace(mutated, j.m.Old3, j.m.New3, 1)
			}
			mp, err := core.Load(repo, map[string][]byte{file: []byte(mutated)})
			if err != nil {
				res.Status, res.Detail = "skipped", "mutant does not load: "+firstLine(err.Error())
				return
			}
			defer releaseProgram(mp)
			for _, o := range j.r.Run(mp) {
				if o.Status == core.Violated && strings.Contains(o.Key, j.m.Expect) {
					res.Status, res.Detail = "fired", o.Key
					return
				}
			}
			res.Status, res.Detail = "silent", "rule did not report "+j.m.Expect
		}(i, j)
	}
	wg.Wait()
	return out
}

func firstLine(s string) string {
	if i := strings.IndexByte(s, '\n'); i >= 0 {
		return s[:i]
	}
	return s
}

// runCorpus applies the recorded seeded defects (/verif/seeded/*/patch.diff whose meta.json lists this
// property) and the behaviour-preserving refactorings (/verif/benign/*.diff) to the current tree in
// memory and runs the property's rules on each: a seeded defect must be reported, a refactoring must not.
// Only reports that are new with respect to the current tree (baseline) count.
func runCorpus(repo, verif string, pr *rules.Property, limit int, seed int, baseline map[string]bool) []mutantResult {
	type job struct {
		kind, name, patch string
		expect            []string
	}
	var seeds, benign []job
	metas, _ := filepath.Glob(filepath.Join(verif, "seeded", "*", "meta.json"))
	sort.Strings(metas)
	for _, mf := range metas {
		b, err := os.ReadFile(mf)
		if err != nil {
			continue
		}
		var m struct {
			Violated map[string][]string `json:"violated_obligations"`
		}
		if json.Unmarshal(b, &m) != nil {
			continue
		}
		keys, ok := m.Violated[pr.ID]
		if !ok || len(keys) == 0 {
			continue
		}
		seeds = append(seeds, job{"seed", filepath.Base(filepath.Dir(mf)), filepath.Join(filepath.Dir(mf), "patch.diff"), keys})
	}
	bs, _ := filepath.Glob(filepath.Join(verif, "benign", "*.diff"))
	sort.Strings(bs)
	for _, bf := range bs {
		benign = append(benign, job{"benign", strings.TrimSuffix(filepath.Base(bf), ".diff"), bf, nil})
	}
	pick := func(js []job) []job {
		if len(js) <= limit {
			return js
		}
		var out []job
		for k := 0; k < limit; k++ {
			out = append(out, js[(seed+k)%len(js)])
		}
		return out
	}
	jobs := append(pick(seeds), pick(benign)...)
	out := make([]mutantResult, len(jobs))
	sem := make(chan struct{}, 4)
	var wg sync.WaitGroup
	for i, j := range jobs {
		wg.Add(1)
		go func(i int, j job) {
			defer wg.Done()
			sem <- struct{}{}
			defer func() { <-sem }()
			res := mutantResult{Rule: j.kind, Name: j.name}
			defer func() {
				if e := recover(); e != nil {
					res.Status, res.Detail = "silent", fmt.Sprintf("rule panicked: %v", e)
				}
				out[i] = res
			}()
			diff, err := os.ReadFile(j.patch)
			if err != nil {
				res.Status, res.Detail = "skipped", err.Error()
				return
			}
			overlay, err := core.ApplyUnifiedDiff(repo, string(diff))
			if err != nil {
				res.Status, res.Detail = "skipped", "patch no longer applies: "+firstLine(err.Error())
				return
			}
			mp, err := core.Load(repo, overlay)
			if err != nil {
				res.Status, res.Detail = "skipped", "patched tree does not load: "+firstLine(err.Error())
				return
			}
			defer releaseProgram(mp)
			var violated []string
			for _, id := range pr.Rules {
				r := rules.Get(id)
				if r == nil {
					continue
				}
				for _, o := range r.Run(mp) {
					if o.Status != core.Held && !baseline[o.Key] && pr.InScope(id, o) {
						violated = append(violated, o.Key)
					}
				}
			}
			if j.kind == "benign" {
				if len(violated) == 0 {
					res.Status, res.Detail = "quiet", "no rule of this property fires on the refactoring"
				} else {
					res.Status, res.Detail = "false-alarm", violated[0]
				}
				return
			}
			for _, v := range violated {
				for _, e := range j.expect {
					if v == e {
						res.Status, res.Detail = "fired", v
						return
					}
				}
			}
			if len(violated) > 0 {
				res.Status, res.Detail = "fired", violated[0]+" (a different obligation than recorded)"
				return
			}
			res.Status, res.Detail = "silent", "recorded as detected by this property, but no rule reports it"
		}(i, j)
	}
	wg.Wait()
	return out
}

// releaseProgram drops the caches that keep a checked variant of the tree alive and hands the memory back: a
// thorough run loads more than a hundred variants (mutants, recorded changes, refactorings) in one process.
var releaseCount int64

func releaseProgram(p *core.Program) {
	rules.Release(p)
	if atomic.AddInt64(&releaseCount, 1)%4 == 0 {
		debug.FreeOSMemory()
	}
}

#!/bin/sh
# usage: run.sh [worktree]  -- runs every TestTriage* individually (some crash the process on a broken tree)
W=${1:-/repo}
export GOFLAGS=-mod=mod GOPROXY=off GOSUMDB=off GOTOOLCHAIN=local; unset GOWORK
cp /verif/triage/triage_test.go.txt $W/engine/zz_triage_test.go
trap 'rm -f $W/engine/zz_triage_test.go /tmp/triage_engine.test' EXIT
(cd $W && go test -c -vet=off -o /tmp/triage_engine.test ./engine/) || exit 2
cd $W/engine
for t in $(grep -o 'func TestTriage[A-Za-z0-9]*' zz_triage_test.go | sed 's/func //'); do
  out=$(timeout 120 /tmp/triage_engine.test -test.run "^$t\$" -test.count=1 2>&1); rc=$?
  echo "== $t rc=$rc"
  [ $rc -ne 0 ] && echo "$out" | grep -E "panic:|exp:|got:|Not|timed|goleak|wrote|sorted|fatal|DATA RACE" | head -4 | cut -c1-300
done

// Triage demonstrations for the findings listed in /verif/known_findings.json.
// Not part of any registered check (checks are static); each test shows the
// failing input against the real code: it FAILS on the pinned tree and PASSES
// once the corresponding "fix:" commit is applied (or keeps failing for a
// finding that is recorded rather than repaired).
//
// Usage: copy into <worktree>/engine/ and run
//   go test -vet=off -count=1 -run 'TestTriage' ./engine/
package engine_test

import (
	"context"
	"fmt"
	"testing"
	"time"

	"github.com/efficientgo/core/testutil"
	"github.com/prometheus/prometheus/model/labels"
	"github.com/prometheus/prometheus/promql"
	"github.com/prometheus/prometheus/promql/parser"
	"github.com/prometheus/prometheus/storage"
	"github.com/prometheus/prometheus/tsdb/chunkenc"

	"github.com/thanos-community/promql-engine/api"
	"github.com/thanos-community/promql-engine/engine"
	"github.com/thanos-community/promql-engine/logicalplan"
)

var triageOpts = promql.EngineOpts{
	Timeout:              1 * time.Hour,
	MaxSamples:           1e10,
	EnableNegativeOffset: true,
	EnableAtModifier:     true,
}

func triageCompare(t *testing.T, load, query string, start, end time.Time, step time.Duration, qopts *promql.QueryOpts) {
	t.Helper()
	test, err := promql.NewTest(t, load)
	testutil.Ok(t, err)
	defer test.Close()
	testutil.Ok(t, test.Run())

	newEngine := engine.New(engine.Opts{EngineOpts: triageOpts, DisableFallback: true, LogicalOptimizers: logicalplan.NoOptimizers})
	oldEngine := promql.NewEngine(triageOpts)
	var q1, q2 promql.Query
	if step == 0 {
		q1, err = newEngine.NewInstantQuery(test.Storage(), qopts, query, start)
		testutil.Ok(t, err)
		q2, err = oldEngine.NewInstantQuery(test.Storage(), qopts, query, start)
		testutil.Ok(t, err)
	} else {
		q1, err = newEngine.NewRangeQuery(test.Storage(), qopts, query, start, end, step)
		testutil.Ok(t, err)
		q2, err = oldEngine.NewRangeQuery(test.Storage(), qopts, query, start, end, step)
		testutil.Ok(t, err)
	}
	defer q1.Close()
	defer q2.Close()
	newResult := q1.Exec(context.Background())
	oldResult := q2.Exec(context.Background())
	if oldResult.Err != nil {
		testutil.NotOk(t, newResult.Err, "reference fails with %v", oldResult.Err)
		return
	}
	testutil.Ok(t, newResult.Err)
	testutil.Equals(t, fmt.Sprint(oldResult.Value), fmt.Sprint(newResult.Value))
}

const triageLoad = `load 30s
	http_requests_total{pod="nginx-1", ns="a"} 1+1x40
	http_requests_total{pod="nginx-2", ns="a"} 1+2x40
	http_requests_total{pod="nginx-3", ns="b"} 5+3x40
	other{pod="nginx-1", extra="zz", aa="first"} 2+1x40`

func TestTriageLookbackPerQuery(t *testing.T) { // R-LOOKBACK, C02
	triageCompare(t, `load 30s
	x 1 2 3`, `x`, time.Unix(200, 0), time.Unix(200, 0), 0, &promql.QueryOpts{LookbackDelta: 10 * time.Second})
}

func TestTriageRateSubSecondRange(t *testing.T) { // R-TRUNCDIV, C03
	triageCompare(t, triageLoad, `rate(http_requests_total[90s500ms])`, time.Unix(300, 0), time.Unix(300, 0), 0, nil)
}

func TestTriageTopkZero(t *testing.T) { // R-INTCONV, C04/C13
	triageCompare(t, triageLoad, `topk(0, http_requests_total)`, time.Unix(300, 0), time.Unix(300, 0), 0, nil)
}

func TestTriageTopkNegative(t *testing.T) {
	triageCompare(t, triageLoad, `topk(-1, http_requests_total)`, time.Unix(0, 0), time.Unix(600, 0), 30*time.Second, nil)
}

func TestTriageTopkNaN(t *testing.T) {
	triageCompare(t, triageLoad, `topk(scalar(absent_metric_zz), http_requests_total)`, time.Unix(300, 0), time.Unix(300, 0), 0, nil)
}

func TestTriageTopkHuge(t *testing.T) {
	triageCompare(t, triageLoad, `topk(1e300, http_requests_total)`, time.Unix(300, 0), time.Unix(300, 0), 0, nil)
}

func TestTriageGroupedTopkAsOperand(t *testing.T) { // R-ONEPERSTEP, C04/C18
	triageCompare(t, triageLoad, `topk by (ns) (1, http_requests_total) + 1`, time.Unix(0, 0), time.Unix(600, 0), 30*time.Second, nil)
}

func TestTriageBoolDropsName(t *testing.T) { // R-BOOLNAME, C05
	triageCompare(t, triageLoad, `http_requests_total == bool http_requests_total`, time.Unix(300, 0), time.Unix(300, 0), 0, nil)
	triageCompare(t, triageLoad, `http_requests_total > bool 3`, time.Unix(300, 0), time.Unix(300, 0), 0, nil)
	triageCompare(t, triageLoad, `3 < bool http_requests_total`, time.Unix(300, 0), time.Unix(300, 0), 0, nil)
}

func TestTriageGroupLeftLabelOrder(t *testing.T) { // R-LABELBUILD, C05/C19
	test, err := promql.NewTest(t, triageLoad)
	testutil.Ok(t, err)
	defer test.Close()
	testutil.Ok(t, test.Run())
	newEngine := engine.New(engine.Opts{EngineOpts: triageOpts, DisableFallback: true})
	q, err := newEngine.NewInstantQuery(test.Storage(), nil, `http_requests_total * on (pod) group_left (aa) other`, time.Unix(300, 0))
	testutil.Ok(t, err)
	defer q.Close()
	res := q.Exec(context.Background())
	testutil.Ok(t, res.Err)
	v, err := res.Vector()
	testutil.Ok(t, err)
	testutil.Assert(t, len(v) > 0, "no samples")
	for _, s := range v {
		for i := 1; i < len(s.Metric); i++ {
			testutil.Assert(t, s.Metric[i-1].Name < s.Metric[i].Name, "labels not sorted: %v", []labels.Label(s.Metric))
		}
	}
	triageCompare(t, triageLoad, `http_requests_total * on (pod) group_left (aa) other`, time.Unix(300, 0), time.Unix(300, 0), 0, nil)
	// include label already present on the many side must be overwritten/removed like the reference does
	triageCompare(t, triageLoad, `http_requests_total * on (pod) group_left (ns) other`, time.Unix(300, 0), time.Unix(300, 0), 0, nil)
}

func TestTriageClampMaxLtMin(t *testing.T) { // R-SENTINEL, C06
	triageCompare(t, triageLoad, `clamp(http_requests_total, 5, 1)`, time.Unix(300, 0), time.Unix(300, 0), 0, nil)
	triageCompare(t, triageLoad, `clamp(http_requests_total, 5, 1)`, time.Unix(0, 0), time.Unix(600, 0), 30*time.Second, nil)
}

func TestTriageTimestampFn(t *testing.T) { // R-POINTFIELDS, C06
	triageCompare(t, triageLoad, `timestamp(http_requests_total)`, time.Unix(95, 0), time.Unix(95, 0), 0, nil)
}

func TestTriageTime21Steps(t *testing.T) { // R-PAIRING, C06/C18
	triageCompare(t, triageLoad, `time()`, time.Unix(0, 0), time.Unix(600, 0), 30*time.Second, nil)
}

func TestTriagePi21Steps(t *testing.T) {
	triageCompare(t, triageLoad, `pi()`, time.Unix(0, 0), time.Unix(600, 0), 30*time.Second, nil)
}

func TestTriageScalar21Steps(t *testing.T) {
	triageCompare(t, triageLoad, `scalar(other)`, time.Unix(0, 0), time.Unix(600, 0), 30*time.Second, nil)
}

func TestTriageSumNeg(t *testing.T) { // R-INITBEFOREUSE, C13/C18
	triageCompare(t, triageLoad, `sum(-http_requests_total)`, time.Unix(300, 0), time.Unix(300, 0), 0, nil)
}

func TestTriageHintsBinaryUnderAggregation(t *testing.T) { // R-HINTXFER, C16
	for _, query := range []string{`sum by (ns) (http_requests_total + other)`, `sum by (ns) (-http_requests_total)`, `sum by (ns) ((http_requests_total))`, `sum by (ns) (http_requests_total @ 100)`, `abs(http_requests_total + other)`, `sum by (ns) (abs(http_requests_total))`} {
		var hnew, hold []*storage.SelectHints
		rec := func(dst *[]*storage.SelectHints) storage.Queryable {
			return storage.QueryableFunc(func(ctx context.Context, mint, maxt int64) (storage.Querier, error) {
				return &triageHintQuerier{rec: func(h *storage.SelectHints) { c := *h; *dst = append(*dst, &c) }}, nil
			})
		}
		newEngine := engine.New(engine.Opts{EngineOpts: triageOpts, DisableFallback: true, LogicalOptimizers: logicalplan.NoOptimizers})
		oldEngine := promql.NewEngine(triageOpts)
		q1, err := newEngine.NewInstantQuery(rec(&hnew), nil, query, time.Unix(300, 0))
		testutil.Ok(t, err)
		q1.Exec(context.Background())
		q2, err := oldEngine.NewInstantQuery(rec(&hold), nil, query, time.Unix(300, 0))
		testutil.Ok(t, err)
		q2.Exec(context.Background())
		key := func(hs []*storage.SelectHints) map[string]int {
			m := map[string]int{}
			for _, h := range hs {
				m[fmt.Sprintf("%+v", *h)]++
			}
			return m
		}
		testutil.Equals(t, key(hold), key(hnew), query)
	}
}

type triageHintQuerier struct {
	storage.Querier
	rec func(*storage.SelectHints)
}

var triageMu = make(chan struct{}, 1)

func (h *triageHintQuerier) Close() error { return nil }
func (h *triageHintQuerier) Select(_ bool, hints *storage.SelectHints, _ ...*labels.Matcher) storage.SeriesSet {
	triageMu <- struct{}{}
	h.rec(hints)
	<-triageMu
	return storage.EmptySeriesSet()
}

func TestTriageMergeSelectsUnderCall(t *testing.T) { // R-SLOTPTR traverse, C09
	load := `load 30s
	metric{a="b", c="d"} 1+1x10
	metric{a="b", c="e"} 100+1x10`
	test, err := promql.NewTest(t, load)
	testutil.Ok(t, err)
	defer test.Close()
	testutil.Ok(t, test.Run())
	query := `abs(metric{a="b", c="d"}) / scalar(metric{a="b", c="d"})`
	_ = query
	query = `abs(metric{a="b", c="d"}) + on() group_left() count(metric{a="b"})`
	var res [2]string
	for i, optimizers := range [][]logicalplan.Optimizer{logicalplan.NoOptimizers, logicalplan.DefaultOptimizers} {
		e := engine.New(engine.Opts{EngineOpts: triageOpts, DisableFallback: true, LogicalOptimizers: optimizers})
		q, err := e.NewInstantQuery(test.Storage(), nil, query, time.Unix(120, 0))
		testutil.Ok(t, err)
		r := q.Exec(context.Background())
		testutil.Ok(t, r.Err)
		res[i] = fmt.Sprint(r.Value)
		q.Close()
	}
	testutil.Equals(t, res[0], res[1])
}

func TestTriageSharedOptimizerSlice(t *testing.T) { // R-FOREIGNAPPEND, C20
	base := make([]logicalplan.Optimizer, 1, 4)
	base[0] = logicalplan.SortMatchers{}
	probe := base[:2]
	engine.NewDistributedEngine(engine.Opts{LogicalOptimizers: base}, nil)
	testutil.Assert(t, probe[1] == nil, "NewDistributedEngine wrote into the caller's backing array: %v", probe[1])
}

func triageDistributed(t *testing.T, query string, start, end time.Time, step time.Duration) {
	t.Helper()
	ssetA := []storage.Series{
		newMockSeries([]string{labels.MetricName, "bar", "region", "east", "pod", "nginx-1"},
			[]int64{0, 30000, 60000, 90000, 120000}, []float64{1, 2, 3, 4, 5}),
		newMockSeries([]string{labels.MetricName, "bar", "region", "east", "pod", "nginx-2"},
			[]int64{0, 30000, 60000}, []float64{2, 3, 4}), // ends inside the window
	}
	ssetB := []storage.Series{
		newMockSeries([]string{labels.MetricName, "bar", "region", "west", "pod", "nginx-1"},
			[]int64{0, 30000, 60000, 90000, 120000, 150000, 180000, 210000, 240000}, []float64{3, 4, 5, 6, 7, 8, 9, 10, 11}),
	}
	localOpts := engine.Opts{EngineOpts: triageOpts}
	distOpts := localOpts
	distOpts.DisableFallback = true
	distEngine := engine.NewDistributedEngine(distOpts, api.NewStaticEndpoints([]api.RemoteEngine{
		engine.NewLocalEngine(localOpts, storageWithSeries(ssetA...)),
		engine.NewLocalEngine(localOpts, storageWithSeries(ssetB...)),
	}))
	// The coordinating engine has no data of its own.
	distQry, err := distEngine.NewRangeQuery(storageWithSeries(), nil, query, start, end, step)
	testutil.Ok(t, err)
	distResult := distQry.Exec(context.Background())
	testutil.Ok(t, distResult.Err)
	promQry, err := promql.NewEngine(triageOpts).NewRangeQuery(storageWithSeries(append(ssetA, ssetB...)...), nil, query, start, end, step)
	testutil.Ok(t, err)
	promResult := promQry.Exec(context.Background())
	testutil.Ok(t, promResult.Err)
	testutil.Equals(t, fmt.Sprint(promResult.Value), fmt.Sprint(distResult.Value))
}

func TestTriageDistributedUnderCall(t *testing.T) { // R-SLOTPTR traverseBottomUp, C10
	triageDistributed(t, `abs(sum by (pod) (bar))`, time.Unix(0, 0), time.Unix(120, 0), 30*time.Second)
}

func TestTriageDistributedLookbackTwice(t *testing.T) { // R-REMOTELOOKBACK, C10
	triageDistributed(t, `sum by (region) (bar)`, time.Unix(0, 0), time.Unix(900, 0), 30*time.Second)
}

func TestTriageParamAbsentAtStep(t *testing.T) { // R-SAMPLE0, C13
	load := `load 30s
	x{a="1"} 1+1x40
	x{a="2"} 2+1x40
	gappy 0.5 0.5 0.5`
	triageCompare(t, load, `quantile(scalar(gappy), x)`, time.Unix(0, 0), time.Unix(900, 0), 30*time.Second, nil)
}

func TestTriagePanicValueSwallowed(t *testing.T) { // R-RECOVERTOTAL, C13
	for _, query := range []string{"somequery", "sum(somequery)"} {
		querier := &storage.MockQueryable{MockQuerier: &storage.MockQuerier{
			SelectMockFunction: func(bool, *storage.SelectHints, ...*labels.Matcher) storage.SeriesSet { panic("boom") },
		}}
		q, err := engine.New(engine.Opts{DisableFallback: true}).NewInstantQuery(querier, nil, query, time.Unix(100, 0))
		testutil.Ok(t, err)
		r := q.Exec(context.Background())
		testutil.NotOk(t, r.Err, "a panic in a storage callback must surface as the query's error")
	}
}

type triagePanicSeries struct{ storage.Series }

func (s triagePanicSeries) Iterator() chunkenc.Iterator { return triagePanicIterator{s.Series.Iterator()} }

type triagePanicIterator struct{ chunkenc.Iterator }

func (triagePanicIterator) Seek(int64) chunkenc.ValueType { panic(fmt.Errorf("seek boom")) }

func TestTriagePanicOnHelperGoroutines(t *testing.T) { // R-PANICDOMAIN, C13
	// Seek is called from vectorSelector.Next, which runs on the
	// concurrencyOperator.pull goroutine.
	base := newMockSeries([]string{labels.MetricName, "foo", "a", "1"}, []int64{0, 30000}, []float64{1, 2})
	querier := &storage.MockQueryable{MockQuerier: &storage.MockQuerier{
		SelectMockFunction: func(bool, *storage.SelectHints, ...*labels.Matcher) storage.SeriesSet {
			return newTestSeriesSet(triagePanicSeries{base})
		},
	}}
	for _, query := range []string{"foo", "foo + foo", "sum(foo)"} {
		q, err := engine.New(engine.Opts{DisableFallback: true}).NewInstantQuery(querier, nil, query, time.Unix(10, 0))
		testutil.Ok(t, err)
		r := q.Exec(context.Background())
		testutil.NotOk(t, r.Err, query)
	}
}

type triagePanicRemote struct{}

func (triagePanicRemote) NewInstantQuery(*promql.QueryOpts, string, time.Time) (promql.Query, error) {
	return triagePanicQuery{}, nil
}
func (triagePanicRemote) NewRangeQuery(*promql.QueryOpts, string, time.Time, time.Time, time.Duration) (promql.Query, error) {
	return triagePanicQuery{}, nil
}

type triagePanicQuery struct{ promql.Query }

func (triagePanicQuery) Exec(context.Context) *promql.Result { panic(fmt.Errorf("remote boom")) }
func (triagePanicQuery) Close()                              {}
func (triagePanicQuery) String() string                      { return "panic" }

// triageRemoteLHS is a user-supplied logical optimizer (public API) that executes the
// left-hand side of a binary expression remotely.
type triageRemoteLHS struct{}

func (triageRemoteLHS) Optimize(e parser.Expr) parser.Expr {
	if b, ok := e.(*parser.BinaryExpr); ok {
		b.LHS = &logicalplan.RemoteExecution{Engine: triagePanicRemote{}, Query: b.LHS.String()}
	}
	return e
}

func TestTriagePanicInBinaryLoader(t *testing.T) { // R-PANICDOMAIN (initOutputs loader), C13
	test, err := promql.NewTest(t, triageLoad)
	testutil.Ok(t, err)
	defer test.Close()
	testutil.Ok(t, test.Run())
	e := engine.New(engine.Opts{DisableFallback: true, LogicalOptimizers: []logicalplan.Optimizer{triageRemoteLHS{}}})
	q, err := e.NewInstantQuery(test.Storage(), nil, "http_requests_total + http_requests_total", time.Unix(10, 0))
	testutil.Ok(t, err)
	r := q.Exec(context.Background())
	testutil.NotOk(t, r.Err)
}

func TestTriageCancelRace(t *testing.T) { // R-APIFIELDSYNC, C12/C14 (run with -race)
	test, err := promql.NewTest(t, triageLoad)
	testutil.Ok(t, err)
	defer test.Close()
	testutil.Ok(t, test.Run())
	for i := 0; i < 50; i++ {
		q, err := engine.New(engine.Opts{DisableFallback: true}).NewRangeQuery(test.Storage(), nil, "sum(http_requests_total)", time.Unix(0, 0), time.Unix(600, 0), 30*time.Second)
		testutil.Ok(t, err)
		done := make(chan struct{})
		go func() { q.Cancel(); close(done) }()
		q.Exec(context.Background())
		<-done
		q.Close()
	}
}

type triageCountingRemote struct {
	api.RemoteEngine
	calls *int
}

func (r triageCountingRemote) NewRangeQuery(o *promql.QueryOpts, q string, s, e time.Time, i time.Duration) (promql.Query, error) {
	*r.calls++
	return r.RemoteEngine.NewRangeQuery(o, q, s, e, i)
}

func TestTriageDistributedEnginesShareEndpoints(t *testing.T) { // R-FOREIGNAPPEND, C20
	var callsA, callsB int
	mk := func(calls *int) api.RemoteEndpoints {
		return api.NewStaticEndpoints([]api.RemoteEngine{triageCountingRemote{engine.NewLocalEngine(engine.Opts{}, storageWithSeries()), calls}})
	}
	engA := engine.NewDistributedEngine(engine.Opts{LogicalOptimizers: logicalplan.AllOptimizers, DisableFallback: true}, mk(&callsA))
	engine.NewDistributedEngine(engine.Opts{LogicalOptimizers: logicalplan.AllOptimizers, DisableFallback: true}, mk(&callsB))
	q, err := engA.NewRangeQuery(storageWithSeries(), nil, "sum(foo)", time.Unix(0, 0), time.Unix(60, 0), 30*time.Second)
	testutil.Ok(t, err)
	q.Exec(context.Background())
	testutil.Equals(t, [2]int{1, 0}, [2]int{callsA, callsB})
}
